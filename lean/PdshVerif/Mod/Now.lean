/-
  mod.c AS IT IS NOW (/repo HEAD fde0027), on top of Mod/Load.lean + Mod/LoadTie.lean:

    _cmp_f            since 930abcb: `return (y->priority > x->priority) ? 1 : -1` -- priorities are COMPARED, no
                      arithmetic, hence no overflow: `cmpF` below is the C expression for every pair of ints.
                      list_sort only looks at the sign of the comparison, so it sorts exactly like the model
                      that subtracts in ℤ (`listSort_eq`), for ALL priorities.
    _mod_load_dynamic since fde0027: a file whose dlopen HANDLE is already in module_list is skipped.  A module
                      directory maps NAMES to OBJECTS and two names may share one object (symbolic or hard
                      link): `oid : Str → Nat` says which object a name denotes (st_dev/st_ino of what the name
                      resolves to; dlopen hands out one handle per object).  An object that is dropped again
                      (refused by _mod_register, or evicted later by a better duplicate) is dlclose()d down to
                      reference count 0 and unloaded, so a later name of it starts afresh -- the test is
                      against the CURRENT module list only, exactly as written here.

  `rename` = the proposed repair of F17-SAMEOBJ-TIE (findings/C17-sameobj-tie.patch): a skipped second name that is
  lexicographically smaller than the registered one takes its place as the module's file name.
-/
import PdshVerif.Mod.PrioWrap
import PdshVerif.Mod.TieLemmas

namespace PdshVerif.Mod.Now
open PdshVerif.Mod

/-! ### _cmp_f -/

/-- _cmp_f since 930abcb: priority (higher first, by comparison), then name, then type -/
def cmpF (x y : Mod) : Int :=
  if x.prio ≠ y.prio then (if y.prio > x.prio then 1 else -1)
  else if strcmp x.name y.name ≠ 0 then strcmp x.name y.name
  else strcmp x.type y.type

theorem cmpF_sign (x y : Mod) : cmpF x y ≥ 0 ↔ Tie.cmpF x y ≥ 0 := by
  unfold cmpF Tie.cmpF
  by_cases h : x.prio ≠ y.prio
  · rw [if_pos h, if_pos h]
    by_cases h2 : y.prio > x.prio
    · rw [if_pos h2]; omega
    · rw [if_neg h2]; omega
  · rw [if_neg h, if_neg h]

theorem insertBefore_sign {α : Type} (c₁ c₂ : α → α → Int) (h : ∀ x y, c₁ x y ≥ 0 ↔ c₂ x y ≥ 0) (x : α)
    (l : List α) : insertBefore c₁ x l = insertBefore c₂ x l := by
  induction l with
  | nil => rfl
  | cons y ys ih =>
    simp only [insertBefore]
    by_cases h1 : c₁ x y ≥ 0
    · rw [if_pos h1, if_pos ((h x y).mp h1), ih]
    · rw [if_neg h1, if_neg (fun h2 => h1 ((h x y).mpr h2))]

theorem sortStep_sign {α : Type} (c₁ c₂ : α → α → Int) (h : ∀ x y, c₁ x y ≥ 0 ↔ c₂ x y ≥ 0) (pre : List α)
    (x : α) : sortStep c₁ pre x = sortStep c₂ pre x := by
  unfold sortStep
  cases pre.getLast? with
  | none => rfl
  | some prev =>
    simp only
    have hs : c₁ x prev < 0 ↔ c₂ x prev < 0 := by
      have := h x prev
      constructor <;> intro h1 <;> omega
    by_cases h1 : c₁ x prev < 0
    · rw [if_pos h1, if_pos (hs.mp h1), insertBefore_sign c₁ c₂ h]
    · rw [if_neg h1, if_neg (fun h2 => h1 (hs.mpr h2))]

/-- list_sort looks at the SIGN of the comparison only -/
theorem listSort_sign {α : Type} (c₁ c₂ : α → α → Int) (h : ∀ x y, c₁ x y ≥ 0 ↔ c₂ x y ≥ 0) (l : List α) :
    listSort c₁ l = listSort c₂ l := by
  unfold listSort
  have : sortStep c₁ = sortStep c₂ := by
    funext pre x; exact sortStep_sign c₁ c₂ h pre x
  rw [this]

/-- the code's _cmp_f sorts EVERY module list -- any integer priorities -- like the model that subtracts in ℤ -/
theorem listSort_eq (l : List Mod) : listSort cmpF l = listSort Tie.cmpF l :=
  listSort_sign cmpF Tie.cmpF cmpF_sign l

/-! ### one object under several names -/

/-- the second name of an object whose handle is in the list: dlopen is logged, nothing registered, not counted;
    with `rename` the registered module takes over the smaller of the two file names -/
def skip (rename : Bool) (oid : Str → Nat) (s : LoadSt) (fname : Str) : LoadSt :=
  ⟨if rename then s.mods.map (fun m => if oid m.file == oid fname && decide (strcmp fname m.file < 0)
                                       then { m with file := fname } else m) else s.mods,
   s.opened ++ [fname], s.count⟩

/-- _mod_load_dynamic since fde0027 for an object that passed the per-file tests -/
def loadObj (rename : Bool) (oid : Str → Nat) (beats : Beats) (pers : Nat) (s : LoadSt) (fname : Str)
    (obj : Obj) : LoadSt :=
  match obj with
  | .noload => loadObjG beats pers s fname obj                 -- dlopen fails before the handle is looked at
  | _ => if s.mods.any (fun m => oid m.file == oid fname) then skip rename oid s fname
         else loadObjG beats pers s fname obj

def loadFile (rename : Bool) (oid : Str → Nat) (beats : Beats) (uid owner pers : Nat) (s : LoadSt) (f : File) :
    LoadSt :=
  match f.st with
  | none => s
  | some st => if fileOk uid owner st then loadObj rename oid beats pers s f.fname f.obj else s

def loadFiles (rename : Bool) (oid : Str → Nat) (beats : Beats) (uid owner pers : Nat) (files : List File) :
    LoadSt :=
  files.foldl (loadFile rename oid beats uid owner pers) ⟨[], [], 0⟩

/-- mod_load_modules on the chosen directory (the text of `loadDirG` with the registration loop above) -/
def loadDirG (rename : Bool) (oid : Str → Nat) (beats : Beats) (cmp : Mod → Mod → Int) (e : Env) (d : Dir) :
    Result :=
  let base := baseOpts e.pers
  match e.owner with
  | none => ⟨true, [], [], base, [], []⟩
  | some owner =>
    if !pathOk e.uid owner d.path then ⟨true, [], [], base, [], []⟩
    else
      let ls := loadFiles rename oid beats e.uid owner e.pers d.files
      if ls.count = 0 then ⟨true, [], [], base, ls.opened, []⟩
      else
        let r := initPhase e.pers e.misc (listSort cmp ls.mods)
        ⟨false, r.1, r.2.calls, r.2.opts, ls.opened, r.2.regs⟩

/-- THE CODE AS IT IS NOW: personality first (59829e8), ties broken by type / file name (c80ee4f), priorities
    compared (930abcb), an object already in the list skipped (fde0027) -/
def loadAll (oid : Str → Nat) (e : Env) : Result :=
  loadDirG false oid Tie.beats cmpF (persFirstEnv e) (chooseDir (persFirstEnv e))

/-- ... with findings/C17-sameobj-tie.patch -/
def loadAllRename (oid : Str → Nat) (e : Env) : Result :=
  loadDirG true oid Tie.beats cmpF (persFirstEnv e) (chooseDir (persFirstEnv e))

/-! ### no object is ever registered twice (what F17-SAMEOBJ violated: two list entries shared one
    pdsh_module_info, and destroying one cleared type and name of the other) -/

theorem registerG_shape (beats : Beats) (pers : Nat) (mods : List Mod) (fname : Str) (d : Desc) :
    ∃ l : List Mod, l.Sublist mods ∧
      ((registerG beats pers mods fname d).1 = l ∨
       ∃ m : Mod, m.file = fname ∧ (registerG beats pers mods fname d).1 = m :: l) := by
  have hc := register_case beats pers mods fname d
  generalize registerG beats pers mods fname d = r at hc
  cases hc with
  | loaded _ => exact ⟨mods, List.Sublist.refl _, Or.inl rfl⟩
  | anon _ => exact ⟨mods, List.Sublist.refl _, Or.inl rfl⟩
  | fresh t n _ _ _ _ _ => exact ⟨mods, List.Sublist.refl _, Or.inr ⟨_, rfl, rfl⟩⟩
  | freshForeign t n _ _ _ _ _ => exact ⟨mods, List.Sublist.refl _, Or.inl rfl⟩
  | lower t n prev _ _ _ _ _ => exact ⟨mods, List.Sublist.refl _, Or.inl rfl⟩
  | replace t n prev _ _ _ _ _ _ => exact ⟨_, List.filter_sublist, Or.inr ⟨_, rfl, rfl⟩⟩
  | evict t n prev _ _ _ _ _ _ => exact ⟨_, List.filter_sublist, Or.inl rfl⟩

theorem skip_oids (rename : Bool) (oid : Str → Nat) (s : LoadSt) (fname : Str) :
    (skip rename oid s fname).mods.map (fun m => oid m.file) = s.mods.map (fun m => oid m.file) := by
  unfold skip
  cases rename with
  | false => rfl
  | true =>
    simp only [if_true, List.map_map]
    apply List.map_congr_left
    intro m _
    simp only [Function.comp]
    by_cases h : (oid m.file == oid fname && decide (strcmp fname m.file < 0)) = true
    · rw [if_pos h]
      simp only [Bool.and_eq_true, beq_iff_eq] at h
      exact h.1.symm
    · rw [if_neg h]

theorem loadObj_oids_nodup (rename : Bool) (oid : Str → Nat) (beats : Beats) (pers : Nat) (s : LoadSt)
    (fname : Str) (obj : Obj) (h : (s.mods.map (fun m => oid m.file)).Nodup) :
    ((loadObj rename oid beats pers s fname obj).mods.map (fun m => oid m.file)).Nodup := by
  have plain : ∀ o, (∀ d, o = Obj.mod d → s.mods.any (fun m => oid m.file == oid fname) = false) →
      ((loadObjG beats pers s fname o).mods.map (fun m => oid m.file)).Nodup := by
    intro o ho
    unfold loadObjG
    cases o with
    | noload => exact h
    | noinfo => exact h
    | mod d =>
      simp only
      obtain ⟨l, hsub, hr | ⟨m, hm, hr⟩⟩ := registerG_shape beats pers s.mods fname d
      · rw [hr]; exact (hsub.map _).nodup h
      · rw [hr]
        simp only [List.map_cons, List.nodup_cons]
        refine ⟨?_, (hsub.map _).nodup h⟩
        intro hin
        have hin' : oid m.file ∈ s.mods.map (fun m => oid m.file) := (hsub.map _).subset hin
        obtain ⟨m', hm', he⟩ := List.mem_map.mp hin'
        have := ho d rfl
        rw [List.any_eq_false] at this
        have := this m' hm'
        simp [he, hm] at this
  unfold loadObj
  cases obj with
  | noload => exact plain _ (fun d hd => by cases hd)
  | noinfo =>
    simp only
    split
    · rw [skip_oids]; exact h
    · exact plain _ (fun d hd => by cases hd)
  | mod d =>
    simp only
    by_cases ha : s.mods.any (fun m => oid m.file == oid fname) = true
    · rw [if_pos ha, skip_oids]; exact h
    · rw [if_neg ha]; exact plain _ (fun _ _ => by simpa using ha)

theorem foldl_oids_nodup (rename : Bool) (oid : Str → Nat) (beats : Beats) (uid owner pers : Nat)
    (files : List File) (s : LoadSt) (h : (s.mods.map (fun m => oid m.file)).Nodup) :
    ((files.foldl (loadFile rename oid beats uid owner pers) s).mods.map (fun m => oid m.file)).Nodup := by
  induction files generalizing s with
  | nil => exact h
  | cons f rest ih =>
    simp only [List.foldl_cons]
    apply ih
    unfold loadFile
    cases f.st with
    | none => exact h
    | some st =>
      simp only
      split
      · exact loadObj_oids_nodup rename oid beats pers s f.fname f.obj h
      · exact h

/-! ### names that denote distinct objects: the registration loop is that of Mod/Load.lean -/

theorem registerG_files (beats : Beats) (pers : Nat) (mods : List Mod) (fname : Str) (d : Desc) :
    ∀ m ∈ (registerG beats pers mods fname d).1, m ∈ mods ∨ m.file = fname := by
  obtain ⟨l, hsub, hr | ⟨m0, hm0, hr⟩⟩ := registerG_shape beats pers mods fname d
  · intro m hm; rw [hr] at hm; exact Or.inl (hsub.subset hm)
  · intro m hm
    rw [hr] at hm
    rcases List.mem_cons.mp hm with h | h
    · exact Or.inr (h ▸ hm0)
    · exact Or.inl (hsub.subset h)

theorem loadObjG_files (beats : Beats) (pers : Nat) (s : LoadSt) (fname : Str) (obj : Obj) :
    ∀ m ∈ (loadObjG beats pers s fname obj).mods, m ∈ s.mods ∨ m.file = fname := by
  unfold loadObjG
  cases obj with
  | noload => intro m hm; exact Or.inl hm
  | noinfo => intro m hm; exact Or.inl hm
  | mod d => exact registerG_files beats pers s.mods fname d

theorem loadObj_eq_of_inj (rename : Bool) (oid : Str → Nat) (beats : Beats) (pers : Nat) (s : LoadSt)
    (fname : Str) (obj : Obj) (hinj : ∀ m ∈ s.mods, oid m.file = oid fname → m.file = fname) :
    loadObj rename oid beats pers s fname obj = loadObjG beats pers s fname obj := by
  unfold loadObj
  cases obj with
  | noload => rfl
  | noinfo =>
    simp only
    split
    · next ha =>
      have hmods : (skip rename oid s fname).mods = s.mods := by
        unfold skip
        cases rename with
        | false => rfl
        | true =>
          simp only [if_true]
          conv => rhs; rw [← List.map_id s.mods]
          apply List.map_congr_left
          intro m hm
          by_cases h : (oid m.file == oid fname && decide (strcmp fname m.file < 0)) = true
          · simp only [Bool.and_eq_true, beq_iff_eq, decide_eq_true_eq] at h
            have := hinj m hm h.1
            rw [this] at h
            have := Tie.strcmp_self fname
            omega
          · rw [if_neg h]; rfl
      unfold skip at hmods ⊢
      unfold loadObjG
      simp only at hmods ⊢
      rw [hmods]
    · rfl
  | mod d =>
    simp only
    split
    · next ha =>
      have hl : s.mods.any (·.file == fname) = true := by
        rw [List.any_eq_true] at ha ⊢
        obtain ⟨m, hm, he⟩ := ha
        exact ⟨m, hm, by simpa using hinj m hm (by simpa using he)⟩
      have hmods : (skip rename oid s fname).mods = s.mods := by
        unfold skip
        cases rename with
        | false => rfl
        | true =>
          simp only [if_true]
          conv => rhs; rw [← List.map_id s.mods]
          apply List.map_congr_left
          intro m hm
          by_cases h : (oid m.file == oid fname && decide (strcmp fname m.file < 0)) = true
          · simp only [Bool.and_eq_true, beq_iff_eq, decide_eq_true_eq] at h
            have := hinj m hm h.1
            rw [this] at h
            have := Tie.strcmp_self fname
            omega
          · rw [if_neg h]; rfl
      unfold skip at hmods ⊢
      unfold loadObjG registerG
      simp only at hmods ⊢
      rw [hmods]
      simp [hl]
    · rfl

theorem foldl_eq_of_inj (rename : Bool) (oid : Str → Nat) (beats : Beats) (uid owner pers : Nat)
    (N : List Str) (hinj : ∀ a ∈ N, ∀ b ∈ N, oid a = oid b → a = b)
    (files : List File) (hsub : ∀ f ∈ files, f.fname ∈ N) (s : LoadSt) (hs : ∀ m ∈ s.mods, m.file ∈ N) :
    files.foldl (loadFile rename oid beats uid owner pers) s = files.foldl (loadFileG beats uid owner pers) s := by
  induction files generalizing s with
  | nil => rfl
  | cons f rest ih =>
    simp only [List.foldl_cons]
    have hf : f.fname ∈ N := hsub f (by simp)
    have hstep : loadFile rename oid beats uid owner pers s f = loadFileG beats uid owner pers s f := by
      unfold loadFile loadFileG
      cases f.st with
      | none => rfl
      | some st =>
        simp only
        split
        · exact loadObj_eq_of_inj rename oid beats pers s f.fname f.obj
            (fun m hm he => hinj _ (hs m hm) _ hf he)
        · rfl
    rw [hstep]
    apply ih (fun g hg => hsub g (by simp [hg]))
    intro m hm
    unfold loadFileG at hm
    cases hst : f.st with
    | none => rw [hst] at hm; exact hs m hm
    | some st =>
      rw [hst] at hm
      simp only at hm
      split at hm
      · rcases loadObjG_files beats pers s f.fname f.obj m hm with h | h
        · exact hs m h
        · rw [h]; exact hf
      · exact hs m hm

/-- when the names of the directory denote pairwise distinct objects the loader of fde0027 is the loader of
    Mod/Load.lean -- every theorem about `loadFilesG` speaks about it -/
theorem loadFiles_eq_of_distinct_objects (rename : Bool) (oid : Str → Nat) (beats : Beats) (uid owner pers : Nat)
    (files : List File) (hinj : ∀ f ∈ files, ∀ g ∈ files, oid f.fname = oid g.fname → f.fname = g.fname) :
    loadFiles rename oid beats uid owner pers files = loadFilesG beats uid owner pers files := by
  unfold loadFiles loadFilesG
  apply foldl_eq_of_inj rename oid beats uid owner pers (files.map (·.fname))
  · intro a ha b hb he
    obtain ⟨f, hf, rfl⟩ := List.mem_map.mp ha
    obtain ⟨g, hg, rfl⟩ := List.mem_map.mp hb
    exact hinj f hf g hg he
  · intro f hf; exact List.mem_map.mpr ⟨f, hf, rfl⟩
  · intro m hm; simp at hm

theorem loadDirG_eq_of_distinct_objects (rename : Bool) (oid : Str → Nat) (beats : Beats) (cmp : Mod → Mod → Int)
    (e : Env) (d : Dir)
    (hinj : ∀ f ∈ d.files, ∀ g ∈ d.files, oid f.fname = oid g.fname → f.fname = g.fname) :
    loadDirG rename oid beats cmp e d = Mod.loadDirG beats cmp e d := by
  unfold loadDirG Mod.loadDirG
  cases e.owner with
  | none => rfl
  | some owner =>
    simp only
    rw [loadFiles_eq_of_distinct_objects rename oid beats e.uid owner e.pers d.files hinj]

/-- the comparison function matters through list_sort only -/
theorem loadDirG_cmp (beats : Beats) (e : Env) (d : Dir) :
    Mod.loadDirG beats cmpF e d = Mod.loadDirG beats Tie.cmpF e d := by
  unfold Mod.loadDirG
  cases e.owner with
  | none => rfl
  | some owner =>
    simp only
    rw [listSort_eq]

end PdshVerif.Mod.Now
