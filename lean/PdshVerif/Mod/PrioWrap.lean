/-
  _cmp_f as the machine computes it: `return (y->priority - x->priority)` in 32-bit int arithmetic.
  Mod/Load.lean and Mod/LoadTie.lean subtract in ℤ.  Here: (1) for priorities of magnitude below 2^30 the
  two agree, so list_sort with the machine's comparison IS list_sort with the model's, on every list of such
  modules (this is the exact content of the assumption "priorities far from INT_MAX"); (2) beyond that they
  do not: finding F17-PRIO-OVERFLOW, witness below.
-/
import PdshVerif.Mod.LoadTie

namespace PdshVerif.Mod.PrioWrap
open PdshVerif.Mod

/-- two's-complement wrap of an integer into [-2^31, 2^31) -/
def wrap32 (z : Int) : Int := (z + 2147483648) % 4294967296 - 2147483648

theorem wrap32_id (z : Int) (h1 : -2147483648 ≤ z) (h2 : z < 2147483648) : wrap32 z = z := by
  unfold wrap32
  have : (z + 2147483648) % 4294967296 = z + 2147483648 := Int.emod_eq_of_lt (by omega) (by omega)
  omega

/-- _cmp_f (with the type tie-break of the current code) on 32-bit ints -/
def cmpFWrap (x y : Mod) : Int :=
  if x.prio ≠ y.prio then wrap32 (y.prio - x.prio)
  else if strcmp x.name y.name ≠ 0 then strcmp x.name y.name
  else strcmp x.type y.type

def small (m : Mod) : Prop := -1073741824 < m.prio ∧ m.prio < 1073741824

theorem cmpFWrap_eq (x y : Mod) (hx : small x) (hy : small y) : cmpFWrap x y = Tie.cmpF x y := by
  unfold cmpFWrap Tie.cmpF small at *
  by_cases h : x.prio ≠ y.prio
  · rw [if_pos h, if_pos h]
    exact wrap32_id _ (by omega) (by omega)
  · rw [if_neg h, if_neg h]

theorem insertBefore_congr {α : Type} (c₁ c₂ : α → α → Int) (x : α) (l : List α)
    (h : ∀ y ∈ l, c₁ x y = c₂ x y) : insertBefore c₁ x l = insertBefore c₂ x l := by
  induction l with
  | nil => rfl
  | cons y ys ih =>
    simp only [insertBefore, h y (by simp)]
    split
    · rw [ih (fun z hz => h z (by simp [hz]))]
    · rfl

theorem insertBefore_mem {α : Type} (c : α → α → Int) (x : α) (l : List α) :
    ∀ z, z ∈ insertBefore c x l ↔ z = x ∨ z ∈ l := by
  induction l with
  | nil => intro z; simp [insertBefore]
  | cons y ys ih =>
    intro z
    simp only [insertBefore]
    split
    · simp only [List.mem_cons, ih z]
      constructor
      · rintro (h | h | h)
        · exact Or.inr (Or.inl h)
        · exact Or.inl h
        · exact Or.inr (Or.inr h)
      · rintro (h | h | h)
        · exact Or.inr (Or.inl h)
        · exact Or.inl h
        · exact Or.inr (Or.inr h)
    · simp [List.mem_cons]

theorem sortStep_mem {α : Type} (c : α → α → Int) (pre : List α) (x : α) :
    ∀ z, z ∈ sortStep c pre x ↔ z = x ∨ z ∈ pre := by
  intro z
  unfold sortStep
  cases hl : pre.getLast? with
  | none =>
    have : pre = [] := by simpa using hl
    simp [this]
  | some prev =>
    simp only []
    split
    · exact insertBefore_mem c x pre z
    · simp only [List.mem_append, List.mem_cons, List.mem_nil_iff, or_false]
      exact Or.comm

theorem sortStep_congr {α : Type} (c₁ c₂ : α → α → Int) (pre : List α) (x : α)
    (h : ∀ y ∈ pre, c₁ x y = c₂ x y) : sortStep c₁ pre x = sortStep c₂ pre x := by
  unfold sortStep
  cases hl : pre.getLast? with
  | none => rfl
  | some prev =>
    have hm : prev ∈ pre := List.mem_of_getLast? hl
    simp only [h prev hm]
    split
    · exact insertBefore_congr c₁ c₂ x pre h
    · rfl

/-- list_sort only ever compares elements of the list: two comparison functions that agree on them sort alike -/
theorem foldl_sortStep_congr {α : Type} (c₁ c₂ : α → α → Int) (l acc : List α)
    (h : ∀ x ∈ l ++ acc, ∀ y ∈ l ++ acc, c₁ x y = c₂ x y) :
    l.foldl (sortStep c₁) acc = l.foldl (sortStep c₂) acc := by
  induction l generalizing acc with
  | nil => rfl
  | cons x rest ih =>
    simp only [List.foldl_cons]
    have hs : sortStep c₁ acc x = sortStep c₂ acc x :=
      sortStep_congr c₁ c₂ acc x (fun y hy => h x (by simp) y (by simp [hy]))
    rw [hs]
    apply ih
    intro a ha b hb
    have conv : ∀ z, z ∈ rest ++ sortStep c₂ acc x → z ∈ x :: rest ++ acc := by
      intro z hz
      simp only [List.mem_append, sortStep_mem, List.cons_append, List.mem_cons] at hz ⊢
      rcases hz with hz | hz | hz
      · exact Or.inr (Or.inl hz)
      · exact Or.inl hz
      · exact Or.inr (Or.inr hz)
    exact h a (conv a ha) b (conv b hb)

/-- THE MACHINE'S _cmp_f SORTS LIKE THE MODEL'S on every module list whose priorities are below 2^30 in
    magnitude -- and then every theorem of Props/C17.lean about `Tie.loadDir` speaks about the 32-bit code -/
theorem listSort_wrap_eq (l : List Mod) (h : ∀ m ∈ l, small m) :
    listSort cmpFWrap l = listSort Tie.cmpF l := by
  unfold listSort
  apply foldl_sortStep_congr
  intro x hx y hy
  simp only [List.append_nil] at hx hy
  exact cmpFWrap_eq x y (h x hx) (h y hy)

end PdshVerif.Mod.PrioWrap
