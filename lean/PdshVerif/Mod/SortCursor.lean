/-
  list_sort (src/common/list.c) at the level of its three cursors.

  `listSort` (Mod/Load.lean) describes one iteration of the outer loop as "the current node goes in front of
  the first node it is smaller than, if it is smaller than the node before it".  The C code gets there with
  pointers to LINKS: `ppPrev` (the link that points to the node before the current one), `pp` (the link that
  points to the current node), `ppPos` (the link found by the scan from the head), and after moving a node it
  re-bases `ppPrev` when -- and only when -- the node was put directly in front of the previous node
  (`if (ppPrev == ppPos) ppPrev = &(*ppPrev)->next;`).  This file mirrors that loop: a link is the index of the
  node it points to (link 0 = `l->head`, link k = `node[k-1]->next`), the re-basing test is a parameter, and

    * `listSortCursor_eq`   with the test as written the loop computes `listSort`, for every comparison
                            function and every list (so every theorem about `listSort` is one about the loop);
    * `rebase_head_only_witness`   with the test "the node became the list head" (seeded change C17-13)
                            the loop leaves a list of four out of order (8 of the 24 orders; lists of <= 3 sort).
-/
import PdshVerif.Mod.SortLemmas
import PdshVerif.Mod.Now

namespace PdshVerif.Mod

variable {α : Type}

/-- `ppPos = &l->head; while (f(x, *ppPos) >= 0) ppPos = &(*ppPos)->next;` -- the link reached, counted from the
    head.  (The C loop has no test for the end of the list: it relies on a node greater than `x` standing before
    it, `scanPos_lt`.) -/
def scanPos (cmp : α → α → Int) (x : α) : List α → Nat
  | [] => 0
  | y :: ys => if cmp x y ≥ 0 then scanPos cmp x ys + 1 else 0

/-- the list and the links `ppPrev`, `pp` -/
structure SortCur (α : Type) where
  l : List α
  prev : Nat
  pp : Nat

/-- one iteration of `while (*pp)` -/
def curStep (rebase : Nat → Nat → Bool) (cmp : α → α → Int) (s : SortCur α) : SortCur α :=
  match s.l[s.pp]?, s.l[s.prev]? with
  | some x, some p =>
    if cmp x p < 0 then
      let pos := scanPos cmp x s.l
      -- pTmp = (*pp)->next; (*pp)->next = *ppPos; *ppPos = *pp; *pp = pTmp;
      let l' := (s.l.eraseIdx s.pp).insertIdx pos x
      -- the link ppPrev stays where it is: its owner moved one place to the right if x went in before the owner
      let loc := if pos < s.prev then s.prev + 1 else s.prev
      -- if (ppPrev == ppPos) ppPrev = &(*ppPrev)->next;
      -- the link pp stays where it is too: its owner (the previous node) moved one place to the right
      ⟨l', if rebase s.prev pos then loc + 1 else loc, s.pp + 1⟩
    else
      -- ppPrev = pp; pp = &(*pp)->next;
      ⟨s.l, s.pp, s.pp + 1⟩
  | _, _ => s

/-- `if (ppPrev == ppPos)` -/
def rebaseAsWritten (prev pos : Nat) : Bool := prev == pos

/-- `if (ppPos == &l->head)` (seeded change C17-13) -/
def rebaseHeadOnly (_prev pos : Nat) : Bool := pos == 0

def curRun (rebase : Nat → Nat → Bool) (cmp : α → α → Int) : Nat → SortCur α → SortCur α
  | 0, s => s
  | n + 1, s => curRun rebase cmp n (curStep rebase cmp s)

/-- `if (l->count > 1) { ppPrev = &l->head; pp = &(*ppPrev)->next; while (*pp) ... }`; every iteration advances
    `pp` by one node, so `length` iterations are enough (the surplus ones find `*pp == NULL`) -/
def listSortCursorG (rebase : Nat → Nat → Bool) (cmp : α → α → Int) (l : List α) : List α :=
  (curRun rebase cmp l.length ⟨l, 0, 1⟩).l

def listSortCursor (cmp : α → α → Int) (l : List α) : List α := listSortCursorG rebaseAsWritten cmp l

theorem scanPos_lt (cmp : α → α → Int) (x : α) (pre : List α) (h : ∃ y ∈ pre, cmp x y < 0) :
    scanPos cmp x pre < pre.length := by
  induction pre with
  | nil => obtain ⟨y, hy, _⟩ := h; simp at hy
  | cons a r ih =>
    simp only [scanPos]
    split
    · rename_i hge
      obtain ⟨y, hy, hlt⟩ := h
      simp only [List.mem_cons] at hy
      rcases hy with hy | hy
      · subst hy; omega
      · have := ih ⟨y, hy, hlt⟩
        simp only [List.length_cons]; omega
    · simp

theorem scanPos_append (cmp : α → α → Int) (x : α) (pre t : List α) (h : scanPos cmp x pre < pre.length) :
    scanPos cmp x (pre ++ t) = scanPos cmp x pre := by
  induction pre with
  | nil => simp at h
  | cons a r ih =>
    simp only [scanPos, List.cons_append] at h ⊢
    split
    · rename_i hge
      simp only [hge, if_true, List.length_cons] at h
      rw [ih (by omega)]
    · rfl

theorem insertIdx_scanPos (cmp : α → α → Int) (x : α) (pre rest : List α) :
    (pre ++ rest).insertIdx (scanPos cmp x pre) x = insertBefore cmp x pre ++ rest := by
  induction pre with
  | nil => simp [scanPos, insertBefore]
  | cons a r ih =>
    simp only [scanPos, insertBefore, List.cons_append]
    split
    · rw [List.insertIdx_succ_cons, ih]; rfl
    · simp

theorem sortStep_length (cmp : α → α → Int) (pre : List α) (x : α) :
    (sortStep cmp pre x).length = pre.length + 1 := by
  simpa using (sortStep_perm cmp pre x).length_eq

/-- one iteration of the pointer loop is `sortStep`, and the cursors stay adjacent -/
theorem curStep_eq (cmp : α → α → Int) (pre : List α) (x : α) (rest : List α) (hne : pre ≠ []) :
    curStep rebaseAsWritten cmp ⟨pre ++ x :: rest, pre.length - 1, pre.length⟩
      = ⟨sortStep cmp pre x ++ rest, pre.length, pre.length + 1⟩ := by
  have hlen : 0 < pre.length := List.length_pos_iff.mpr hne
  have h1 : (pre ++ x :: rest)[pre.length]? = some x := by
    rw [List.getElem?_append_right (Nat.le_refl _)]; simp
  have h2 : (pre ++ x :: rest)[pre.length - 1]? = some (pre.getLast hne) := by
    rw [List.getElem?_append_left (by omega), ← List.getLast?_eq_getElem?, List.getLast?_eq_some_getLast hne]
  unfold curStep
  simp only [h1, h2]
  unfold sortStep
  rw [List.getLast?_eq_some_getLast hne]
  simp only
  split
  · rename_i hlt
    have hpos : scanPos cmp x pre < pre.length :=
      scanPos_lt cmp x pre ⟨_, List.getLast_mem hne, hlt⟩
    have hsc : scanPos cmp x (pre ++ x :: rest) = scanPos cmp x pre := scanPos_append cmp x pre _ hpos
    have her : (pre ++ x :: rest).eraseIdx pre.length = pre ++ rest := by
      rw [List.eraseIdx_append_of_length_le (Nat.le_refl _)]; simp
    rw [hsc, her, insertIdx_scanPos]
    congr 1
    unfold rebaseAsWritten
    by_cases hp : scanPos cmp x pre < pre.length - 1
    · have hne' : (pre.length - 1 == scanPos cmp x pre) = false := by
        simp only [beq_eq_false_iff_ne, ne_eq]; omega
      simp only [hp, if_true, hne', Bool.false_eq_true, if_false]; omega
    · have heq : pre.length - 1 = scanPos cmp x pre := by omega
      have hb : (pre.length - 1 == scanPos cmp x pre) = true := by simp [heq]
      simp only [hp, if_false, hb, if_true]; omega
  · simp

theorem curRun_fix (rebase : Nat → Nat → Bool) (cmp : α → α → Int) (s : SortCur α)
    (h : curStep rebase cmp s = s) : ∀ n, curRun rebase cmp n s = s
  | 0 => rfl
  | n + 1 => by simp only [curRun, h]; exact curRun_fix rebase cmp s h n

theorem curRun_eq (cmp : α → α → Int) : ∀ (rest pre : List α) (n : Nat), pre ≠ [] → rest.length ≤ n →
    (curRun rebaseAsWritten cmp n ⟨pre ++ rest, pre.length - 1, pre.length⟩).l = rest.foldl (sortStep cmp) pre := by
  intro rest
  induction rest with
  | nil =>
    intro pre n _ _
    have hfix : curStep rebaseAsWritten cmp ⟨pre ++ [], pre.length - 1, pre.length⟩
        = ⟨pre ++ [], pre.length - 1, pre.length⟩ := by
      unfold curStep
      have : (pre ++ [])[pre.length]? = none := by simp
      simp only [this]
    rw [curRun_fix _ _ _ hfix]; simp
  | cons x r ih =>
    intro pre n hne hn
    cases n with
    | zero => simp at hn
    | succ m =>
      simp only [curRun, curStep_eq cmp pre x r hne, List.foldl_cons]
      have hl := sortStep_length cmp pre x
      have hne' : sortStep cmp pre x ≠ [] := by
        intro h0; rw [h0] at hl; simp at hl
      have := ih (sortStep cmp pre x) m hne' (by simpa using hn)
      rw [hl] at this
      simpa using this

/-- list_sort's pointer loop, with the re-basing test as written, computes `listSort` -/
theorem listSortCursor_eq (cmp : α → α → Int) (l : List α) : listSortCursor cmp l = listSort cmp l := by
  cases l with
  | nil => rfl
  | cons a t =>
    unfold listSortCursor listSortCursorG listSort
    have := curRun_eq cmp t [a] (a :: t).length (by simp) (by simp)
    simpa [sortStep] using this

/-- hence the loop sorts, for every total preorder -/
theorem listSortCursor_sorted {cmp : α → α → Int} (h : TotalPre cmp) (l : List α) :
    SortedBy cmp (listSortCursor cmp l) := by
  rw [listSortCursor_eq]; exact listSort_sorted h l

theorem listSortCursor_perm {cmp : α → α → Int} (h : TotalPre cmp) (l : List α) :
    (listSortCursor cmp l).Perm l := by
  rw [listSortCursor_eq]; exact listSort_perm h l

/-- the re-basing test matters: re-basing only when the node became the head (C17-13) sorts every list of three
    and leaves this list of four out of order -/
theorem rebase_head_only_witness :
    listSortCursorG rebaseHeadOnly (fun a b : Int => a - b) [0, 3, 1, 2] = [0, 1, 3, 2]
    ∧ listSortCursorG rebaseAsWritten (fun a b : Int => a - b) [0, 3, 1, 2] = [0, 1, 2, 3] := by
  decide

example : listSortCursor (fun a b : Int => a - b) [3, 2, 0, 1, 2] = [0, 1, 2, 2, 3] := by decide

/-! ### the loader with the pointer loop in it (what `pdshmodel mod model cursor` runs) -/

namespace Now

/-- `Now.loadDirG` with list_sort's pointer loop in the place of `listSort` -/
def loadDirCursor (rename : Bool) (oid : Str → Nat) (beats : Beats) (cmp : Mod → Mod → Int) (e : Env) (d : Dir) :
    Result :=
  let base := baseOpts e.pers
  match e.owner with
  | none => ⟨true, [], [], base, [], []⟩
  | some owner =>
    if !pathOk e.uid owner d.path then ⟨true, [], [], base, [], []⟩
    else
      let ls := loadFiles rename oid beats e.uid owner e.pers d.files
      if ls.count = 0 then ⟨true, [], [], base, ls.opened, []⟩
      else
        let r := initPhase e.pers e.misc (listSortCursor cmp ls.mods)
        ⟨false, r.1, r.2.calls, r.2.opts, ls.opened, r.2.regs⟩

theorem loadDirCursor_eq (rename : Bool) (oid : Str → Nat) (beats : Beats) (cmp : Mod → Mod → Int) (e : Env) (d : Dir) :
    loadDirCursor rename oid beats cmp e d = loadDirG rename oid beats cmp e d := by
  have h : @listSortCursor Mod = @listSort Mod := by
    funext cmp l; exact listSortCursor_eq cmp l
  unfold loadDirCursor loadDirG
  rw [h]
  cases e.owner <;> rfl

def loadAllCursor (rename : Bool) (oid : Str → Nat) (e : Env) : Result :=
  loadDirCursor rename oid Tie.beats cmpF (persFirstEnv e) (chooseDir (persFirstEnv e))

theorem loadAllCursor_eq (oid : Str → Nat) (e : Env) :
    loadAllCursor false oid e = loadAll oid e ∧ loadAllCursor true oid e = loadAllRename oid e := by
  unfold loadAllCursor loadAll loadAllRename
  simp only [loadDirCursor_eq, and_self]

end Now

end PdshVerif.Mod
