/-
  The proposed repair of F17-TIE (Mod/LoadTie.lean, findings/C17.patch): its replacement rule is a
  strict partial order that is total on different file names, its comparison function is a total
  preorder whose ties are exactly "same priority, name and type".  Hence `DistinctG` follows from
  distinct file names alone.
-/
import PdshVerif.Mod.Determinism
import PdshVerif.Mod.LoadTie

namespace PdshVerif.Mod.Tie
open PdshVerif.Mod

theorem strcmp_self (a : Str) : strcmp a a = 0 := by
  have := strcmp_swap a a
  omega

theorem strcmp_lt_trans (a b c : Str) (h1 : strcmp a b < 0) (h2 : strcmp b c < 0) : strcmp a c < 0 := by
  have hle := strcmp_trans a b c (by omega) (by omega)
  by_cases h0 : strcmp a c = 0
  · have := strcmp_eq_zero a c h0
    subst this
    have := strcmp_swap a b
    omega
  · omega

theorem rel_iff (a b : Mod) :
    Beats.rel beats a b ↔ a.prio > b.prio ∨ (a.prio = b.prio ∧ strcmp a.file b.file < 0) := by
  simp [Beats.rel, beats]

theorem beats_ord : BeatsOrd beats := by
  refine ⟨?_, ?_⟩
  · intro a h
    rw [rel_iff] at h
    rcases h with h | h
    · omega
    · have := strcmp_self a.file; omega
  · intro a b c h1 h2
    rw [rel_iff] at h1 h2 ⊢
    rcases h1 with h1 | ⟨e1, s1⟩ <;> rcases h2 with h2 | ⟨e2, s2⟩
    · left; omega
    · left; omega
    · left; omega
    · right; exact ⟨e1.trans e2, strcmp_lt_trans _ _ _ s1 s2⟩

/-- `cmpF x y ≤ 0` spelled out: lexicographic on (priority descending, name, type) -/
def le3 (a b : Mod) : Prop :=
  a.prio > b.prio ∨ (a.prio = b.prio ∧
    (strcmp a.name b.name < 0 ∨ (strcmp a.name b.name = 0 ∧ strcmp a.type b.type ≤ 0)))

theorem cmpF_le_iff (a b : Mod) : cmpF a b ≤ 0 ↔ le3 a b := by
  unfold cmpF le3
  by_cases hp : a.prio = b.prio
  · rw [if_neg (by simpa using hp)]
    by_cases hn : strcmp a.name b.name = 0
    · rw [if_neg (by simpa using hn)]
      constructor
      · intro h; exact Or.inr ⟨hp, Or.inr ⟨hn, h⟩⟩
      · rintro (h | ⟨_, h | ⟨_, h⟩⟩)
        · omega
        · omega
        · exact h
    · rw [if_pos hn]
      constructor
      · intro h; exact Or.inr ⟨hp, Or.inl (by omega)⟩
      · rintro (h | ⟨_, h | ⟨h, _⟩⟩)
        · omega
        · omega
        · exact absurd h hn
  · rw [if_pos hp]
    constructor
    · intro h; left; omega
    · rintro (h | ⟨h, _⟩)
      · omega
      · exact absurd h hp

theorem cmpF_swap (a b : Mod) : cmpF b a = - cmpF a b := by
  unfold cmpF
  by_cases hp : a.prio = b.prio
  · have e1 : ¬ (a.prio ≠ b.prio) := by simpa using hp
    have e2 : ¬ (b.prio ≠ a.prio) := by simpa using hp.symm
    simp only [if_neg e1, if_neg e2]
    rw [strcmp_swap a.name b.name, strcmp_swap a.type b.type]
    by_cases hn : strcmp a.name b.name = 0
    · have f1 : ¬ (strcmp a.name b.name ≠ 0) := by simpa using hn
      have f2 : ¬ (-strcmp a.name b.name ≠ 0) := by omega
      simp only [if_neg f1, if_neg f2]
    · have f2 : -strcmp a.name b.name ≠ 0 := by omega
      simp only [if_pos hn, if_pos f2]
  · have e2 : b.prio ≠ a.prio := fun h => hp h.symm
    simp only [if_pos hp, if_pos e2]
    omega

theorem cmpF_totalPre : TotalPre cmpF := by
  refine ⟨?_, ?_, ?_⟩
  · intro a b h; rw [cmpF_swap]; omega
  · intro a b h; rw [cmpF_swap]; omega
  · intro a b c h1 h2
    rw [cmpF_le_iff] at h1 h2 ⊢
    unfold le3 at h1 h2 ⊢
    rcases h1 with h1 | ⟨e1, n1⟩
    · rcases h2 with h2 | ⟨e2, _⟩
      · left; omega
      · left; omega
    · rcases h2 with h2 | ⟨e2, n2⟩
      · left; omega
      · right
        refine ⟨e1.trans e2, ?_⟩
        rcases n1 with n1 | ⟨n1, t1⟩
        · rcases n2 with n2 | ⟨n2, _⟩
          · exact Or.inl (strcmp_lt_trans _ _ _ n1 n2)
          · have := strcmp_eq_zero _ _ n2
            rw [← this]; exact Or.inl n1
        · have hab := strcmp_eq_zero _ _ n1
          rcases n2 with n2 | ⟨n2, t2⟩
          · rw [hab]; exact Or.inl n2
          · rw [hab]
            exact Or.inr ⟨n2, strcmp_trans _ _ _ t1 t2⟩

theorem cmpF_eq_zero (a b : Mod) (h : cmpF a b = 0) : a.key = b.key := by
  unfold cmpF at h
  by_cases hp : a.prio = b.prio
  · rw [if_neg (by simpa using hp)] at h
    by_cases hn : strcmp a.name b.name = 0
    · rw [if_neg (by simpa using hn)] at h
      have h1 := strcmp_eq_zero _ _ hn
      have h2 := strcmp_eq_zero _ _ h
      simp [Mod.key, h1, h2]
    · rw [if_pos hn] at h; exact absurd h hn
  · rw [if_pos hp] at h; omega

/-- with the repaired rules distinct file names suffice -/
theorem distinctG_of_regHyp {uid owner pers : Nat} {files : List File} (h : RegHyp uid owner pers files) :
    DistinctG beats cmpF uid owner pers files := by
  refine ⟨h, ?_, ?_⟩
  · intro f hf g hg c c' hc hc' _ h1 h2
    rw [rel_iff] at h1 h2
    have hp : c.prio = c'.prio := by omega
    have hs : strcmp c.file c'.file = 0 := by
      have := strcmp_swap c.file c'.file
      have a1 : ¬ strcmp c.file c'.file < 0 := fun x => h1 (Or.inr ⟨hp, x⟩)
      have a2 : ¬ strcmp c'.file c.file < 0 := fun x => h2 (Or.inr ⟨hp.symm, x⟩)
      omega
    have hfile := strcmp_eq_zero _ _ hs
    have hfg : f.fname = g.fname := by
      rw [← (cand_file hc).1, ← (cand_file hc').1]; exact hfile
    have : f = g := eq_of_nodup_map (·.fname) h.names f hf g hg hfg
    subst this
    rw [hc] at hc'; simpa using hc'
  · intro f hf g hg c c' _ _ h0
    exact Or.inl (cmpF_eq_zero c c' h0)

end PdshVerif.Mod.Tie
