/-
  list_split (",") as modelled by `splitNames` (bracket aware, fuel) equals the plain comma split of
  the specification on strings without brackets.
-/
import PdshVerif.Mod.Spec

namespace PdshVerif.Mod
open PdshVerif.Mod.Spec

def NoBrackets (s : Str) : Prop := ∀ c ∈ s, c ≠ '[' ∧ c ≠ ']'

theorem takeTok_plain : ∀ (s : Str), NoBrackets s →
    takeTok s 0 = (s.takeWhile (· != ','), s.dropWhile (· != ',')) := by
  intro s
  induction s with
  | nil => intro _; rfl
  | cons c rest ih =>
    intro hnb
    have hc := hnb c (by simp)
    have hrest : NoBrackets rest := fun x hx => hnb x (by simp [hx])
    simp only [takeTok]
    by_cases hcomma : c = ','
    · subst hcomma; simp
    · have h1 : ¬ ((0 : Int) = 0 ∧ c = ',') := fun h => hcomma h.2
      simp only [h1, if_false, hc.1, hc.2, ih hrest]
      have : (c != ',') = true := by simpa using hcomma
      simp [List.takeWhile_cons, List.dropWhile_cons, this, hcomma]

theorem goC_eq : ∀ (s cur : Str),
    splitComma.go s cur =
      (cur.reverse ++ s.takeWhile (· != ',')) ::
        (match s.dropWhile (· != ',') with
         | [] => []
         | _ :: r => splitComma.go r []) := by
  intro s
  induction s with
  | nil => intro cur; simp [splitComma.go]
  | cons c rest ih =>
    intro cur
    by_cases hcomma : c = ','
    · subst hcomma; simp [splitComma.go]
    · have : (c != ',') = true := by simpa using hcomma
      simp only [splitComma.go, hcomma, if_false, ih (c :: cur), List.takeWhile_cons, List.dropWhile_cons, this,
        if_true, List.reverse_cons, List.append_assoc, List.singleton_append]

theorem filter_goC_dropWhile : ∀ (s : Str),
    (splitComma.go s []).filter (· ≠ []) = (splitComma.go (s.dropWhile (· == ',')) []).filter (· ≠ []) := by
  intro s
  induction s with
  | nil => rfl
  | cons c rest ih =>
    by_cases hcomma : c = ','
    · subst hcomma
      simp only [splitComma.go, if_true, List.reverse_nil, List.dropWhile_cons, beq_self_eq_true]
      rw [← ih]
      simp
    · have : (c == ',') = false := by simpa using hcomma
      simp [List.dropWhile_cons, this]

theorem dropWhile_head (p : Char → Bool) : ∀ (s : Str) (c : Char) (rest : Str),
    s.dropWhile p = c :: rest → p c = false := by
  intro s
  induction s with
  | nil => intro c rest h; simp at h
  | cons x r ih =>
    intro c rest h
    simp only [List.dropWhile_cons] at h
    by_cases hx : p x = true
    · simp only [hx, if_true] at h; exact ih c rest h
    · simp only [hx, Bool.false_eq_true, if_false, List.cons.injEq] at h
      rw [← h.1]; simpa using hx

theorem dropWhile_length_le (p : Char → Bool) (s : Str) : (s.dropWhile p).length ≤ s.length := by
  induction s with
  | nil => simp
  | cons c r ih => simp only [List.dropWhile_cons]; split <;> simp <;> omega

theorem noBrackets_dropWhile (p : Char → Bool) (s : Str) (h : NoBrackets s) : NoBrackets (s.dropWhile p) :=
  fun c hc => h c ((List.dropWhile_sublist p).subset hc)

theorem go_eq : ∀ (fuel : Nat) (s : Str), NoBrackets s → s.length < fuel →
    splitNames.go s fuel = (splitComma.go s []).filter (· ≠ []) := by
  intro fuel
  induction fuel with
  | zero => intro s _ h; omega
  | succ k ih =>
    intro s hnb hlen
    rw [filter_goC_dropWhile]
    simp only [splitNames.go]
    have hnb' := noBrackets_dropWhile (· == ',') s hnb
    have hlen' := dropWhile_length_le (· == ',') s
    cases hs' : s.dropWhile (· == ',') with
    | nil => simp [splitComma.go]
    | cons c rest =>
      rw [hs'] at hnb' hlen'
      -- the first character of the token is not a comma
      have hc : c ≠ ',' := by
        have := dropWhile_head (· == ',') s c rest hs'
        simpa using this
      have hcb : (c != ',') = true := by simpa using hc
      simp only [takeTok_plain (c :: rest) hnb']
      rw [goC_eq (c :: rest) []]
      simp only [List.reverse_nil, List.nil_append]
      have hne : (c :: rest).takeWhile (· != ',') ≠ [] := by simp [List.takeWhile_cons, hcb]
      rw [List.filter_cons_of_pos (by simpa using hne)]
      congr 1
      -- the rest: either nothing or a comma and more
      have hsub : ((c :: rest).dropWhile (· != ',')).length ≤ rest.length := by
        simp only [List.dropWhile_cons, hcb, if_true]
        exact dropWhile_length_le _ rest
      have hnbr := noBrackets_dropWhile (· != ',') (c :: rest) hnb'
      cases hr : (c :: rest).dropWhile (· != ',') with
      | nil =>
        cases k with
        | zero => rfl
        | succ k' => simp [splitNames.go]
      | cons x r2 =>
        rw [hr] at hsub hnbr
        have hx : x = ',' := by
          have := dropWhile_head (· != ',') (c :: rest) x r2 hr
          simpa using this
        subst hx
        rw [ih _ hnbr (by simp only [List.length_cons] at hsub hlen' hlen ⊢; omega)]
        simp [splitComma.go]

/-- on -M lists without brackets the model's list_split is the specification's comma split -/
theorem splitNames_eq_splitComma (s : Str) (h : NoBrackets s) : splitNames s = splitComma s := by
  unfold splitNames splitComma
  exact go_eq _ s h (by omega)

end PdshVerif.Mod
