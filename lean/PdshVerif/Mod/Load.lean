/-
  Model of pdsh's module loading (property C17):
    src/pdsh/main.c    choice of the module directory (root / set-uid runs ignore PDSH_MODULE_DIR)
    src/pdsh/mod.c     _pdsh_owner, _path_permissions_ok, _dir_permission_error,
                       _mod_load_dynamic_modules (per-file tests), _mod_load_dynamic, _mod_register,
                       _mod_delete, _cmp_f, mod_load_modules, _mod_initialize_modules_by_name,
                       _mod_initialize, _mod_init_list_safe, mod_process_opt
    src/common/list.c  list_sort (the algorithm as written), list_prepend, list_find_first
    src/common/split.c list_split (_next_tok, bracket aware)
    src/pdsh/opt.c     _init_pdsh_options, opt_register

  External (parameters): the file system (stat results for the files and for every ancestor of the
  directory, in the order readdir returns the entries) and the dynamic loader (what dlopen + dlsym
  yield for a file: nothing, an object without pdsh_module_info, or a module descriptor).
  Not modelled: MAXPATHLEN overflow of the ancestor walk, int overflow in `_cmp_f`'s subtraction
  (priorities are assumed to stay far from INT_MAX), opendir failing after the path check passed.
-/
import PdshVerif.Gen.Modopt

namespace PdshVerif.Mod

abbrev Str := List Char

structure OptRow where
  c      : Char
  hasArg : Bool          -- arginfo != NULL
  pers   : Nat           -- personality mask of the row
  deriving Repr, DecidableEq, Inhabited

/-- what dlsym finds in a loadable object -/
structure Desc where
  type : Option Str                 -- `none`: NULL pointer
  name : Option Str
  prio : Int                        -- *pdsh_module_priority, DEFAULT_MODULE_PRIORITY without the symbol
  pers : Nat
  opts : Option (List OptRow)       -- `none`: opt_table == NULL
  init : Option Bool                -- `none`: no init function; `some ok`: init returns >= 0 iff ok
  deriving Repr, DecidableEq, Inhabited

inductive Obj where
  | noload                          -- dlopen fails
  | noinfo                          -- no pdsh_module_info symbol
  | mod (d : Desc)
  deriving Repr, DecidableEq, Inhabited

structure FStat where
  uid  : Nat
  mode : Nat                        -- st_mode, type bits included
  deriving Repr, DecidableEq, Inhabited

structure File where
  fname : Str
  st    : Option FStat              -- `none`: stat fails
  obj   : Obj
  deriving Repr, DecidableEq, Inhabited

structure Dir where
  path  : List (Option FStat)       -- stat of dir, dir/.., ... up to and including "/"
  files : List File                 -- in enumeration order
  deriving Repr, Inhabited

structure Env where
  uid       : Nat
  euid      : Nat
  envDir    : Option Dir            -- PDSH_MODULE_DIR, if set
  builtin   : Dir                   -- pdsh_module_dir
  owner     : Option Nat            -- st_uid of the pdsh binary (`none`: stat fails)
  pers      : Nat                   -- DSH or PCP
  misc      : Option Str            -- -M argument, else PDSH_MISC_MODULES
  deriving Repr, Inhabited

def S_IWOTH : Nat := Gen.MO_S_IWOTH
def S_ISVTX : Nat := Gen.MO_S_ISVTX
def isReg (mode : Nat) : Bool := mode &&& Gen.MO_S_IFMT == Gen.MO_S_IFREG
def isDir (mode : Nat) : Bool := mode &&& Gen.MO_S_IFMT == Gen.MO_S_IFDIR

/-- main.c: PDSH_MODULE_DIR is honoured only for a non-root, non-set-uid run -/
def chooseDir (e : Env) : Dir :=
  match e.envDir with
  | none => e.builtin
  | some d => if e.uid = 0 ∨ e.uid ≠ e.euid then e.builtin else d

/-- st_uid is root, the caller or the owner of the pdsh binary -/
def ownerOk (uid owner : Nat) (st : FStat) : Bool :=
  st.uid == 0 || st.uid == uid || st.uid == owner

/-- _dir_permission_error == DIR_OK -/
def dirOk (uid owner : Nat) (st : FStat) : Bool :=
  isDir st.mode && ownerOk uid owner st && !(st.mode &&& S_IWOTH != 0 && st.mode &&& S_ISVTX == 0)

/-- _path_permissions_ok: every directory from `dir` up to "/" can be stat'ed and is DIR_OK -/
def pathOk (uid owner : Nat) : List (Option FStat) → Bool
  | [] => true
  | none :: _ => false
  | some st :: rest => dirOk uid owner st && pathOk uid owner rest

/-- the per-file tests of _mod_load_dynamic_modules that precede dlopen -/
def fileOk (uid owner : Nat) (st : FStat) : Bool :=
  isReg st.mode && ownerOk uid owner st && st.mode &&& S_IWOTH == 0

/-- a registered module (type and name are non-NULL once registered) -/
structure Mod where
  file   : Str
  type   : Str
  name   : Str
  prio   : Int
  d      : Desc
  active : Bool                     -- `initialized`
  deriving Repr, DecidableEq, Inhabited

def sameKey (t n : Str) (m : Mod) : Bool := m.type == t && m.name == n

structure LoadSt where
  mods   : List Mod                 -- module_list, head = last prepended
  opened : List Str                 -- dlopen calls, in order
  count  : Nat
  deriving Repr, Inhabited

/-- _mod_register (after _is_loaded): the new module list and whether the module was loaded.
    An existing module with the same type and name is deleted iff the new priority is higher;
    only after that the personality is looked at. -/
def register (pers : Nat) (mods : List Mod) (fname : Str) (d : Desc) : List Mod × Bool :=
  if mods.any (·.file == fname) then (mods, false)               -- _is_loaded
  else
    match d.type, d.name with
    | some t, some n =>
      match mods.find? (sameKey t n) with
      | some prev =>
        if d.prio > prev.prio then
          let mods' := mods.filter (!sameKey t n ·)               -- _mod_delete
          if d.pers &&& pers = 0 then (mods', false)
          else (⟨fname, t, n, d.prio, d, false⟩ :: mods', true)   -- list_prepend
        else (mods, false)
      | none =>
        if d.pers &&& pers = 0 then (mods, false)
        else (⟨fname, t, n, d.prio, d, false⟩ :: mods, true)
    | _, _ => (mods, false)

/-- _mod_load_dynamic for one object that passed the security tests -/
def loadObj (pers : Nat) (s : LoadSt) (fname : Str) (obj : Obj) : LoadSt :=
  match obj with
  | .mod d =>
    let r := register pers s.mods fname d
    ⟨r.1, s.opened ++ [fname], if r.2 then s.count + 1 else s.count⟩
  | _ => ⟨s.mods, s.opened ++ [fname], s.count⟩

def loadFile (uid owner pers : Nat) (s : LoadSt) (f : File) : LoadSt :=
  match f.st with
  | none => s
  | some st => if fileOk uid owner st then loadObj pers s f.fname f.obj else s

def loadFiles (uid owner pers : Nat) (files : List File) : LoadSt :=
  files.foldl (loadFile uid owner pers) ⟨[], [], 0⟩

/-! ### list_sort with _cmp_f -/

/-- sign of strcmp: bytes compared as unsigned chars -/
def strcmp : Str → Str → Int
  | [], [] => 0
  | [], _ :: _ => -1
  | _ :: _, [] => 1
  | a :: as, b :: bs => if a.toNat < b.toNat then -1 else if a.toNat > b.toNat then 1 else strcmp as bs

/-- _cmp_f: higher priority first, then by name -/
def cmpF (x y : Mod) : Int :=
  if x.prio = y.prio then strcmp x.name y.name else y.prio - x.prio

/-- the inner `while (f(cur, pos) >= 0) pos = next` followed by the relinking: `x` goes in front of
    the first element it is smaller than -/
def insertBefore (cmp : α → α → Int) (x : α) : List α → List α
  | [] => [x]
  | y :: ys => if cmp x y ≥ 0 then y :: insertBefore cmp x ys else x :: y :: ys

/-- one iteration of list_sort's outer loop: `pre` is the part before the current node, whose last
    element is *ppPrev; the current node moves only if it is smaller than that element -/
def sortStep (cmp : α → α → Int) (pre : List α) (x : α) : List α :=
  match pre.getLast? with
  | none => [x]
  | some prev => if cmp x prev < 0 then insertBefore cmp x pre else pre ++ [x]

def listSort (cmp : α → α → Int) (l : List α) : List α := l.foldl (sortStep cmp) []

/-! ### opt_register -/

def baseOpts (pers : Nat) : Str :=
  Gen.MO_GEN_ARGS.toList ++ (if pers = Gen.MO_PERS_DSH then Gen.MO_DSH_ARGS.toList else Gen.MO_PCP_ARGS.toList)

/-- characters appended for the rows that apply to this personality -/
def rowChars (pers : Nat) (rows : List OptRow) : Str :=
  rows.flatMap fun r => if r.pers &&& pers ≠ 0 then (if r.hasArg then [r.c, ':'] else [r.c]) else []

/-- first loop of opt_register: some applicable row's character already occurs in the string -/
def rowsClash (pers : Nat) (opts : Str) (rows : List OptRow) : Bool :=
  rows.any fun r => r.pers &&& pers ≠ 0 && opts.contains r.c

/-- `none` = refused (nothing registered), else the characters appended to the option string -/
def optRegister (pers : Nat) (opts : Str) (table : Option (List OptRow)) : Option Str :=
  match table with
  | none => some []
  | some rows => if rowsClash pers opts rows then none else some (rowChars pers rows)

structure InitSt where
  opts  : Str                       -- pdsh_options
  calls : List Str                  -- files whose init function was called, in order
  regs  : List (Str × Str)          -- ghost trace: (file, characters appended) per successful opt_register
  deriving Repr, DecidableEq, Inhabited

/-- _mod_initialize -/
def initOne (pers : Nat) (m : Mod) (s : InitSt) : Mod × InitSt :=
  match optRegister pers s.opts m.d.opts with
  | none => (m, s)
  | some added =>
    let opts' := s.opts ++ added
    let regs' := s.regs ++ [(m.file, added)]
    match m.d.init with
    | none => ({ m with active := true }, ⟨opts', s.calls, regs'⟩)
    | some ok =>
      -- the options stay registered even when init fails
      let s' : InitSt := ⟨opts', s.calls ++ [m.file], regs'⟩
      if ok then ({ m with active := true }, s') else (m, s')

/-- list_find_first + _mod_initialize -/
def initFirst (pers : Nat) (p : Mod → Bool) : List Mod → InitSt → List Mod × InitSt
  | [], s => ([], s)
  | m :: rest, s =>
    if p m then ((initOne pers m s).1 :: rest, (initOne pers m s).2)
    else (m :: (initFirst pers p rest s).1, (initFirst pers p rest s).2)

/-- list_for_each (module_list, _mod_init_list_safe): every module, already initialised or not -/
def initAll (pers : Nat) : List Mod → InitSt → List Mod × InitSt
  | [], s => ([], s)
  | m :: rest, s =>
    ((initOne pers m s).1 :: (initAll pers rest (initOne pers m s).2).1,
     (initAll pers rest (initOne pers m s).2).2)

/-! list_split (",", names): separators inside brackets do not split; empty tokens are dropped -/

/-- the token at the start of `s` (s does not start with a separator): stops at the first ','
    at bracket level 0; returns (token, rest starting at the separator) -/
def takeTok : Str → Int → Str × Str
  | [], _ => ([], [])
  | c :: rest, level =>
    if level = 0 ∧ c = ',' then ([], c :: rest)
    else
      let level' := if c = '[' then level + 1 else if c = ']' then level - 1 else level
      let (t, r) := takeTok rest level'
      (c :: t, r)

theorem takeTok_length (s : Str) (level : Int) : (takeTok s level).2.length ≤ s.length := by
  induction s generalizing level with
  | nil => simp [takeTok]
  | cons c rest ih =>
    simp only [takeTok]
    split
    · simp
    · have := ih (if c = '[' then level + 1 else if c = ']' then level - 1 else level)
      simp only [List.length_cons]
      omega

def splitNames (s : Str) : List Str :=
  go s (s.length + 1)
where
  go : Str → Nat → List Str
    | _, 0 => []
    | s, fuel + 1 =>
      let s := s.dropWhile (· == ',')
      match s with
      | [] => []
      | _ :: _ =>
        let (t, r) := takeTok s 0
        t :: go r fuel

def miscType : Str := "misc".toList

def isMisc (nm : Str) (m : Mod) : Bool := m.type == miscType && m.name == nm

/-- _mod_initialize_modules_by_name -/
def initByNames (pers : Nat) : List Str → List Mod → InitSt → List Mod × InitSt
  | [], l, s => (l, s)
  | nm :: rest, l, s =>
    initByNames pers rest (initFirst pers (isMisc nm) l s).1 (initFirst pers (isMisc nm) l s).2

def miscNames : Option Str → List Str
  | none => []
  | some s => splitNames s

/-- the two initialisation passes of mod_load_modules on the sorted list -/
def initPhase (pers : Nat) (misc : Option Str) (sorted : List Mod) : List Mod × InitSt :=
  initAll pers (initByNames pers (miscNames misc) sorted ⟨baseOpts pers, [], []⟩).1
    (initByNames pers (miscNames misc) sorted ⟨baseOpts pers, [], []⟩).2

structure Result where
  fatal  : Bool                     -- exit status 1 before anything else happens
  mods   : List Mod                 -- module_list as `pdsh -L` walks it
  calls  : List Str
  opts   : Str                      -- final pdsh_options
  opened : List Str
  regs   : List (Str × Str)         -- ghost trace of the successful registrations
  deriving Repr, DecidableEq, Inhabited

/-- mod_load_modules on the chosen directory -/
def loadDir (e : Env) (d : Dir) : Result :=
  let base := baseOpts e.pers
  match e.owner with
  | none => ⟨true, [], [], base, [], []⟩
  | some owner =>
    if !pathOk e.uid owner d.path then ⟨true, [], [], base, [], []⟩
    else
      let ls := loadFiles e.uid owner e.pers d.files
      if ls.count = 0 then ⟨true, [], [], base, ls.opened, []⟩
      else
        let r := initPhase e.pers e.misc (listSort cmpF ls.mods)
        ⟨false, r.1, r.2.calls, r.2.opts, ls.opened, r.2.regs⟩

def loadAll (e : Env) : Result := loadDir e (chooseDir e)

/-! ### what happens to an option character on the command line (getopt + mod_process_opt) -/

inductive OptUse where
  | invalid                          -- not in the option string: getopt reports '?'
  | nohandler                        -- accepted by getopt but no ACTIVE module has it: usage, exit 1
  | handled (file : Str) (arg : Bool)
  deriving Repr, DecidableEq, Inhabited

/-- getopt: the first occurrence of the character decides whether it takes an argument -/
def takesArg : Str → Char → Option Bool
  | [], _ => none
  | c :: rest, x =>
    if c = x then some (rest.head? == some ':') else takesArg rest x

/-- mod_process_opt: the first active module whose table has the character (any personality) -/
def optUse (r : Result) (c : Char) : OptUse :=
  match takesArg r.opts c with
  | none => .invalid
  | some a =>
    match r.mods.find? (fun m => m.active && (m.d.opts.getD []).any (·.c == c)) with
    | some m => .handled m.file a
    | none => .nohandler

end PdshVerif.Mod
