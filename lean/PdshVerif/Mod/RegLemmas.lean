/-
  The registration loop of _mod_load_dynamic_modules / _mod_register as a set-valued function of
  the directory contents: which modules are in the list after all files were looked at.
-/
import PdshVerif.Mod.Lemmas

namespace PdshVerif.Mod

def Mod.key (m : Mod) : Str × Str := (m.type, m.name)

/-- the per-file tests before dlopen -/
def secure (uid owner : Nat) (f : File) : Bool :=
  match f.st with
  | none => false
  | some st => fileOk uid owner st

/-- the module a file contributes: a secure module object with type and name that fits the
    personality (order independent description of "loadable") -/
def cand (uid owner pers : Nat) (f : File) : Option Mod :=
  if secure uid owner f then
    match f.obj with
    | .mod d =>
      match d.type, d.name with
      | some t, some n => if d.pers &&& pers = 0 then none else some ⟨f.fname, t, n, d.prio, d, false⟩
      | _, _ => none
    | _ => none
  else none

/-- a secure module object with type and name that does NOT fit the personality: its (type, name) -/
def foreignKey (uid owner pers : Nat) (f : File) : Option (Str × Str) :=
  if secure uid owner f then
    match f.obj with
    | .mod d =>
      match d.type, d.name with
      | some t, some n => if d.pers &&& pers = 0 then some (t, n) else none
      | _, _ => none
    | _ => none
  else none

theorem sameKey_iff (t n : Str) (m : Mod) : sameKey t n m = true ↔ m.key = (t, n) := by
  simp [sameKey, Mod.key]

theorem loadFile_insecure (beats : Beats) (uid owner pers : Nat) (s : LoadSt) (f : File)
    (h : secure uid owner f = false) : loadFileG beats uid owner pers s f = s := by
  unfold loadFileG
  unfold secure at h
  cases hst : f.st with
  | none => rfl
  | some st => simp [hst] at h; simp [h]

theorem loadFile_secure (beats : Beats) (uid owner pers : Nat) (s : LoadSt) (f : File)
    (h : secure uid owner f = true) :
    loadFileG beats uid owner pers s f = loadObjG beats pers s f.fname f.obj := by
  unfold loadFileG
  unfold secure at h
  cases hst : f.st with
  | none => simp [hst] at h
  | some st => simp [hst] at h; simp [h]

/-- the dlopen log is the list of the files that pass the per-file tests, in enumeration order --
    whatever the objects turn out to be -/
theorem opened_eq (beats : Beats) (uid owner pers : Nat) (files : List File) :
    (loadFilesG beats uid owner pers files).opened = (files.filter (secure uid owner)).map (·.fname) := by
  have gen : ∀ (fs : List File) (s : LoadSt),
      (fs.foldl (loadFileG beats uid owner pers) s).opened =
        s.opened ++ (fs.filter (secure uid owner)).map (·.fname) := by
    intro fs
    induction fs with
    | nil => intro s; simp
    | cons f rest ih =>
      intro s
      simp only [List.foldl_cons]
      rw [ih]
      by_cases hs : secure uid owner f = true
      · rw [loadFile_secure beats uid owner pers s f hs, loadObj_opened]
        simp [List.filter_cons, hs]
      · have hs' : secure uid owner f = false := by simpa using hs
        rw [loadFile_insecure beats uid owner pers s f hs']
        simp [List.filter_cons, hs']
  have := gen files ⟨[], [], 0⟩
  simpa [loadFilesG] using this

/-- everything `register` can do -/
inductive RegCase (beats : Beats) (pers : Nat) (mods : List Mod) (fname : Str) (d : Desc) :
    List Mod × Bool → Prop where
  | loaded : mods.any (·.file == fname) = true → RegCase beats pers mods fname d (mods, false)
  | anon : (d.type = none ∨ d.name = none) → RegCase beats pers mods fname d (mods, false)
  | fresh (t n : Str) : mods.any (·.file == fname) = false → d.type = some t → d.name = some n →
      mods.find? (sameKey t n) = none → d.pers &&& pers ≠ 0 →
      RegCase beats pers mods fname d (⟨fname, t, n, d.prio, d, false⟩ :: mods, true)
  | freshForeign (t n : Str) : mods.any (·.file == fname) = false → d.type = some t → d.name = some n →
      mods.find? (sameKey t n) = none → d.pers &&& pers = 0 →
      RegCase beats pers mods fname d (mods, false)
  | lower (t n : Str) (prev : Mod) : mods.any (·.file == fname) = false → d.type = some t →
      d.name = some n → mods.find? (sameKey t n) = some prev → beats d.prio fname prev = false →
      RegCase beats pers mods fname d (mods, false)
  | replace (t n : Str) (prev : Mod) : mods.any (·.file == fname) = false → d.type = some t →
      d.name = some n → mods.find? (sameKey t n) = some prev → beats d.prio fname prev = true →
      d.pers &&& pers ≠ 0 →
      RegCase beats pers mods fname d (⟨fname, t, n, d.prio, d, false⟩ :: mods.filter (!sameKey t n ·), true)
  | evict (t n : Str) (prev : Mod) : mods.any (·.file == fname) = false → d.type = some t →
      d.name = some n → mods.find? (sameKey t n) = some prev → beats d.prio fname prev = true →
      d.pers &&& pers = 0 →
      RegCase beats pers mods fname d (mods.filter (!sameKey t n ·), false)

theorem register_case (beats : Beats) (pers : Nat) (mods : List Mod) (fname : Str) (d : Desc) :
    RegCase beats pers mods fname d (registerG beats pers mods fname d) := by
  unfold registerG
  by_cases hl : mods.any (·.file == fname) = true
  · simp only [hl, if_true]; exact .loaded hl
  · have hl' : mods.any (·.file == fname) = false := by simpa using hl
    simp only [hl', Bool.false_eq_true, if_false]
    cases ht : d.type with
    | none => exact .anon (Or.inl ht)
    | some t =>
      cases hn : d.name with
      | none => exact .anon (Or.inr hn)
      | some n =>
        simp only
        cases hf : mods.find? (sameKey t n) with
        | none =>
          simp only
          by_cases hp : d.pers &&& pers = 0
          · simp only [hp, if_true]; exact .freshForeign t n hl' ht hn hf hp
          · simp only [hp, if_false]; exact .fresh t n hl' ht hn hf hp
        | some prev =>
          simp only
          by_cases hgt : beats d.prio fname prev = true
          · simp only [hgt, if_true]
            by_cases hp : d.pers &&& pers = 0
            · simp only [hp, if_true]; exact .evict t n prev hl' ht hn hf hgt hp
            · simp only [hp, if_false]; exact .replace t n prev hl' ht hn hf hgt hp
          · have hgt' : beats d.prio fname prev = false := by simpa using hgt
            simp only [hgt', Bool.false_eq_true, if_false]; exact .lower t n prev hl' ht hn hf hgt'

/-! ### the invariant of the registration loop -/

/-- `a` would replace `b` -/
def Beats.rel (beats : Beats) (a b : Mod) : Prop := beats a.prio a.file b = true

/-- what the proofs need of the replacement rule: a strict partial order -/
structure BeatsOrd (beats : Beats) : Prop where
  irr   : ∀ a : Mod, ¬ beats.rel a a
  trans : ∀ a b c : Mod, beats.rel a b → beats.rel b c → beats.rel a c

structure RegInv (beats : Beats) (uid owner pers : Nat) (pre : List File) (s : LoadSt) : Prop where
  /-- every module in the list comes from a loadable file seen so far -/
  r1 : ∀ m ∈ s.mods, ∃ f ∈ pre, cand uid owner pers f = some m
  /-- every loadable file seen so far is represented by a module of its (type, name) that it does
      not beat -/
  r2 : ∀ f ∈ pre, ∀ c, cand uid owner pers f = some c → ∃ m ∈ s.mods, m.key = c.key ∧ ¬ beats.rel c m
  /-- never two modules with the same (type, name) -/
  r3 : (s.mods.map Mod.key).Nodup
  r5 : s.count = 0 ↔ ∀ f ∈ pre, cand uid owner pers f = none
  r6 : s.mods ≠ [] → s.count > 0
  op : s.opened = (pre.filter (secure uid owner)).map (·.fname)

theorem cand_file {uid owner pers : Nat} {f : File} {c : Mod} (h : cand uid owner pers f = some c) :
    c.file = f.fname ∧ c.active = false := by
  unfold cand at h
  split at h
  · split at h
    · split at h
      · split at h
        · simp at h
        · simp at h; subst h; exact ⟨rfl, rfl⟩
      · simp at h
    · simp at h
  · simp at h

theorem cand_mod {uid owner pers : Nat} {f : File} {d : Desc} {t n : Str}
    (hs : secure uid owner f = true) (ho : f.obj = .mod d) (ht : d.type = some t) (hn : d.name = some n) :
    cand uid owner pers f =
      if d.pers &&& pers = 0 then none else some ⟨f.fname, t, n, d.prio, d, false⟩ := by
  unfold cand
  simp [hs, ho, ht, hn]

theorem foreign_mod {uid owner pers : Nat} {f : File} {d : Desc} {t n : Str}
    (hs : secure uid owner f = true) (ho : f.obj = .mod d) (ht : d.type = some t) (hn : d.name = some n) :
    foreignKey uid owner pers f = if d.pers &&& pers = 0 then some (t, n) else none := by
  unfold foreignKey
  simp [hs, ho, ht, hn]

theorem cand_anon {uid owner pers : Nat} {f : File} {d : Desc}
    (ho : f.obj = .mod d) (h : d.type = none ∨ d.name = none) : cand uid owner pers f = none := by
  unfold cand
  split
  · rw [ho]
    simp only
    rcases h with h | h
    · simp [h]
    · cases d.type <;> simp [h]
  · rfl

theorem key_unique {mods : List Mod} (h : (mods.map Mod.key).Nodup) {a b : Mod} (ha : a ∈ mods)
    (hb : b ∈ mods) (hk : a.key = b.key) : a = b :=
  eq_of_nodup_map Mod.key h a ha b hb hk

theorem filter_key_nodup {mods : List Mod} (h : (mods.map Mod.key).Nodup) (p : Mod → Bool) :
    ((mods.filter p).map Mod.key).Nodup :=
  List.Nodup.sublist ((List.filter_sublist).map Mod.key) h

theorem RegInv.step {beats : Beats} (hord : BeatsOrd beats) {uid owner pers : Nat} {pre : List File}
    {s : LoadSt} (h : RegInv beats uid owner pers pre s) (f : File)
    (hname : ∀ g ∈ pre, g.fname ≠ f.fname)
    (hforeign : ∀ k, foreignKey uid owner pers f = some k →
      ∀ g ∈ pre, ∀ c, cand uid owner pers g = some c → c.key ≠ k) :
    RegInv beats uid owner pers (pre ++ [f]) (loadFileG beats uid owner pers s f) := by
  -- the state does not change (except possibly `opened`) and f contributes no candidate
  have same : ∀ (s' : LoadSt), s'.mods = s.mods → s'.count = s.count →
      s'.opened = ((pre ++ [f]).filter (secure uid owner)).map (·.fname) →
      (∀ c, cand uid owner pers f = some c → ∃ m ∈ s.mods, m.key = c.key ∧ ¬ beats.rel c m) →
      RegInv beats uid owner pers (pre ++ [f]) s' := by
    intro s' hm hc ho hcov
    refine ⟨?_, ?_, ?_, ?_, ?_, ho⟩
    · intro m hmem
      rw [hm] at hmem
      obtain ⟨g, hg, hgc⟩ := h.r1 m hmem
      exact ⟨g, by simp [hg], hgc⟩
    · intro g hg c hgc
      rw [hm]
      simp only [List.mem_append, List.mem_singleton] at hg
      rcases hg with hg | hg
      · exact h.r2 g hg c hgc
      · subst hg; exact hcov c hgc
    · rw [hm]; exact h.r3
    · rw [hc]
      constructor
      · intro h0 g hg
        simp only [List.mem_append, List.mem_singleton] at hg
        rcases hg with hg | hg
        · exact h.r5.mp h0 g hg
        · subst hg
          cases hcf : cand uid owner pers g with
          | none => rfl
          | some c =>
            obtain ⟨m, hmem, _⟩ := hcov c hcf
            have : s.mods ≠ [] := by intro e; rw [e] at hmem; simp at hmem
            have := h.r6 this
            omega
      · intro hall
        exact h.r5.mpr (fun g hg => hall g (by simp [hg]))
    · rw [hm, hc]; exact h.r6
  by_cases hsec : secure uid owner f = true
  · have hop : (loadObjG beats pers s f.fname f.obj).opened =
        ((pre ++ [f]).filter (secure uid owner)).map (·.fname) := by
      rw [loadObj_opened, h.op]; simp [List.filter_append, hsec]
    rw [loadFile_secure beats uid owner pers s f hsec]
    cases hobj : f.obj with
    | noload =>
      refine same _ rfl rfl (by rw [← hobj]; exact hop) ?_
      intro c hc; simp [cand, hsec, hobj] at hc
    | noinfo =>
      refine same _ rfl rfl (by rw [← hobj]; exact hop) ?_
      intro c hc; simp [cand, hsec, hobj] at hc
    | mod d =>
      rw [hobj] at hop
      have hcase := register_case beats pers s.mods f.fname d
      -- shape of the new state
      have hst : loadObjG beats pers s f.fname (.mod d) =
          ⟨(registerG beats pers s.mods f.fname d).1, s.opened ++ [f.fname],
           if (registerG beats pers s.mods f.fname d).2 then s.count + 1 else s.count⟩ := rfl
      generalize hr : registerG beats pers s.mods f.fname d = r at hcase hst
      cases hcase with
      | loaded hl =>
        -- impossible: the file name would have been seen before
        exfalso
        simp only [List.any_eq_true, beq_iff_eq] at hl
        obtain ⟨m, hm, hmf⟩ := hl
        obtain ⟨g, hg, hgc⟩ := h.r1 m hm
        exact hname g hg ((cand_file hgc).1.symm.trans hmf)
      | anon ha =>
        refine same _ (by rw [hst]) (by rw [hst]; simp) hop ?_
        intro c hc; rw [cand_anon hobj ha] at hc; simp at hc
      | freshForeign t n _ ht hn _ hp =>
        refine same _ (by rw [hst]) (by rw [hst]; simp) hop ?_
        intro c hc; rw [cand_mod hsec hobj ht hn] at hc; simp [hp] at hc
      | lower t n prev _ ht hn hf hle =>
        refine same _ (by rw [hst]) (by rw [hst]; simp) hop ?_
        intro c hc
        rw [cand_mod hsec hobj ht hn] at hc
        split at hc
        · simp at hc
        · simp at hc; subst hc
          refine ⟨prev, List.mem_of_find?_eq_some hf, ?_, ?_⟩
          · have := List.find?_some hf
            exact (sameKey_iff t n prev).mp this
          · simp only [Beats.rel]; rw [hle]; simp
      | evict t n prev _ ht hn hf _ hp =>
        -- impossible: a module of another personality shares (type, name) with a loadable one
        exfalso
        have hprev := List.mem_of_find?_eq_some hf
        obtain ⟨g, hg, hgc⟩ := h.r1 prev hprev
        have hk := hforeign (t, n) (by rw [foreign_mod hsec hobj ht hn]; simp [hp]) g hg prev hgc
        exact hk ((sameKey_iff t n prev).mp (List.find?_some hf))
      | fresh t n _ ht hn hf hp =>
        have hcf : cand uid owner pers f = some ⟨f.fname, t, n, d.prio, d, false⟩ := by
          rw [cand_mod hsec hobj ht hn]; simp [hp]
        have hnone : ∀ x ∈ s.mods, x.key ≠ (t, n) := by
          intro x hx hk
          have := (List.find?_eq_none.mp hf) x hx
          exact this ((sameKey_iff t n x).mpr hk)
        rw [hst]
        refine ⟨?_, ?_, ?_, ?_, ?_, hop⟩
        · intro m hm
          simp only [List.mem_cons] at hm
          rcases hm with hm | hm
          · subst hm; exact ⟨f, by simp, hcf⟩
          · obtain ⟨g, hg, hgc⟩ := h.r1 m hm
            exact ⟨g, by simp [hg], hgc⟩
        · intro g hg c hgc
          simp only [List.mem_append, List.mem_singleton] at hg
          rcases hg with hg | hg
          · obtain ⟨m, hm, hk⟩ := h.r2 g hg c hgc
            exact ⟨m, by simp [hm], hk⟩
          · subst hg
            rw [hcf] at hgc; simp at hgc; subst hgc
            exact ⟨_, by simp, rfl, hord.irr _⟩
        · simp only [List.map_cons, List.nodup_cons]
          refine ⟨?_, h.r3⟩
          intro hmem
          simp only [List.mem_map] at hmem
          obtain ⟨x, hx, hxk⟩ := hmem
          exact hnone x hx hxk
        · simp only [if_true]
          constructor
          · intro h0; omega
          · intro hall
            have := hall f (by simp)
            rw [hcf] at this; simp at this
        · intro _; simp
      | replace t n prev _ ht hn hf hgt hp =>
        have hcf : cand uid owner pers f = some ⟨f.fname, t, n, d.prio, d, false⟩ := by
          rw [cand_mod hsec hobj ht hn]; simp [hp]
        have hprev := List.mem_of_find?_eq_some hf
        have hprevk : prev.key = (t, n) := (sameKey_iff t n prev).mp (List.find?_some hf)
        rw [hst]
        refine ⟨?_, ?_, ?_, ?_, ?_, hop⟩
        · intro m hm
          simp only [List.mem_cons, List.mem_filter] at hm
          rcases hm with hm | hm
          · subst hm; exact ⟨f, by simp, hcf⟩
          · obtain ⟨g, hg, hgc⟩ := h.r1 m hm.1
            exact ⟨g, by simp [hg], hgc⟩
        · intro g hg c hgc
          simp only [List.mem_append, List.mem_singleton] at hg
          rcases hg with hg | hg
          · obtain ⟨m, hm, hk, hle⟩ := h.r2 g hg c hgc
            by_cases hmk : m.key = (t, n)
            · -- the representative was `prev`, now replaced by the better new module
              have : m = prev := key_unique h.r3 hm hprev (hmk.trans hprevk.symm)
              subst this
              refine ⟨⟨f.fname, t, n, d.prio, d, false⟩, by simp, ?_, ?_⟩
              · rw [← hk, hmk]; rfl
              · intro hcn
                exact hle (hord.trans _ _ _ hcn hgt)
            · refine ⟨m, ?_, hk, hle⟩
              simp only [List.mem_cons, List.mem_filter]
              right
              refine ⟨hm, ?_⟩
              have : sameKey t n m = false := by
                cases hsk : sameKey t n m with
                | false => rfl
                | true => exact absurd ((sameKey_iff t n m).mp hsk) hmk
              simp [this]
          · subst hg
            rw [hcf] at hgc; simp at hgc; subst hgc
            exact ⟨_, by simp, rfl, hord.irr _⟩
        · simp only [List.map_cons, List.nodup_cons]
          refine ⟨?_, filter_key_nodup h.r3 _⟩
          intro hmem
          simp only [List.mem_map, List.mem_filter] at hmem
          obtain ⟨x, ⟨_, hxp⟩, hxk⟩ := hmem
          have : sameKey t n x = true := (sameKey_iff t n x).mpr hxk
          simp [this] at hxp
        · simp only [if_true]
          constructor
          · intro h0; omega
          · intro hall
            have := hall f (by simp)
            rw [hcf] at this; simp at this
        · intro _; simp
  · have hsec' : secure uid owner f = false := by simpa using hsec
    rw [loadFile_insecure beats uid owner pers s f hsec']
    refine same s rfl rfl ?_ ?_
    · rw [h.op]; simp [List.filter_append, hsec']
    · intro c hc; simp [cand, hsec'] at hc

/-- the assumptions under which the outcome of the loop does not depend on the enumeration order:
    file names are distinct (they are directory entries) and no module of another personality
    shares (type, name) with a loadable module (else: finding F17-PERS) -/
structure RegHyp (uid owner pers : Nat) (files : List File) : Prop where
  names   : (files.map (·.fname)).Nodup
  foreign : ∀ f ∈ files, ∀ k, foreignKey uid owner pers f = some k →
              ∀ g ∈ files, ∀ c, cand uid owner pers g = some c → c.key ≠ k

theorem regInv_foldl {beats : Beats} (hord : BeatsOrd beats) (uid owner pers : Nat) :
    ∀ (rest pre : List File) (s : LoadSt), RegInv beats uid owner pers pre s →
      RegHyp uid owner pers (pre ++ rest) →
      RegInv beats uid owner pers (pre ++ rest) (rest.foldl (loadFileG beats uid owner pers) s) := by
  intro rest
  induction rest with
  | nil => intro pre s h _; simpa using h
  | cons f rest ih =>
    intro pre s h hyp
    simp only [List.foldl_cons]
    have hstep := h.step hord f ?_ ?_
    · have := ih (pre ++ [f]) _ hstep (by simpa using hyp)
      simpa using this
    · intro g hg hgf
      have hn := hyp.names
      simp only [List.map_append, List.map_cons] at hn
      have := (List.nodup_append.mp hn).2.2 g.fname (by simp [List.mem_map]; exact ⟨g, hg, rfl⟩)
        f.fname (by simp)
      exact this hgf
    · intro k hk g hg c hgc
      exact hyp.foreign f (by simp) k hk g (by simp [hg]) c hgc

theorem regInv_final {beats : Beats} (hord : BeatsOrd beats) (uid owner pers : Nat) (files : List File)
    (hyp : RegHyp uid owner pers files) :
    RegInv beats uid owner pers files (loadFilesG beats uid owner pers files) := by
  have h0 : RegInv beats uid owner pers [] ⟨[], [], 0⟩ := by
    refine ⟨by simp, by simp, by simp, by simp, by simp, by simp⟩
  have := regInv_foldl hord uid owner pers files [] _ h0 (by simpa using hyp)
  simpa [loadFilesG] using this

/-- mod.c as it is: "strictly higher priority" is a strict partial order -/
theorem beatsPrio_ord : BeatsOrd beatsPrio := by
  refine ⟨?_, ?_⟩
  · intro a h; simp [Beats.rel, beatsPrio] at h
  · intro a b c h1 h2
    simp only [Beats.rel, beatsPrio, decide_eq_true_eq] at h1 h2 ⊢
    omega

end PdshVerif.Mod
