import PdshVerif.Dshbak.Model
import PdshVerif.Dshbak.LineLemmas

/-!
The option part of scripts/dshbak (`getopts ("chfd:")` and the block "Process args") and
`do_output_per_file`: which output function runs, when the script refuses before reading any input, and which
directory entry of DIR a label's lines go to.
-/
namespace PdshVerif.Dshbak

/-- the options as `getopts` leaves them (`$opt_c`, `$opt_h`, `$opt_f`, `$opt_d`) -/
structure Opts where
  c : Bool := false
  h : Bool := false
  f : Bool := false
  d : Option Str := none
  deriving Repr, DecidableEq

/-- Perl's truth of a string: every string but `""` and `"0"` -/
def perlTrue (s : Str) : Bool := !(s == [] || s == ['0'])

/-- what `-d $opt_d` (and `mkpath`) find under the name given to `-d` -/
inductive DirState where
  /-- an existing directory -/
  | dir
  /-- nothing of that name; `mkpath` can create it -/
  | missing
  /-- something that is not a directory (`mkpath` fails) -/
  | notDir
  deriving Repr, DecidableEq

/-- what the script does after its option block -/
inductive Plan where
  /-- usage text on stderr, exit 0, no input read -/
  | usage
  /-- `log_fatal`: a message on stderr, exit 1, no input read, nothing written -/
  | fatal
  /-- `do_output_normal` -/
  | report
  /-- `do_output_coalesced` -/
  | coalesced
  /-- `do_output_per_file` into DIR (`created`: DIR was made by `mkpath` first) -/
  | perFile (created : Bool)
  deriving Repr, DecidableEq

/-- `if (defined $opt_d)` — THE SCRIPT (since /repo 8474bb4): -d was given, whatever the directory is called
(`truth = false`, what the driver runs unless the check's probe finds the older script).  `truth = true` is the
script BEFORE that commit: `if ($opt_d)` tested the TRUTH of the directory name, so `-d 0` (and `-d ''`) counted
as "no -d" (F19-DIRZERO, `d0_ignored_before_8474bb4`); kept so that a script that loses `defined` again is still
described exactly and reported with `-d 0` as the replay. -/
def dGiven (truth : Bool) (o : Opts) : Bool :=
  match o.d with
  | none => false
  | some s => !truth || perlTrue s

/-- the block "Process args", test by test in the script's order -/
def plan (truth : Bool) (o : Opts) (ds : DirState) : Plan :=
  if o.h then .usage
  else if o.c && dGiven truth o then .fatal                     -- "Do not specify both -c and -d"
  else if dGiven truth o then
    if o.f && ds != .dir then (if ds == .missing then .perFile true else .fatal)    -- mkpath
    else if ds == .dir then .perFile false else .fatal          -- "Output directory ... does not exist"
  else if o.f then .fatal                                       -- "Option -f may only be used with -d"
  else if o.c then .coalesced
  else .report

/-- a label that names ONE directory entry of DIR: no `/`, not `.`, not `..`, not empty.  `open (">DIR/LABEL")`
creates or truncates exactly the entry LABEL of DIR for such a label; for any other label the file that is
opened depends on the directory tree around DIR (`DIR/./x` is the entry `x`, `DIR/../x` lies outside DIR,
`DIR/a/b` needs a directory `a`, `DIR/.` cannot be opened for writing). -/
def fileNameOK (t : Str) : Bool := !(t.contains '/') && t != ['.'] && t != ['.', '.'] && t != []

/-- `"$opt_d/$tag"` -/
def filePath (dir tag : Str) : Str := dir ++ '/' :: tag

/-- `do_output_per_file` for every tag of `sortn (keys %lines)`: (path opened with `>`, what is printed to it).
The same path opened twice is truncated the second time: `written` keeps the last. -/
def perFileWrites (dir : Str) (ks : List Str) (m : Tab) : List (Str × List Str) :=
  (normalBlocks ks m).map fun b => (filePath dir b.1, b.2)

theorem filePath_inj (dir t₁ t₂ : Str) (h : filePath dir t₁ = filePath dir t₂) : t₁ = t₂ := by
  simpa [filePath] using h

/-- `while (<>)` over FILE ARGUMENTS: the lines of every file in turn; a file's last line may lack its newline
(Perl does not join it with the first line of the next file) -/
def readFiles (files : List Str) : List (Str × Bool) := files.flatMap readLines

theorem processStep_flag (m : Tab) (l : Str × Bool) : processStep true m l = processStep true m (l.1, true) := by
  simp [processStep, matchLine]

/-- after the repair of D21 the newline flag of a line plays no role -/
theorem processLines_flags (ls : List (Str × Bool)) :
    processLines true ls = processLines true (ls.map fun l => (l.1, true)) := by
  unfold processLines
  generalize ([] : Tab) = m
  induction ls generalizing m with
  | nil => rfl
  | cons l ls ih =>
    simp only [List.foldl_cons, List.map_cons]
    rw [processStep_flag m l]
    exact ih _

/-- a file's text: newline-terminated lines and a possibly empty unterminated rest -/
def fileText (f : List Str × Str) : Str := f.1.flatMap (· ++ ['\n']) ++ f.2

def fileLines (f : List Str × Str) : List Str := f.1 ++ (if f.2.isEmpty then [] else [f.2])

theorem readFiles_lines : ∀ (fsx : List (List Str × Str)),
    (∀ f ∈ fsx, (∀ l ∈ f.1, '\n' ∉ l) ∧ '\n' ∉ f.2) →
    (readFiles (fsx.map fileText)).map (fun l => (l.1, true)) = (fsx.flatMap fileLines).map (·, true)
  | [], _ => rfl
  | f :: fsx, h => by
    have ih := readFiles_lines fsx fun g hg => h g (by simp [hg])
    have hf := h f (by simp)
    unfold readFiles at ih ⊢
    simp only [List.map_cons, List.flatMap_cons, List.map_append, ih]
    congr 1
    rw [fileText, readLines_lines f.1 hf.1 f.2 hf.2, fileLines]
    by_cases he : f.2.isEmpty <;> simp [he, List.map_map, Function.comp_def]

end PdshVerif.Dshbak
