import PdshVerif.Dshbak.Model

/-! decimal facts used by `compress_expands`: a digit string re-prints as itself at its own width -/
namespace PdshVerif.Dshbak

theorem insertBy_perm {α : Type} (le : α → α → Bool) (x : α) : ∀ (l : List α), (insertBy le x l).Perm (x :: l)
  | [] => List.Perm.refl _
  | y :: ys => by
    simp only [insertBy]
    split
    · exact List.Perm.refl _
    · exact ((insertBy_perm le x ys).cons y).trans (List.Perm.swap x y ys)

theorem stableSort_perm {α : Type} (le : α → α → Bool) : ∀ (l : List α), (stableSort le l).Perm l
  | [] => List.Perm.refl _
  | x :: l => (insertBy_perm le x _).trans ((stableSort_perm le l).cons x)

theorem sortn_perm (l : List Str) : (sortn l).Perm l := by
  unfold sortn
  have := (stableSort_perm (fun a b : Str × Nat => decide (a.2 ≤ b.2)) (l.map fun s => (s, sortKey s))).map (·.1)
  simpa [List.map_map, Function.comp_def] using this

def AllDig (s : Str) : Prop := ∀ c ∈ s, isDig c = true

/-- written the way a number prints: no leading zero, or "0" itself -/
def Natural (s : Str) : Prop := s = ['0'] ∨ ∃ c r, s = c :: r ∧ c ≠ '0'

theorem isDig_digitChar {c : Char} (h : isDig c = true) :
    c.toNat - 48 < 10 ∧ Nat.digitChar (c.toNat - 48) = c := by
  simp only [isDig, Bool.and_eq_true, decide_eq_true_eq] at h
  have h1 : 48 ≤ c.toNat := by
    have := UInt32.le_iff_toNat_le.mp (Char.le_def.mp h.1)
    have e : ('0' : Char).val.toNat = 48 := rfl
    show 48 ≤ c.val.toNat
    omega
  have h2 : c.toNat ≤ 57 := by
    have := UInt32.le_iff_toNat_le.mp (Char.le_def.mp h.2)
    have e : ('9' : Char).val.toNat = 57 := rfl
    show c.val.toNat ≤ 57
    omega
  refine ⟨by omega, ?_⟩
  have hk : c.toNat = 48 ∨ c.toNat = 49 ∨ c.toNat = 50 ∨ c.toNat = 51 ∨ c.toNat = 52 ∨ c.toNat = 53 ∨
      c.toNat = 54 ∨ c.toNat = 55 ∨ c.toNat = 56 ∨ c.toNat = 57 := by omega
  apply Char.toNat_inj.mp
  rcases hk with e | e | e | e | e | e | e | e | e | e <;> rw [e] <;> rfl

theorem valOf_snoc (s : Str) (c : Char) : valOf (s ++ [c]) = valOf s * 10 + (c.toNat - 48) := by
  simp [valOf, List.foldl_append]

theorem valOf_nil : valOf [] = 0 := rfl

theorem valOf_zero_cons (s : Str) : valOf ('0' :: s) = valOf s := by
  simp [valOf]

/-- printing commutes with appending digits to a positive number -/
theorem toDigits_foldl (s : Str) (hs : AllDig s) (a : Nat) (ha : 0 < a) :
    Nat.toDigits 10 (s.foldl (fun a c => a * 10 + (c.toNat - 48)) a) = Nat.toDigits 10 a ++ s := by
  induction s generalizing a with
  | nil => simp
  | cons c r ih =>
    have hc := isDig_digitChar (hs c (by simp))
    have hr : AllDig r := fun x hx => hs x (by simp [hx])
    simp only [List.foldl_cons]
    rw [ih hr _ (by omega)]
    have := Nat.toDigits_append_toDigits (b := 10) (n := a) (d := c.toNat - 48) (by omega) ha hc.1
    rw [Nat.mul_comm, ← this, Nat.toDigits_of_lt_base hc.1, hc.2]
    simp

theorem toDigits_valOf {s : Str} (hs : AllDig s) (hn : Natural s) : Nat.toDigits 10 (valOf s) = s := by
  rcases hn with rfl | ⟨c, r, rfl, hc⟩
  · decide
  · have hd := isDig_digitChar (hs c (by simp))
    have hr : AllDig r := fun x hx => hs x (by simp [hx])
    have hpos : 0 < c.toNat - 48 := by
      rcases Nat.eq_zero_or_pos (c.toNat - 48) with h0 | h0
      · exfalso; apply hc; rw [← hd.2, h0]; rfl
      · exact h0
    have : valOf (c :: r) = r.foldl (fun a c => a * 10 + (c.toNat - 48)) (c.toNat - 48) := by
      simp [valOf]
    rw [this, toDigits_foldl r hr _ hpos, Nat.toDigits_of_lt_base hd.1, hd.2]
    simp

theorem fmtPad_of_natural {s : Str} (hs : AllDig s) (hn : Natural s) {w : Nat} (hw : w ≤ s.length) :
    fmtPad w (valOf s) = s := by
  unfold fmtPad
  rw [toDigits_valOf hs hn]
  have : w - s.length = 0 := by omega
  simp [this]

/-- L1: a non-empty digit string re-prints as itself at its own width -/
theorem fmtPad_self : ∀ {s : Str}, AllDig s → s ≠ [] → fmtPad s.length (valOf s) = s
  | [], _, h => absurd rfl h
  | c :: r, hs, _ => by
    by_cases hc : c = '0'
    · subst hc
      cases r with
      | nil => decide
      | cons d r' =>
        have hr : AllDig (d :: r') := fun x hx => hs x (by simp [hx])
        have ih := fmtPad_self hr (by simp)
        rw [valOf_zero_cons]
        unfold fmtPad at ih ⊢
        have hlen := congrArg List.length ih
        simp only [List.length_append, List.length_replicate, List.length_cons] at hlen
        have : ('0' :: d :: r').length - (Nat.toDigits 10 (valOf (d :: r'))).length =
            ((d :: r').length - (Nat.toDigits 10 (valOf (d :: r'))).length) + 1 := by
          simp only [List.length_cons]; omega
        rw [this, List.replicate_succ, List.cons_append, ih]
    · exact fmtPad_of_natural hs (Or.inr ⟨c, r, rfl, hc⟩) (Nat.le_refl _)

theorem natlen_mono (a : Nat) : (Nat.toDigits 10 a).length ≤ (Nat.toDigits 10 (a + 1)).length := by
  have hpos : 0 < (Nat.toDigits 10 (a + 1)).length := Nat.length_toDigits_pos
  have h1 := (Nat.length_toDigits_le_iff (b := 10) (n := a + 1) (by omega) hpos).mp (Nat.le_refl _)
  exact (Nat.length_toDigits_le_iff (b := 10) (n := a) (by omega) hpos).mpr (by omega)

/-- a natural string has the length of its value's print -/
theorem natural_length {s : Str} (hs : AllDig s) (hn : Natural s) :
    (Nat.toDigits 10 (valOf s)).length = s.length := by rw [toDigits_valOf hs hn]

end PdshVerif.Dshbak
