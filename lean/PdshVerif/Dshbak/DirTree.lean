import PdshVerif.Dshbak.Options

/-!
THE FILE SYSTEM UNDER `-d DIR`: which file `open (OUTPUT, ">DIR/LABEL")` creates or truncates when LABEL is a PATH
(F19-DIRLABEL, open).  A directory tree is the set of its directories (absolute, normalised component lists; the
root is `[]`) and a map from nodes to file contents.  `openW` is open(2) with `O_WRONLY|O_CREAT|O_TRUNC` on a path:
every component but the last is walked (`""` and `.` stay, `..` goes up, a name must be an existing directory), the
last one must not be `""` (trailing slash), `.`, `..` or an existing directory (EISDIR) and is created or truncated
in the directory reached.  No symbolic links, no permissions (the check runs in a fresh tree).  Directories never
change during a run of `do_output_per_file` (only files are created), so which node a label opens does not depend
on what was written before.

`runWrites` is the loop `&do_output_per_file ($_) for (sortn (keys %lines))`: the first `open` that fails ends
the script (`log_fatal`, exit 1) with the files written so far left behind.
-/
namespace PdshVerif.Dshbak

abbrev Node := List Str

/-- the components of a path: split at every `/` (empty components kept: `a//b`, `x/`, `/abs`) -/
def splitSlash : Str → List Str
  | [] => [[]]
  | c :: r =>
    if c = '/' then [] :: splitSlash r
    else match splitSlash r with
      | [] => [[c]]
      | h :: t => (c :: h) :: t

/-- walk the directory components of a path from the node `at_` -/
def walk (dirs : List Node) : Node → List Str → Option Node
  | at_, [] => some at_
  | at_, c :: cs =>
    if c = [] ∨ c = ['.'] then walk dirs at_ cs
    else if c = ['.', '.'] then walk dirs at_.dropLast cs
    else if (at_ ++ [c]) ∈ dirs then walk dirs (at_ ++ [c]) cs
    else none

/-- the last component names a file that can be created or truncated in directory `d` -/
def leafOK (dirs : List Node) (d : Node) (f : Str) : Bool :=
  f ≠ [] && f ≠ ['.'] && f ≠ ['.', '.'] && !((d ++ [f]) ∈ dirs)

/-- `open (">path")` from the working directory `cwd`: the node of the file, `none` = the open fails -/
def openW (dirs : List Node) (cwd : Node) (path : Str) : Option Node :=
  let comps := splitSlash path
  match walk dirs (if path.head? = some '/' then [] else cwd) comps.dropLast with
  | none => none
  | some d =>
    match comps.getLast? with
    | none => none
    | some f => if leafOK dirs d f then some (d ++ [f]) else none

abbrev Files := List (Node × List Str)

/-- create or truncate, then print -/
def setFile : Files → Node → List Str → Files
  | [], n, ls => [(n, ls)]
  | (m, old) :: r, n, ls => if m = n then (m, ls) :: r else (m, old) :: setFile r n ls

def fileAt (fs : Files) (n : Node) : Option (List Str) := (fs.find? fun e => e.1 = n).map (·.2)

/-- one `do_output_per_file`; `ok = false`: an earlier `open` failed and the script is gone -/
def writeStep (dirs : List Node) (cwd : Node) (s : Files × Bool) (w : Str × List Str) : Files × Bool :=
  if !s.2 then s
  else match openW dirs cwd w.1 with
    | none => (s.1, false)
    | some n => (setFile s.1 n w.2, true)

/-- `&do_output_per_file ($_) for (sortn (keys %lines))` -/
def runWrites (dirs : List Node) (cwd : Node) (ws : List (Str × List Str)) (fs : Files) : Files × Bool :=
  ws.foldl (writeStep dirs cwd) (fs, true)

/-! ### `setFile` / `fileAt` -/

theorem fileAt_setFile_same : ∀ (fs : Files) (n : Node) (ls : List Str), fileAt (setFile fs n ls) n = some ls
  | [], n, ls => by simp [setFile, fileAt]
  | (m, old) :: r, n, ls => by
    have ih := fileAt_setFile_same r n ls
    unfold setFile
    by_cases h : m = n
    · simp [h, fileAt]
    · simp only [h, if_false]
      unfold fileAt at ih ⊢
      simp [List.find?_cons, h, ih]

theorem fileAt_setFile_other : ∀ (fs : Files) (n k : Node) (ls : List Str), k ≠ n →
    fileAt (setFile fs n ls) k = fileAt fs k
  | [], n, k, ls, h => by simp [setFile, fileAt, List.find?_cons, Ne.symm h]
  | (m, old) :: r, n, k, ls, h => by
    have ih := fileAt_setFile_other r n k ls h
    unfold setFile
    by_cases hm : m = n
    · subst hm
      simp [fileAt, List.find?_cons, Ne.symm h]
    · simp only [hm, if_false]
      unfold fileAt at ih ⊢
      by_cases hk : m = k
      · simp [List.find?_cons, hk]
      · simp [List.find?_cons, hk, ih]

/-! ### the loop when every `open` succeeds -/

/-- with every `open` succeeding the loop is a plain fold of `setFile` -/
theorem runWrites_all_open (dirs : List Node) (cwd : Node) (nd : Str → Node) :
    ∀ (ws : List (Str × List Str)) (fs : Files), (∀ w ∈ ws, openW dirs cwd w.1 = some (nd w.1)) →
    ws.foldl (writeStep dirs cwd) (fs, true) = (ws.foldl (fun fs w => setFile fs (nd w.1) w.2) fs, true)
  | [], _, _ => rfl
  | w :: ws, fs, h => by
    simp only [List.foldl_cons]
    have hw := h w (by simp)
    have : writeStep dirs cwd (fs, true) w = (setFile fs (nd w.1) w.2, true) := by simp [writeStep, hw]
    rw [this]
    exact runWrites_all_open dirs cwd nd ws _ fun x hx => h x (by simp [hx])

/-- a node no write of the list goes to keeps what it held -/
theorem fold_setFile_untouched (nd : Str → Node) : ∀ (ws : List (Str × List Str)) (fs : Files) (n : Node),
    (∀ w ∈ ws, nd w.1 ≠ n) → fileAt (ws.foldl (fun fs w => setFile fs (nd w.1) w.2) fs) n = fileAt fs n
  | [], _, _, _ => rfl
  | w :: ws, fs, n, h => by
    simp only [List.foldl_cons]
    rw [fold_setFile_untouched nd ws _ n fun x hx => h x (by simp [hx])]
    exact fileAt_setFile_other fs _ n _ (Ne.symm (h w (by simp)))

/-- THE LAST WRITER WINS: after the loop a node holds the lines of the LAST write that went to it -/
theorem fold_setFile_last (nd : Str → Node) (pre : List (Str × List Str)) (w : Str × List Str)
    (post : List (Str × List Str)) (fs : Files) (h : ∀ x ∈ post, nd x.1 ≠ nd w.1) :
    fileAt ((pre ++ w :: post).foldl (fun fs x => setFile fs (nd x.1) x.2) fs) (nd w.1) = some w.2 := by
  rw [List.foldl_append, List.foldl_cons, fold_setFile_untouched nd post _ _ h]
  exact fileAt_setFile_same _ _ _

/-! ### what labels open -/

theorem splitSlash_no_slash : ∀ (t : Str), '/' ∉ t → splitSlash t = [t]
  | [], _ => rfl
  | c :: r, h => by
    have hc : c ≠ '/' := fun e => h (by simp [e])
    have ih := splitSlash_no_slash r (fun hh => h (by simp [hh]))
    simp [splitSlash, hc, ih]

theorem splitSlash_append_slash : ∀ (a b : Str), '/' ∉ a → splitSlash (a ++ '/' :: b) = a :: splitSlash b
  | [], b, _ => by simp [splitSlash]
  | c :: r, b, h => by
    have hc : c ≠ '/' := fun e => h (by simp [e])
    have ih := splitSlash_append_slash r b (fun hh => h (by simp [hh]))
    simp [splitSlash, hc, ih]

theorem splitSlash_ne_nil : ∀ (t : Str), splitSlash t ≠ []
  | [] => by simp [splitSlash]
  | c :: r => by
    unfold splitSlash
    split
    · simp
    · split <;> simp

end PdshVerif.Dshbak
