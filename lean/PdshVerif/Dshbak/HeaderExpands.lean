import PdshVerif.Dshbak.HostlistBridge
import PdshVerif.Dshbak.Rechunk

/-! `header_expands`: the header text of the repaired dshbak, given to the hostlist parser model,
yields exactly the group (as a multiset) -/
namespace PdshVerif.Dshbak
open PdshVerif.Hostlist

/-- C19's stated domain for the header theorem: distinct, non-empty names over characters that are
neither separators nor brackets, at most 1000 bytes long, numeric parts below 2^64-1 -/
structure HeaderDom (g : List Str) : Prop where
  nodup : g.Nodup
  name : ∀ t ∈ g, t ≠ [] ∧ t.all Spec.textChar = true ∧ t.length ≤ 1000
  num : ∀ t ∈ g, valOf (splitNum (splitSuffix t).1).2 < ULONG_MAX

/-! ### the suffix groups once more: what is known about every group -/

theorem group_facts (g : List Str) (hnd : g.Nodup) :
    ∀ e ∈ suffixGroups g, e.2.Nodup ∧ e.2.length ≤ g.length ∧
      ∀ s ∈ e.2, s ++ e.1 ∈ g ∧ splitSuffix (s ++ e.1) = (s, e.1) := by
  have hs : (sortn g).Perm g := sortn_perm _
  have hflat : (flat (suffixGroups g)).Perm g := by
    have := flat_fold (sortn g) []
    simp only [flat, List.flatMap_nil, List.nil_append] at this
    exact this.trans hs
  have hsplit := group_split (sortn g) [] (by simp)
  intro e he
  have hsub : (e.2.map (· ++ e.1)).Sublist (flat (suffixGroups g)) := by
    unfold flat
    rw [List.flatMap_def]
    exact List.sublist_flatten_of_mem (List.mem_map.mpr ⟨e, he, rfl⟩)
  refine ⟨?_, ?_, fun s hs' => ⟨hflat.subset (hsub.subset (List.mem_map.mpr ⟨s, hs', rfl⟩)), hsplit e he s hs'⟩⟩
  · have : (e.2.map (· ++ e.1)).Nodup := hsub.nodup (hflat.nodup_iff.mpr hnd)
    exact List.Pairwise.of_map _ (fun a b hab h => hab (by rw [h])) this
  · have := hsub.length_le
    rw [List.length_map, hflat.length_eq] at this
    exact this

/-! ### facts about one header element -/

structure RunFacts (m : Nat) (r : Run) : Prop where
  dig : AllDig r.start
  ne : r.start ≠ []
  len : r.start.length ≤ 1000
  hi64 : r.hi < ULONG_MAX
  le : r.lo ≤ r.hi
  span : r.hi - r.lo < m
  stop : ∀ x, r.stop = some x → AllDig x ∧ x ≠ []

structure ElemOK (m : Nat) (e : Elem) : Prop where
  runs_ne : e.runs ≠ []
  pre_ok : e.pre.all Spec.textChar = true ∧ e.pre.length ≤ 1000
  suf_ok : e.suf.all Spec.textChar = true ∧ e.suf.length ≤ 1000
  plain_ok : e.bracketed = false → e.render ≠ [] ∧ e.render.all Spec.textChar = true ∧ e.render.length ≤ 1000
  runs_ok : e.bracketed = true → ∀ r ∈ e.runs, RunFacts m r
  count : e.runs.length ≤ Spec.RANGES_LIMIT

/-- a name of the domain -/
def NameOK (t : Str) : Prop := t ≠ [] ∧ t.all Spec.textChar = true ∧ t.length ≤ 1000

/-- what `compress` guarantees about an element, in a form that is inherited by the pieces the
repair of F19-MANYRANGES cuts it into -/
structure ElemFull (m : Nat) (e : Elem) : Prop where
  runs_ne : e.runs ≠ []
  pre_ok : e.pre.all Spec.textChar = true ∧ e.pre.length ≤ 1000
  suf_ok : e.suf.all Spec.textChar = true ∧ e.suf.length ≤ 1000
  single_ok : ∀ r ∈ e.runs, r.stop = none → NameOK (e.pre ++ r.start ++ e.suf)
  runs_or : (e.runs.length ≤ 1 ∧ ∀ r ∈ e.runs, r = ⟨[], none⟩) ∨ ∀ r ∈ e.runs, RunFacts m r

theorem all_of_append {p : Char → Bool} {a b c : Str} (h : (a ++ b ++ c).all p = true) :
    a.all p = true ∧ b.all p = true ∧ c.all p = true := by
  simp only [List.all_append, Bool.and_eq_true] at h
  exact ⟨h.1.1, h.1.2, h.2⟩

theorem length_le_flatMap_nums : ∀ (runs : List Run), (∀ r ∈ runs, r.nums ≠ []) →
    runs.length ≤ (numsOf runs).length
  | [], _ => by simp [numsOf]
  | r :: rs, h => by
    have ih := length_le_flatMap_nums rs fun x hx => h x (by simp [hx])
    have hr : 0 < r.nums.length := List.length_pos_iff.mpr (h r (by simp))
    simp only [numsOf, List.flatMap_cons, List.length_append, List.length_cons] at ih ⊢
    omega

theorem nums_ne (r : Run) (h : ∀ x, r.stop = some x → valOf r.start ≤ valOf x) : r.nums ≠ [] := by
  obtain ⟨s, stop⟩ := r
  cases stop with
  | none => simp [Run.nums]
  | some x =>
    have := h x rfl
    simp only at this
    simp only [Run.nums, ne_eq, List.map_eq_nil_iff, List.range'_eq_nil_iff]
    omega

/-- every element of the repaired `compress` is well formed -/
theorem compress_elems_full (m : Nat) (hm : 0 < m) (g : List Str) (hd : HeaderDom g) :
    ∀ grp ∈ compressGroupsFixed (some m) g, ∀ e ∈ grp, ElemFull m e ∧ e.runs.length ≤ g.length := by
  intro grp hgrp e he
  simp only [compressGroupsFixed, List.mem_append, List.mem_map] at hgrp
  rcases hgrp with ⟨t, ht, rfl⟩ | hgrp
  · -- a digit-free name, listed as it is
    simp only [List.mem_singleton] at he
    subst he
    have htg : t ∈ g := (sortn_perm g).subset (List.mem_filter.mp ht).1
    obtain ⟨h1, h2, h3⟩ := hd.name t htg
    have hlen : 1 ≤ g.length := List.length_pos_iff.mpr (List.ne_nil_of_mem htg)
    refine ⟨⟨by simp, ⟨h2, h3⟩, by simp, ?_, Or.inl ⟨by simp, by simp⟩⟩, by simpa using hlen⟩
    intro r hr _
    simp only [List.mem_singleton] at hr
    subst hr
    simpa [NameOK] using (⟨h1, h2, h3⟩ : t ≠ [] ∧ t.all Spec.textChar = true ∧ t.length ≤ 1000)
  · -- an element built by comp for a suffix group of the names that have a stem
    have hg'nd : (g.filter fun t => !noStem t).Nodup := hd.nodup.sublist List.filter_sublist
    simp only [compressGroups, List.mem_map] at hgrp
    obtain ⟨sg, hsg, rfl⟩ := hgrp
    obtain ⟨hstnd, hstlen, hstmem⟩ := group_facts _ hg'nd sg hsg
    simp only [compressInner, List.mem_map] at he
    obtain ⟨pr, hpr, rfl⟩ := he
    have hpr' : pr ∈ comp (some m) sg.2 := (stableSort_perm _ _).subset hpr
    -- every stem of the group carries a number, so no clash
    have hnum : ∀ s ∈ sg.2, (splitNum s).2 ≠ [] := by
      intro s hs
      obtain ⟨hin, hsp⟩ := hstmem s hs
      have := (List.mem_filter.mp hin).2
      simp only [noStem, hsp, Bool.not_eq_eq_eq_not, Bool.not_true, List.isEmpty_eq_false_iff] at this
      have h2 := stem_has_number (s ++ sg.1) (by rw [hsp]; exact this)
      rw [hsp] at h2
      exact h2
    have hH : NoBareClash sg.2 := fun a ha h0 => absurd h0 (hnum a ha)
    obtain ⟨hne, hruns⟩ := comp_runs_ok (some m) sg.2 hstnd hH pr hpr'
    have hwithin : Within m pr.2 := by
      simp only [comp, List.mem_map] at hpr'
      obtain ⟨y, hy, rfl⟩ := hpr'
      exact fold_within m hm _ [] (by simp) y hy
    -- a bound `x` of prefix pr.1: the name pr.1 ++ x ++ suffix is in g and splits back
    have hbound : ∀ x, pr.1 ++ x ∈ sg.2 → splitNum (pr.1 ++ x) = (pr.1, x) →
        (pr.1 ++ x ++ sg.1) ∈ g ∧ x ≠ [] ∧ valOf x < ULONG_MAX := by
      intro x hx hsp
      obtain ⟨hin, hss⟩ := hstmem _ hx
      have hing : pr.1 ++ x ++ sg.1 ∈ g := (List.mem_filter.mp hin).1
      refine ⟨hing, ?_, ?_⟩
      · have := hnum _ hx; rw [hsp] at this; exact this
      · have := hd.num _ hing
        rw [hss, hsp] at this
        exact this
    have hfacts : ∀ r ∈ pr.2, RunFacts m r := by
      intro r hr
      have ok := hruns r hr
      obtain ⟨hmem, hne', hv⟩ := hbound r.start ok.startMem ok.startSplit
      have hlen : r.start.length ≤ 1000 := by
        have := (hd.name _ hmem).2.2
        simp only [List.length_append] at this
        omega
      cases hstop : r.stop with
      | none =>
        refine ⟨ok.startDig, hne', hlen, ?_, ?_, ?_, fun x hx => by rw [hstop] at hx; simp at hx⟩
        · simpa [Run.hi, hstop] using hv
        · simp [Run.hi, Run.lo, hstop]
        · have := hwithin r hr; exact this
      | some x =>
        obtain ⟨_, hle, hxd, hxne, hxm, hxs⟩ := ok.stop x hstop
        obtain ⟨_, _, hxv⟩ := hbound x hxm hxs
        refine ⟨ok.startDig, hne', hlen, ?_, ?_, hwithin r hr, fun y hy => ?_⟩
        · simpa [Run.hi, hstop] using hxv
        · simpa [Run.hi, Run.lo, hstop] using hle
        · rw [hstop] at hy; simp only [Option.some.injEq] at hy; subst hy; exact ⟨hxd, hxne⟩
    -- the first element gives a name of g that contains prefix and suffix
    obtain ⟨r0, hr0⟩ := List.exists_mem_of_ne_nil _ hne
    have ok0 := hruns r0 hr0
    obtain ⟨hmem0, _, _⟩ := hbound r0.start ok0.startMem ok0.startSplit
    obtain ⟨_, htc, htl⟩ := hd.name _ hmem0
    obtain ⟨hpc, _, hsc⟩ := all_of_append htc
    simp only [List.length_append] at htl
    refine ⟨⟨hne, ⟨hpc, by show pr.1.length ≤ 1000; omega⟩, ⟨hsc, by show sg.1.length ≤ 1000; omega⟩, ?_,
      Or.inr hfacts⟩, ?_⟩
    · intro r hr _
      have okr := hruns r hr
      obtain ⟨hm1, _, _⟩ := hbound r.start okr.startMem okr.startSplit
      exact hd.name _ hm1
    · -- at most as many elements as names
      have h1 := length_le_flatMap_nums pr.2 fun r hr =>
        nums_ne r fun x hx => ((hruns r hr).stop x hx).2.1
      have h2 := comp_denotes (some m) sg.2 hstnd hH
      have h3 : ((numsOf pr.2).map (pr.1 ++ ·)).Sublist
          ((comp (some m) sg.2).flatMap fun e => (numsOf e.2).map (e.1 ++ ·)) := by
        rw [List.flatMap_def]
        exact List.sublist_flatten_of_mem (List.mem_map.mpr ⟨pr, hpr', rfl⟩)
      have h4 := h3.length_le
      rw [List.length_map, h2.length_eq] at h4
      have h5 : (g.filter fun t => !noStem t).length ≤ g.length := List.length_filter_le _ _
      show pr.2.length ≤ g.length
      omega

/-- an element that is not bracketed has one range element without high bound, and its text is
prefix, number, suffix -/
theorem unbracketed (e : Elem) (hne : e.runs ≠ []) (hb : e.bracketed = false) :
    ∃ r, e.runs = [r] ∧ r.stop = none ∧ e.render = e.pre ++ r.start ++ e.suf := by
  obtain ⟨pre, runs, suf⟩ := e
  simp only at hne
  cases runs with
  | nil => exact absurd rfl hne
  | cons r rest =>
    simp only [Elem.bracketed, List.length_cons, Bool.or_eq_false_iff, decide_eq_false_iff_not,
      Option.isSome_eq_false_iff, Option.isNone_iff_eq_none] at hb
    have hrest : rest = [] := by
      cases rest with
      | nil => rfl
      | cons _ _ => simp at hb
    subst hrest
    obtain ⟨s, stop⟩ := r
    simp only at hb
    obtain ⟨_, rfl⟩ := hb
    exact ⟨⟨s, none⟩, rfl, rfl, by simp [Elem.render, Elem.bracketed, Run.render, joinWith]⟩

theorem full_to_ok (m : Nat) (e : Elem) (h : ElemFull m e) (hcount : e.runs.length ≤ Spec.RANGES_LIMIT) :
    ElemOK m e := by
  refine ⟨h.runs_ne, h.pre_ok, h.suf_ok, fun hb => ?_, fun hb => ?_, hcount⟩
  · obtain ⟨r, hr, hstop, hrender⟩ := unbracketed e h.runs_ne hb
    rw [hrender]
    exact h.single_ok r (by rw [hr]; simp) hstop
  · rcases h.runs_or with ⟨hl, hall⟩ | hf
    · exfalso
      obtain ⟨pre, runs, suf⟩ := e
      simp only at hl hall hb
      cases runs with
      | nil => simp [Elem.bracketed] at hb
      | cons r rest =>
        have hrest : rest = [] := by
          cases rest with
          | nil => rfl
          | cons _ _ => simp only [List.length_cons] at hl; omega
        subst hrest
        have := hall r (by simp)
        subst this
        simp [Elem.bracketed] at hb
    · exact hf

/-- the pieces of an element inherit everything -/
theorem full_piece (m : Nat) (mr : Option Nat) (e e' : Elem) (h : ElemFull m e)
    (hp : e' ∈ splitElem mr e) : ElemFull m e' ∧ e'.runs.length ≤ e.runs.length := by
  obtain ⟨h1, h2, h3, h4, _⟩ := splitElem_mem hp h.runs_ne
  have hlen : e'.runs.length ≤ e.runs.length := by
    cases mr with
    | none => simp only [splitElem, List.mem_singleton] at hp; subst hp; exact Nat.le_refl _
    | some k =>
      simp only [splitElem, List.mem_map] at hp
      obtain ⟨c, hc, rfl⟩ := hp
      have := (List.sublist_flatten_of_mem hc).length_le
      rw [piecesOf_flatten] at this
      simpa using this
  refine ⟨⟨h3, by rw [h1]; exact h.pre_ok, by rw [h2]; exact h.suf_ok, ?_, ?_⟩, hlen⟩
  · intro r hr hs
    rw [h1, h2]
    exact h.single_ok r (h4 r hr) hs
  · rcases h.runs_or with ⟨hl, hall⟩ | hf
    · exact Or.inl ⟨Nat.le_trans hlen hl, fun r hr => hall r (h4 r hr)⟩
    · exact Or.inr fun r hr => hf r (h4 r hr)

/-! ### the words are well formed and inside the parser theorem's domain -/

theorem allDig_digits {s : Str} (h : AllDig s) (hne : s ≠ []) : Spec.digits s = true := by
  unfold Spec.digits
  simp only [Bool.and_eq_true, Bool.not_eq_eq_eq_not, Bool.not_true, List.isEmpty_eq_false_iff,
    List.all_eq_true]
  exact ⟨hne, fun c hc => h c hc⟩

theorem toRange_lo (r : Run) : r.toRange.lo = r.lo := by
  simp [Spec.Range.lo, Run.toRange, Run.lo, val_eq]

theorem toRange_hi (r : Run) : r.toRange.hi = r.hi := by
  obtain ⟨s, stop⟩ := r
  cases stop <;> simp [Spec.Range.hi, Run.toRange, Run.hi, val_eq]

theorem range_wf (m : Nat) (hm16 : m ≤ Spec.RANGE_LIMIT) (r : Run) (h : RunFacts m r) :
    r.toRange.WF = true := by
  have h1 : Spec.digits r.start = true := allDig_digits h.dig h.ne
  have h3 := h.le
  have h4 : r.hi - r.lo < Spec.RANGE_LIMIT := Nat.lt_of_lt_of_le h.span hm16
  have h5 : r.hi < 2 ^ 64 := by
    have := h.hi64
    simp only [ULONG_MAX] at this
    omega
  unfold Spec.Range.WF
  rw [toRange_lo, toRange_hi]
  cases hs : r.stop with
  | none => simp [Run.toRange, hs, h1, h3, h4, h5]
  | some x =>
    have h2 : Spec.digits x = true := allDig_digits (h.stop x hs).1 (h.stop x hs).2
    simp [Run.toRange, hs, h1, h2, h3, h4, h5]

theorem word_wf (m : Nat) (hm16 : m ≤ Spec.RANGE_LIMIT) (e : Elem) (h : ElemOK m e) :
    e.toWord.WF = true := by
  unfold Elem.toWord
  split
  · rename_i hb
    have hr := h.runs_ok hb
    simp only [Spec.Word.WF, Spec.groupWF, Bool.and_eq_true, Bool.not_eq_eq_eq_not, Bool.not_true,
      List.isEmpty_eq_false_iff, decide_eq_true_eq, List.length_map, and_true]
    refine ⟨⟨h.pre_ok.1, ⟨⟨?_, h.count⟩, ?_⟩⟩, h.suf_ok.1⟩
    · intro h0
      exact h.runs_ne (List.map_eq_nil_iff.mp h0)
    · rw [List.all_eq_true]
      intro x hx
      obtain ⟨r, hrm, rfl⟩ := List.mem_map.mp hx
      exact range_wf m hm16 r (hr r hrm)
  · rename_i hb
    have hp := h.plain_ok (by simpa using hb)
    simp only [Spec.Word.WF, Bool.and_eq_true, Bool.not_eq_eq_eq_not, Bool.not_true,
      List.isEmpty_eq_false_iff]
    exact ⟨hp.1, hp.2.1⟩

theorem word_dom (cfg : Cfg) (m : Nat) (e : Elem) (h : ElemOK m e) : wordDom cfg e.toWord := by
  unfold Elem.toWord
  split
  · rename_i hb
    have hr := h.runs_ok hb
    simp only [wordDom]
    refine ⟨?_, ?_⟩
    · intro x hx
      obtain ⟨r, hrm, rfl⟩ := List.mem_map.mp hx
      rw [toRange_hi]; exact (hr r hrm).hi64
    · intro x hx
      obtain ⟨r, hrm, rfl⟩ := List.mem_map.mp hx
      right
      unfold fitsHostBuf
      rw [toRange_hi]
      have hnd : ndig r.hi ≤ 20 := ndig_le_of_lt_pow (by decide) (by
        have := (hr r hrm).hi64
        simp only [ULONG_MAX] at this
        omega)
      have h1 := h.pre_ok.2
      have h2 := h.suf_ok.2
      have h3 := (hr r hrm).len
      simp only [Run.toRange, Spec.renderTail, List.append_nil, HOSTBUF]
      omega
  · rename_i hb
    have hp := h.plain_ok (by simpa using hb)
    simp only [wordDom, CURTOK]
    right
    omega

/-- HEADER_EXPANDS.  For every group of hosts in C19's domain, every variant `cfg` of hostlist.c
(as found, probed, repaired), every range limit `m ≤ 16384` of the repaired comp, and every order
`gs` of the suffix groups (Perl hash order): the parser `hostlist_create` applied to the header
TEXT dshbak prints succeeds, and the list it builds denotes exactly the hosts of the group (as a
multiset).  `hsize`: the group has at most 10240 hosts, or F19-MANYRANGES is repaired (at most
`k ≤ 10240` range elements per bracket) — then there is no bound on the size of the group. -/
theorem create_header (cfg : Cfg) (m : Nat) (hm : 0 < m) (hm16 : m ≤ Spec.RANGE_LIMIT)
    (mr : Option Nat) (g : List Str) (hd : HeaderDom g)
    (hsize : g.length ≤ Spec.RANGES_LIMIT ∨ ∃ k, mr = some k ∧ 0 < k ∧ k ≤ Spec.RANGES_LIMIT)
    (gs : List (List Elem)) (hgs : gs.Perm (compressV (some m) mr true g)) :
    ∃ h, create cfg (renderHeader gs) = .ok h ∧ h.Good ∧ h.hosts.Perm g := by
  have hok : ∀ e ∈ gs.flatten, ElemOK m e := by
    intro e' he'
    obtain ⟨grp, hgrp, heg⟩ := List.mem_flatten.mp he'
    have hgrp' : grp ∈ rechunk mr (compressGroupsFixed (some m) g) := by
      have := hgs.subset hgrp
      simpa [compressV] using this
    obtain ⟨g0, hg0, e, he, hsp⟩ := mem_rechunk hgrp' heg
    obtain ⟨hfull, hcnt⟩ := compress_elems_full m hm g hd g0 hg0 e he
    obtain ⟨hfull', hlen⟩ := full_piece m mr e e' hfull hsp
    apply full_to_ok m e' hfull'
    rcases hsize with hs | ⟨k, hk, hpos, hle⟩
    · omega
    · have := (splitElem_mem hsp hfull.runs_ne).2.2.2.2 k hk hpos
      omega
  have hitem : ∀ p ∈ itemsOf gs.flatten, ∃ e ∈ gs.flatten, p.1 = e.toWord := by
    intro p hp
    have : p.1 ∈ (itemsOf gs.flatten).map (·.1) := List.mem_map.mpr ⟨p, hp, rfl⟩
    rw [items_words] at this
    obtain ⟨e, he, heq⟩ := List.mem_map.mp this
    exact ⟨e, he, heq.symm⟩
  obtain ⟨h, h1, h2, h3, _⟩ := PdshVerif.C01.create_render cfg [] (itemsOf gs.flatten) (by simp)
    (sepsOK_items _)
    (fun p hp => by obtain ⟨e, he, hpe⟩ := hitem p hp; rw [hpe]; exact word_wf m hm16 e (hok e he))
    (fun p hp => by obtain ⟨e, he, hpe⟩ := hitem p hp; rw [hpe]; exact word_dom cfg m e (hok e he))
  refine ⟨h, by rw [renderHeader_eq]; exact h1, h2, ?_⟩
  rw [h3, items_words]
  have hexp : Spec.expand₁ (gs.flatten.map Elem.toWord) = hostsOf gs := by
    unfold Spec.expand₁ hostsOf
    rw [List.flatMap_map]
    exact flatMap_congr' _ fun e he =>
      expand_toWord e (hok e he).runs_ne fun hb r hr =>
        ⟨((hok e he).runs_ok hb r hr).dig, ((hok e he).runs_ok hb r hr).ne⟩
  rw [hexp]
  have hperm : (hostsOf gs).Perm (hostsOf (compressV (some m) mr true g)) := by
    unfold hostsOf
    exact (hgs.flatten).flatMap_right _
  refine hperm.trans ?_
  simp only [compressV, if_true, hostsOf_rechunk]
  exact compress_fixed_denotes (some m) g hd.nodup _ (List.Perm.refl _)

end PdshVerif.Dshbak
