import PdshVerif.Dshbak.Model
import PdshVerif.Dshbak.Spec

/-! the line matcher recovers formatted records; `%lines` holds each tag's bodies in order -/
namespace PdshVerif.Dshbak

/-- a labelled line as pdsh (or anybody) may write it: blanks, label, blanks, colon, optionally
one blank, body -/
structure FRec where
  lead : Str
  tag : Str
  mid : Str
  sp : Bool
  body : Str

def FRec.line (r : FRec) : Str :=
  r.lead ++ (r.tag ++ (r.mid ++ ':' :: (if r.sp then ' ' :: r.body else r.body)))

structure FRec.WF (r : FRec) : Prop where
  tag_ne : r.tag ≠ []
  tag_ok : ∀ c ∈ r.tag, isSpace c = false ∧ c ≠ ':'
  lead_ok : ∀ c ∈ r.lead, isSpace c = true
  mid_ok : ∀ c ∈ r.mid, isSpace c = true
  /-- without the separating blank a body must not itself start with a blank (it would be eaten) -/
  sp_ok : r.sp = false → r.body.head? ≠ some ' '

theorem dropWhile_spaces_append {ws : Str} (h : ∀ c ∈ ws, isSpace c = true) {c : Char} {r : Str}
    (hc : isSpace c = false) : (ws ++ c :: r).dropWhile isSpace = c :: r := by
  induction ws with
  | nil => simp [hc]
  | cons a ws ih =>
    simp only [List.cons_append, List.dropWhile_cons, h a (by simp), if_true]
    exact ih fun x hx => h x (by simp [hx])

theorem afterBlanksColon_mid {ws : Str} (h : ∀ c ∈ ws, isSpace c = true) (rest : Str) :
    afterBlanksColon (ws ++ ':' :: rest) = some rest := by
  unfold afterBlanksColon
  rw [dropWhile_spaces_append h (by decide)]
  rfl

theorem afterBlanksColon_nonblank {c : Char} {r : Str} (h1 : isSpace c = false) (h2 : c ≠ ':') :
    afterBlanksColon (c :: r) = none := by
  unfold afterBlanksColon
  simp only [List.dropWhile_cons, h1]
  split
  · rename_i heq; simp at heq; exact absurd heq.1 h2
  · rfl

theorem scanTag_tag : ∀ (t : Str), t ≠ [] → (∀ c ∈ t, isSpace c = false ∧ c ≠ ':') →
    ∀ (ws : Str), (∀ c ∈ ws, isSpace c = true) → ∀ rest,
    scanTag (t ++ (ws ++ ':' :: rest)) = some (t, rest)
  | [], h, _, _, _, _ => absurd rfl h
  | [c], _, hok, ws, hws, rest => by
    simp only [List.cons_append, List.nil_append, scanTag, (hok c (by simp)).1]
    simp [afterBlanksColon_mid hws]
  | c :: d :: t, _, hok, ws, hws, rest => by
    have ih := scanTag_tag (d :: t) (by simp) (fun x hx => hok x (by simp [hx])) ws hws rest
    simp only [List.cons_append] at ih ⊢
    simp only [scanTag, (hok c (by simp)).1]
    rw [afterBlanksColon_nonblank (hok d (by simp)).1 (hok d (by simp)).2]
    simp only [scanTag] at ih
    simp [ih]

/-- the matcher recovers label and body of every well-formed labelled line -/
theorem matchLine_formatted (rep : Bool) (r : FRec) (h : r.WF) :
    matchLine rep (r.line, true) = some (r.tag, r.body) := by
  obtain ⟨lead, tag, mid, sp, body⟩ := r
  obtain ⟨h1, h2, h3, h4, h5⟩ := h
  simp only at h1 h2 h3 h4 h5
  cases tag with
  | nil => exact absurd rfl h1
  | cons c t =>
    simp only [matchLine, FRec.line, Bool.not_true, Bool.false_and, Bool.false_eq_true, if_false]
    rw [List.cons_append, dropWhile_spaces_append h3 (h2 c (by simp)).1, ← List.cons_append,
      scanTag_tag (c :: t) (by simp) h2 mid h4]
    cases sp with
    | true => simp [dropOneSpace]
    | false =>
      simp only [Option.map_some, Bool.false_eq_true, if_false]
      have : dropOneSpace body = body := by
        unfold dropOneSpace
        split
        · exact absurd rfl (h5 rfl)
        · rfl
      rw [this]

theorem afterBlanksColon_noColon {s : Str} (h : ':' ∉ s) : afterBlanksColon s = none := by
  unfold afterBlanksColon
  split
  · rename_i r heq
    have : ':' ∈ s.dropWhile isSpace := by rw [heq]; simp
    exact absurd ((List.dropWhile_sublist _).subset this) h
  · rfl

theorem scanTag_noColon : ∀ {s : Str}, ':' ∉ s → scanTag s = none
  | [], _ => rfl
  | c :: r, h => by
    have hr : ':' ∉ r := fun hx => h (by simp [hx])
    simp only [scanTag]
    split
    · rfl
    · rw [afterBlanksColon_noColon hr, scanTag_noColon hr]; rfl

/-- a line without a colon carries no label and is ignored -/
theorem matchLine_noColon (rep : Bool) {l : Str} (h : ':' ∉ l) (b : Bool) : matchLine rep (l, b) = none := by
  unfold matchLine
  split
  · rfl
  · have : ':' ∉ l.dropWhile isSpace := fun hx => h ((List.dropWhile_sublist _).subset hx)
    rw [scanTag_noColon this]; rfl

/-! ### the converse: what a matched line looks like -/

theorem mem_takeWhile_true {q : Char → Bool} : ∀ {l : Str} {x : Char}, x ∈ l.takeWhile q → q x = true
  | [], _, h => by simp at h
  | a :: l, x, h => by
    simp only [List.takeWhile_cons] at h
    split at h
    · simp only [List.mem_cons] at h
      rcases h with rfl | h
      · assumption
      · exact mem_takeWhile_true h
    · simp at h

theorem afterBlanksColon_some {s rest : Str} (h : afterBlanksColon s = some rest) :
    ∃ mid, s = mid ++ ':' :: rest ∧ ∀ c ∈ mid, isSpace c = true := by
  unfold afterBlanksColon at h
  split at h
  · rename_i r heq
    simp only [Option.some.injEq] at h
    subst h
    exact ⟨s.takeWhile isSpace, by rw [← heq, List.takeWhile_append_dropWhile],
      fun c hc => mem_takeWhile_true hc⟩
  · simp at h

theorem scanTag_some : ∀ {s t rest : Str}, scanTag s = some (t, rest) →
    ∃ mid, s = t ++ (mid ++ ':' :: rest) ∧ t ≠ [] ∧ (∀ c ∈ t, isSpace c = false) ∧
      (∀ c ∈ mid, isSpace c = true)
  | [], _, _, h => by simp [scanTag] at h
  | c :: r, t, rest, h => by
    simp only [scanTag] at h
    split at h
    · simp at h
    · rename_i hc
      have hc' : isSpace c = false := by simpa using hc
      split at h
      · rename_i rest' hab
        simp only [Option.some.injEq, Prod.mk.injEq] at h
        obtain ⟨rfl, rfl⟩ := h
        obtain ⟨mid, hm, hsp⟩ := afterBlanksColon_some hab
        exact ⟨mid, by rw [hm]; rfl, by simp, by simpa using hc', hsp⟩
      · cases hs : scanTag r with
        | none => rw [hs] at h; simp at h
        | some tr =>
          rw [hs] at h
          simp only [Option.map_some, Option.some.injEq, Prod.mk.injEq] at h
          obtain ⟨rfl, rfl⟩ := h
          obtain ⟨mid, hm, hne, hns, hsp⟩ := scanTag_some (t := tr.1) (rest := tr.2) (by rw [hs])
          refine ⟨mid, by rw [hm]; rfl, by simp, ?_, hsp⟩
          intro x hx
          simp only [List.mem_cons] at hx
          rcases hx with rfl | hx
          · exact hc'
          · exact hns x hx

/-- every line the matcher accepts has the shape blanks, tag, blanks, colon, rest: the tag is a
non-empty run of non-blanks and the body is the rest minus one optional blank -/
theorem matchLine_some {rep : Bool} {l t b : Str} (h : matchLine rep (l, true) = some (t, b)) :
    ∃ lead mid rest, l = lead ++ (t ++ (mid ++ ':' :: rest)) ∧ b = dropOneSpace rest ∧ t ≠ [] ∧
      (∀ c ∈ lead, isSpace c = true) ∧ (∀ c ∈ t, isSpace c = false) ∧ (∀ c ∈ mid, isSpace c = true) := by
  simp only [matchLine, Bool.not_true, Bool.false_and, Bool.false_eq_true, if_false] at h
  cases hs : scanTag (l.dropWhile isSpace) with
  | none => rw [hs] at h; simp at h
  | some tr =>
    rw [hs] at h
    simp only [Option.map_some, Option.some.injEq, Prod.mk.injEq] at h
    obtain ⟨rfl, rfl⟩ := h
    obtain ⟨mid, hm, hne, hns, hsp⟩ := scanTag_some (t := tr.1) (rest := tr.2) (by rw [hs])
    exact ⟨l.takeWhile isSpace, mid, tr.2, by rw [← hm, List.takeWhile_append_dropWhile], rfl, hne,
      fun c hc => mem_takeWhile_true hc, hns, hsp⟩

/-! ### `%lines` -/

theorem assoc_pushKey : ∀ (m : Tab) (k v t : Str),
    assoc (pushKey m k v) t = if k = t then some ((assoc m t).getD [] ++ [v]) else assoc m t
  | [], k, v, t => by
    simp only [pushKey, assoc]
    split <;> simp
  | (k', vs) :: r, k, v, t => by
    by_cases hk : k' = k
    · subst hk
      simp only [pushKey, if_true, assoc]
      split <;> simp
    · simp only [pushKey, if_neg hk, assoc, assoc_pushKey r k v t]
      by_cases h1 : k' = t
      · subst h1; simp [Ne.symm hk]
      · simp [h1]

theorem get_pushKey (m : Tab) (k v t : Str) :
    get (pushKey m k v) t = if k = t then get m t ++ [v] else get m t := by
  simp only [get, assoc_pushKey]
  split <;> simp

/-- the body a line contributes to tag `t` -/
def bodyFor (rep : Bool) (t : Str) (l : Str × Bool) : Option Str :=
  match matchLine rep l with
  | some tb => if tb.1 = t then some tb.2 else none
  | none => none

theorem get_foldl (rep : Bool) (t : Str) : ∀ (ls : List (Str × Bool)) (m : Tab),
    get (ls.foldl (processStep rep) m) t = get m t ++ ls.filterMap (bodyFor rep t)
  | [], m => by simp
  | l :: ls, m => by
    simp only [List.foldl_cons, get_foldl rep t ls, List.filterMap_cons]
    unfold processStep bodyFor
    cases hm : matchLine rep l with
    | none => simp
    | some tb =>
      obtain ⟨t', b⟩ := tb
      simp only [get_pushKey]
      split <;> simp

theorem keys_pushKey : ∀ (m : Tab) (k v : Str),
    keys (pushKey m k v) = if k ∈ keys m then keys m else keys m ++ [k]
  | [], k, v => by simp [pushKey, keys]
  | (k', vs) :: r, k, v => by
    by_cases hk : k' = k
    · subst hk; simp [pushKey, keys]
    · have ih := keys_pushKey r k v
      simp only [keys] at ih
      simp only [pushKey, if_neg hk, keys, List.map_cons, ih, List.mem_cons, Ne.symm hk, false_or]
      split <;> simp_all

theorem keys_nodup_foldl (rep : Bool) : ∀ (ls : List (Str × Bool)) (m : Tab),
    (keys m).Nodup → (keys (ls.foldl (processStep rep) m)).Nodup
  | [], _, h => h
  | l :: ls, m, h => by
    simp only [List.foldl_cons]
    apply keys_nodup_foldl rep ls
    unfold processStep
    split
    · rw [keys_pushKey]
      split
      · exact h
      · rename_i hk
        exact List.nodup_append.mpr ⟨h, by simp, fun a ha b hb => by
          simp only [List.mem_singleton] at hb; subst hb; intro e; subst e; exact hk ha⟩
    · exact h

theorem mem_keys_foldl (rep : Bool) (t : Str) : ∀ (ls : List (Str × Bool)) (m : Tab),
    t ∈ keys (ls.foldl (processStep rep) m) ↔
      t ∈ keys m ∨ ∃ l ∈ ls, ∃ b, matchLine rep l = some (t, b)
  | [], m => by simp
  | l :: ls, m => by
    simp only [List.foldl_cons, mem_keys_foldl rep t ls, List.mem_cons]
    unfold processStep
    cases hm : matchLine rep l with
    | none =>
      simp only
      constructor
      · rintro (h | ⟨l', hl', b, hb⟩)
        · exact Or.inl h
        · exact Or.inr ⟨l', Or.inr hl', b, hb⟩
      · rintro (h | ⟨l', rfl | hl', b, hb⟩)
        · exact Or.inl h
        · rw [hm] at hb; simp at hb
        · exact Or.inr ⟨l', hl', b, hb⟩
    | some tb =>
      obtain ⟨t', b'⟩ := tb
      simp only [keys_pushKey]
      constructor
      · rintro (h | ⟨l', hl', b, hb⟩)
        · split at h
          · exact Or.inl h
          · simp only [List.mem_append, List.mem_singleton] at h
            rcases h with h | rfl
            · exact Or.inl h
            · exact Or.inr ⟨l, Or.inl rfl, b', hm⟩
        · exact Or.inr ⟨l', Or.inr hl', b, hb⟩
      · rintro (h | ⟨l', rfl | hl', b, hb⟩)
        · left; split
          · exact h
          · simp [h]
        · rw [hm] at hb
          simp only [Option.some.injEq, Prod.mk.injEq] at hb
          obtain ⟨rfl, rfl⟩ := hb
          left; split
          · assumption
          · simp
        · exact Or.inr ⟨l', hl', b, hb⟩

/-! ### `while (<>)` -/

theorem readLinesAux_line : ∀ (s acc : Str), '\n' ∉ s → ∀ rest,
    readLinesAux acc (s ++ '\n' :: rest) = (acc.reverse ++ s, true) :: readLinesAux [] rest
  | [], acc, _, rest => by simp [readLinesAux]
  | c :: s, acc, h, rest => by
    have hc : c ≠ '\n' := fun e => h (by simp [e])
    simp only [List.cons_append, readLinesAux, if_neg hc]
    rw [readLinesAux_line s (c :: acc) (fun hx => h (by simp [hx])) rest]
    simp

theorem readLinesAux_last : ∀ (s acc : Str), '\n' ∉ s →
    readLinesAux acc s = if (acc.reverse ++ s).isEmpty then [] else [(acc.reverse ++ s, false)]
  | [], acc, _ => by simp [readLinesAux]
  | c :: s, acc, h => by
    have hc : c ≠ '\n' := fun e => h (by simp [e])
    simp only [readLinesAux, if_neg hc]
    rw [readLinesAux_last s (c :: acc) (fun hx => h (by simp [hx]))]
    simp

/-- the text made of newline-terminated lines is read back as those lines -/
theorem readLines_lines : ∀ (ls : List Str), (∀ l ∈ ls, '\n' ∉ l) → ∀ (last : Str), '\n' ∉ last →
    readLines (ls.flatMap (· ++ ['\n']) ++ last) =
      ls.map (·, true) ++ (if last.isEmpty then [] else [(last, false)])
  | [], _, last, hl => by
    simp only [List.flatMap_nil, List.nil_append, List.map_nil, readLines]
    rw [readLinesAux_last last [] hl]; simp
  | l :: ls, h, last, hl => by
    have ih := readLines_lines ls (fun x hx => h x (by simp [hx])) last hl
    simp only [readLines] at ih ⊢
    simp only [List.flatMap_cons, List.append_assoc, List.cons_append, List.nil_append, List.map_cons]
    rw [readLinesAux_line l [] (h l (by simp))]
    simp [ih]

end PdshVerif.Dshbak
