import PdshVerif.Dshbak.HeaderExpands
import PdshVerif.Dshbak.Input

/-! the explicit, decidable well-formedness predicate on host names under which dshbak's tag regex
and the hostlist parser agree on what a name is -/
namespace PdshVerif.Dshbak
open PdshVerif.Hostlist

/-- a character of a host name: no white space (Perl `\s` would end the tag, blank and tab separate
words for the parser), no `:` (ends the tag), no `,` `[` `]` (parser syntax) -/
def hostChar (c : Char) : Bool := !isSpace c && c != ':' && c != ',' && c != '[' && c != ']'

/-- a host name in C19's domain: non-empty, at most 1000 bytes of `hostChar`s, and the number it
ends in (before a digit-free suffix) is below 2^64-1 -/
def hostNameOK (t : Str) : Bool :=
  !t.isEmpty && t.all hostChar && decide (t.length ≤ 1000) &&
  decide (valOf (splitNum (splitSuffix t).1).2 < ULONG_MAX)

theorem hostChar_text {c : Char} (h : hostChar c = true) : Spec.textChar c = true := by
  simp only [hostChar, isSpace, Bool.and_eq_true, Bool.not_eq_eq_eq_not, Bool.not_true, bne_iff_ne,
    ne_eq, Bool.or_eq_false_iff, beq_eq_false_iff_ne] at h
  obtain ⟨⟨⟨⟨hsp, _⟩, hcom⟩, hob⟩, hcb⟩ := h
  obtain ⟨⟨⟨⟨⟨hblank, htab⟩, _⟩, _⟩, _⟩, _⟩ := hsp
  simp only [Spec.textChar, Bool.and_eq_true, decide_eq_true_eq]
  exact ⟨⟨⟨⟨hcom, hblank⟩, htab⟩, hob⟩, hcb⟩

theorem hostChar_tag {c : Char} (h : hostChar c = true) : isSpace c = false ∧ c ≠ ':' := by
  simp only [hostChar, Bool.and_eq_true, Bool.not_eq_eq_eq_not, Bool.not_true, bne_iff_ne, ne_eq] at h
  exact ⟨h.1.1.1.1, h.1.1.1.2⟩

theorem hostNameOK_spec {t : Str} (h : hostNameOK t = true) :
    t ≠ [] ∧ (∀ c ∈ t, hostChar c = true) ∧ t.length ≤ 1000 ∧
    valOf (splitNum (splitSuffix t).1).2 < ULONG_MAX := by
  simp only [hostNameOK, Bool.and_eq_true, Bool.not_eq_eq_eq_not, Bool.not_true,
    List.isEmpty_eq_false_iff, List.all_eq_true, decide_eq_true_eq] at h
  exact ⟨h.1.1.1, h.1.1.2, h.1.2, h.2⟩

/-- distinct names of the domain form a group `header_expands` applies to -/
theorem headerDom_of_names (g : List Str) (hnd : g.Nodup) (h : ∀ t ∈ g, hostNameOK t = true) :
    HeaderDom g :=
  ⟨hnd, fun t ht => by
      obtain ⟨h1, h2, h3, _⟩ := hostNameOK_spec (h t ht)
      exact ⟨h1, List.all_eq_true.mpr fun c hc => hostChar_text (h2 c hc), h3⟩,
    fun t ht => (hostNameOK_spec (h t ht)).2.2.2⟩

/-- a label of the domain is a label the tag regex recovers -/
theorem frec_tag_ok {r : FRec} (h : hostNameOK r.tag = true) :
    r.tag ≠ [] ∧ ∀ c ∈ r.tag, isSpace c = false ∧ c ≠ ':' :=
  ⟨(hostNameOK_spec h).1, fun c hc => hostChar_tag ((hostNameOK_spec h).2.1 c hc)⟩

/-- the labels of an input made of labelled lines -/
theorem label_is_record {ls : List InLine} {t : Str} (h : t ∈ Spec.labels (recsOf ls)) :
    ∃ r, InLine.labelled r ∈ ls ∧ r.tag = t := by
  simp only [Spec.labels, recsOf, List.mem_map, List.mem_filterMap] at h
  obtain ⟨e, ⟨l, hl, he⟩, rfl⟩ := h
  cases l with
  | labelled r =>
    simp only [Option.some.injEq] at he
    subst he
    exact ⟨r, hl, rfl⟩
  | noise s => simp at he

end PdshVerif.Dshbak
