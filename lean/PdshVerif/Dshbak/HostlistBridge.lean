import PdshVerif.Dshbak.HeaderWF
import PdshVerif.Props.C01

/-! bridge from the header dshbak prints to the hostlist parser model (C01): the header TEXT is the
`Spec.render` of a well-formed C01 expression whose `expand₁` is what the header denotes -/
namespace PdshVerif.Dshbak
open PdshVerif.Hostlist

/-- a range element as a C01 range: low bound as typed, optional high bound -/
def Run.toRange (r : Run) : Spec.Range := ⟨r.start, r.stop⟩

/-- a header element as a C01 word -/
def Elem.toWord (e : Elem) : Spec.Word :=
  if e.bracketed then .br e.pre (e.runs.map Run.toRange) e.suf none else .plain e.render

/-- the words of a header with their separators: a comma between two words, nothing at the end -/
def itemsOf : List Elem → List (Spec.Word × Str)
  | [] => []
  | [e] => [(e.toWord, [])]
  | e :: f :: r => (e.toWord, [',']) :: itemsOf (f :: r)

theorem joinComma_eq : ∀ (l : List Str), Spec.joinComma l = joinWith ',' l
  | [] => rfl
  | [_] => rfl
  | a :: b :: r => by simp only [Spec.joinComma, joinWith, joinComma_eq (b :: r)]

theorem renderRange_toRange (r : Run) : Spec.renderRange r.toRange = r.render := by
  obtain ⟨s, stop⟩ := r
  cases stop <;> simp [Spec.renderRange, Run.toRange, Run.render]

theorem render_toWord (e : Elem) : Spec.renderWord e.toWord = e.render := by
  unfold Elem.toWord
  split
  · rename_i hb
    simp only [Spec.renderWord, Spec.renderGroup, Spec.renderTail, Elem.render, hb, if_true,
      List.append_nil, joinComma_eq, List.map_map]
    have : (Spec.renderRange ∘ Run.toRange) = Run.render := by
      funext r; exact renderRange_toRange r
    rw [this]
  · rfl

theorem render_items : ∀ (es : List Elem),
    Spec.render [] (itemsOf es) = joinWith ',' (es.map Elem.render)
  | [] => rfl
  | [e] => by simp [Spec.render, itemsOf, joinWith, render_toWord]
  | e :: f :: r => by
    have ih := render_items (f :: r)
    simp only [Spec.render, List.nil_append] at ih
    simp only [Spec.render, itemsOf, List.flatMap_cons, List.nil_append, List.map_cons, joinWith,
      render_toWord, ih]
    simp

theorem sepsOK_items : ∀ (es : List Elem), Spec.sepsOK (itemsOf es) = true
  | [] => rfl
  | [_] => by simp [itemsOf, Spec.sepsOK]
  | e :: f :: r => by
    have ih := sepsOK_items (f :: r)
    simp only [itemsOf] at ih ⊢
    cases hr : itemsOf (f :: r) with
    | nil => cases r <;> simp [itemsOf] at hr
    | cons a rest =>
      rw [hr] at ih
      simp only [Spec.sepsOK, ih, Bool.and_true]
      decide

theorem items_words : ∀ (es : List Elem), (itemsOf es).map (·.1) = es.map Elem.toWord
  | [] => rfl
  | [_] => rfl
  | e :: f :: r => by simp only [itemsOf, List.map_cons, items_words (f :: r)]

/-- the header text of the model is the rendering of its words -/
theorem renderHeader_eq (gs : List (List Elem)) :
    renderHeader gs = Spec.render [] (itemsOf gs.flatten) := by
  rw [render_items]; rfl

/-! ### numbers -/

theorem val_eq (s : Str) : Spec.val s = valOf s := by
  unfold Spec.val valOf
  rw [Nat.ofDigitChars_eq_foldl]
  congr 1
  funext a c
  rw [Nat.mul_comm]
  rfl

theorem pad_eq (w n : Nat) : Spec.pad w n = fmtPad w n := rfl

theorem names_toRange (r : Run) (hs : AllDig r.start) (hne : r.start ≠ []) :
    r.toRange.names = r.nums := by
  obtain ⟨s, stop⟩ := r
  cases stop with
  | none =>
    simp only [Spec.Range.names, Spec.Range.lo, Spec.Range.hi, Run.toRange, Run.nums, val_eq]
    have : valOf s + 1 - valOf s = 1 := by omega
    rw [this]
    simp only [List.range'_one, List.map_cons, List.map_nil, pad_eq]
    rw [fmtPad_self hs hne]
  | some e =>
    simp only [Spec.Range.names, Spec.Range.lo, Spec.Range.hi, Run.toRange, Run.nums, val_eq]
    rfl

theorem flatMap_congr' {α β : Type} {f g : α → List β} : ∀ (l : List α), (∀ a ∈ l, f a = g a) →
    l.flatMap f = l.flatMap g
  | [], _ => rfl
  | a :: l, h => by
    simp only [List.flatMap_cons, h a (by simp), flatMap_congr' l fun b hb => h b (by simp [hb])]

/-- what the word denotes at the first level is what the element denotes -/
theorem expand_toWord (e : Elem) (hne : e.runs ≠ [])
    (hr : e.bracketed = true → ∀ r ∈ e.runs, AllDig r.start ∧ r.start ≠ []) :
    e.toWord.expand₁ = e.hosts := by
  unfold Elem.toWord
  split
  · rename_i hb
    have hall := hr hb
    simp only [Spec.Word.expand₁, Spec.renderTail, List.append_nil, Elem.hosts, Spec.groupNames]
    congr 1
    rw [List.flatMap_map]
    exact flatMap_congr' _ fun r hrm => names_toRange r (hall r hrm).1 (hall r hrm).2
  · rename_i hb
    -- one element without a high bound
    obtain ⟨pre, runs, suf⟩ := e
    simp only at hne
    cases runs with
    | nil => exact absurd rfl hne
    | cons r rest =>
      simp only [Elem.bracketed, List.length_cons, Bool.or_eq_true, decide_eq_true_eq, not_or,
        Bool.not_eq_true, Option.isSome_eq_false_iff, Option.isNone_iff_eq_none] at hb
      have hrest : rest = [] := by
        cases rest with
        | nil => rfl
        | cons _ _ => simp at hb
      subst hrest
      obtain ⟨s, stop⟩ := r
      simp only at hb
      obtain ⟨_, rfl⟩ := hb
      simp [Spec.Word.expand₁, Elem.hosts, Elem.render, Elem.bracketed, Run.nums, Run.render, joinWith]

end PdshVerif.Dshbak
