import PdshVerif.Dshbak.CompressLemmas
import PdshVerif.Dshbak.Spec

/-! consequences of the specification predicates -/
namespace PdshVerif.Dshbak.Spec
open PdshVerif.Dshbak

/-- replacing every header's host list by a permutation of it keeps an output admissible -/
theorem CoalescedOk.perm_heads {recs : List Rec} {out : List (List Str × List Str)}
    (h : CoalescedOk recs out) (f : List Str × List Str → List Str)
    (hf : ∀ b ∈ out, (f b).Perm b.1) : CoalescedOk recs (out.map fun b => (f b, b.2)) := by
  have hp : ((out.map fun b => (f b, b.2)).flatMap Prod.fst).Perm (out.flatMap Prod.fst) := by
    rw [List.flatMap_map]
    exact perm_flatMap_congr out hf
  refine ⟨hp.nodup_iff.mpr h.once, fun t ht => hp.mem_iff.mpr (h.all t ht),
    fun t ht => h.only t (hp.mem_iff.mp ht), ?_, ?_, ?_⟩
  · intro blk hb t ht
    obtain ⟨b, hbo, rfl⟩ := List.mem_map.mp hb
    exact h.lines b hbo t ((hf b hbo).mem_iff.mp ht)
  · intro blk hb
    obtain ⟨b, hbo, rfl⟩ := List.mem_map.mp hb
    intro h0
    simp only at h0
    have := (hf b hbo).length_eq
    rw [h0] at this
    exact h.nonempty b hbo (List.eq_nil_of_length_eq_zero this.symm)
  · have : (out.map fun b => (f b, b.2)).map Prod.snd = out.map Prod.snd := by
      simp [List.map_map, Function.comp_def]
    rw [this]; exact h.bodyOnce

theorem eq_of_nodup_map {α β : Type} (f : α → β) : ∀ {l : List α}, (l.map f).Nodup →
    ∀ {a b : α}, a ∈ l → b ∈ l → f a = f b → a = b
  | [], _, _, _, ha, _, _ => by simp at ha
  | x :: l, hnd, a, b, ha, hb, hab => by
    simp only [List.map_cons, List.nodup_cons, List.mem_map, not_exists, not_and] at hnd
    simp only [List.mem_cons] at ha hb
    rcases ha with rfl | ha <;> rcases hb with rfl | hb
    · rfl
    · exact absurd hab.symm (hnd.1 b hb)
    · exact absurd hab (hnd.1 a ha)
    · exact eq_of_nodup_map f hnd.2 ha hb hab

/-- with -c two hosts are under the same header if and only if their outputs are identical -/
theorem CoalescedOk.merged_iff {recs : List Rec} {out : List (List Str × List Str)}
    (h : CoalescedOk recs out) {b₁ b₂ : List Str × List Str} (h₁ : b₁ ∈ out) (h₂ : b₂ ∈ out)
    {t₁ t₂ : Str} (ht₁ : t₁ ∈ b₁.1) (ht₂ : t₂ ∈ b₂.1) :
    b₁ = b₂ ↔ linesOf recs t₁ = linesOf recs t₂ := by
  constructor
  · rintro rfl
    rw [h.lines b₁ h₁ t₁ ht₁, h.lines b₁ h₂ t₂ ht₂]
  · intro e
    apply eq_of_nodup_map Prod.snd h.bodyOnce h₁ h₂
    rw [← h.lines b₁ h₁ t₁ ht₁, ← h.lines b₂ h₂ t₂ ht₂, e]

end PdshVerif.Dshbak.Spec
