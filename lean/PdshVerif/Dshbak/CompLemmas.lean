import PdshVerif.Dshbak.Digits

/-! invariant of `comp`: the range elements built for a prefix denote exactly the numbers seen -/
namespace PdshVerif.Dshbak

def Run.lo (r : Run) : Nat := valOf r.start
def Run.hi (r : Run) : Nat :=
  match r.stop with
  | none => valOf r.start
  | some e => valOf e

/-- the number strings a list of range elements stands for -/
def numsOf (runs : List Run) : List Str := runs.flatMap Run.nums

theorem assoc_mem {α β : Type} [DecidableEq α] {l : List (α × β)} {k : α} {v : β}
    (h : assoc l k = some v) : (k, v) ∈ l := by
  induction l with
  | nil => simp [assoc] at h
  | cons e r ih =>
    obtain ⟨k', v'⟩ := e
    simp only [assoc] at h
    split at h
    · simp only [Option.some.injEq] at h; subst h; subst_vars; simp
    · simp [ih h]

theorem splitNum_append (s : Str) : (splitNum s).1 ++ (splitNum s).2 = s := by
  simp only [splitNum]
  rw [← List.reverse_append, List.takeWhile_append_dropWhile, List.reverse_reverse]

theorem mem_takeWhile_imp' {α : Type} {p : α → Bool} : ∀ {l : List α} {x : α}, x ∈ l.takeWhile p → p x = true
  | [], _, h => by simp at h
  | a :: l, x, h => by
    simp only [List.takeWhile_cons] at h
    split at h
    · simp only [List.mem_cons] at h
      rcases h with rfl | h
      · assumption
      · exact mem_takeWhile_imp' h
    · simp at h

theorem splitNum_allDig (s : Str) : AllDig (splitNum s).2 := by
  intro c hc
  simp only [splitNum, List.mem_reverse] at hc
  exact mem_takeWhile_imp' hc

theorem zpw_cases (n : Str) :
    (zeropadwidth n = 1 ∧ (n = [] ∨ Natural n)) ∨
    (zeropadwidth n = n.length ∧ zeropadwidth n ≠ 1 ∧ n ≠ []) := by
  unfold zeropadwidth
  split
  · right; simp
  · rename_i hno
    left
    refine ⟨rfl, ?_⟩
    cases n with
    | nil => left; rfl
    | cons c r =>
      right
      by_cases hc : c = '0'
      · subst hc
        cases r with
        | nil => left; rfl
        | cons d r' => exact absurd rfl (hno d r')
      · right; exact ⟨c, r, rfl, hc⟩

/-! ### `setStop` -/

theorem getElem?_setStop_eq : ∀ {l : List Run} {i : Nat} {n : Str} {r : Run}, l[i]? = some r →
    (setStop l i n)[i]? = some { r with stop := some n }
  | [], _, _, _, h => by simp at h
  | a :: rs, 0, n, r, h => by simp at h; subst h; simp [setStop]
  | a :: rs, i + 1, n, r, h => by
    simp only [List.getElem?_cons_succ] at h
    simp [setStop, getElem?_setStop_eq h]

theorem getElem?_setStop_ne : ∀ {l : List Run} {i j : Nat} {n : Str}, j ≠ i →
    (setStop l i n)[j]? = l[j]?
  | [], _, _, _, _ => by simp [setStop]
  | a :: rs, 0, j, n, h => by
    cases j with
    | zero => exact absurd rfl h
    | succ j => simp [setStop]
  | a :: rs, i + 1, j, n, h => by
    cases j with
    | zero => simp [setStop]
    | succ j => simp [setStop, getElem?_setStop_ne (l := rs) (i := i) (j := j) (n := n) (by omega)]

theorem mem_setStop : ∀ {l : List Run} {i : Nat} {n : Str} {x : Run}, x ∈ setStop l i n →
    x ∈ l ∨ ∃ r, l[i]? = some r ∧ x = { r with stop := some n }
  | [], _, _, _, h => by simp [setStop] at h
  | a :: rs, 0, n, x, h => by
    simp only [setStop, List.mem_cons] at h
    rcases h with h | h
    · right; exact ⟨a, by simp, h⟩
    · left; simp [h]
  | a :: rs, i + 1, n, x, h => by
    simp only [setStop, List.mem_cons] at h
    rcases h with h | h
    · left; simp [h]
    · rcases mem_setStop h with h' | ⟨r, hr, hx⟩
      · left; simp [h']
      · right; exact ⟨r, by simpa using hr, hx⟩

theorem numsOf_setStop : ∀ {l : List Run} {i : Nat} {n : Str} {r : Run} {extra : List Str},
    l[i]? = some r → Run.nums { r with stop := some n } = Run.nums r ++ extra →
    (numsOf (setStop l i n)).Perm (numsOf l ++ extra)
  | [], _, _, _, _, h, _ => by simp at h
  | a :: rs, 0, n, r, extra, h, hx => by
    simp at h; subst h
    simp only [setStop, numsOf, List.flatMap_cons, hx, List.append_assoc]
    exact List.Perm.append_left _ List.perm_append_comm
  | a :: rs, i + 1, n, r, extra, h, hx => by
    simp only [List.getElem?_cons_succ] at h
    have ih := numsOf_setStop (l := rs) h hx
    simp only [setStop, numsOf, List.flatMap_cons, List.append_assoc] at ih ⊢
    exact List.Perm.append_left _ ih

/-! ### the per-prefix invariant -/

structure PInv (p : Str) (st : PState) (L : List Str) : Prop where
  starts : ∀ r ∈ st.runs, AllDig r.start ∧ p ++ r.start ∈ L ∧ splitNum (p ++ r.start) = (p, r.start)
  stops : ∀ r ∈ st.runs, ∀ e, r.stop = some e → r.start ≠ [] ∧ r.lo ≤ valOf e
  ends : ∀ r ∈ st.runs, ∀ e, r.stop = some e →
    AllDig e ∧ e ≠ [] ∧ p ++ e ∈ L ∧ splitNum (p ++ e) = (p, e)
  idx_ok : ∀ c w i, ((c, w), i) ∈ st.idx → ∃ r, st.runs[i]? = some r ∧ ∃ w' : Nat, w = (w' : Int) ∧
    r.lo ≤ w' ∧ w' ≤ r.hi ∧ (c = 1 → r.start.length ≤ (Nat.toDigits 10 w').length) ∧
    (c ≠ 1 → r.start.length = c)

theorem PInv.mono {p st L L'} (h : PInv p st L) (hs : ∀ x ∈ L, x ∈ L') : PInv p st L' :=
  ⟨fun r hr => ⟨(h.starts r hr).1, hs _ (h.starts r hr).2.1, (h.starts r hr).2.2⟩, h.stops,
    fun r hr e he => ⟨(h.ends r hr e he).1, (h.ends r hr e he).2.1, hs _ (h.ends r hr e he).2.2.1,
      (h.ends r hr e he).2.2.2⟩, h.idx_ok⟩

theorem PInv.empty (p L) : PInv p PState.empty L :=
  ⟨by simp [PState.empty], by simp [PState.empty], by simp [PState.empty], by simp [PState.empty]⟩

theorem findIdx_lookup {lim : Option Nat} {st : PState} {n : Str} {i : Nat}
    (h : findIdx lim st n = some i) : lookupIdx st n = some i := by
  unfold findIdx at h
  split at h
  · rename_i j hj
    split at h
    · simp only [Option.some.injEq] at h
      rw [← h]; exact hj
    · simp at h
  · simp at h

theorem findIdx_some {st : PState} {n : Str} {i : Nat} (h : lookupIdx st n = some i) :
    ∃ c, ((c, (valOf n : Int) - 1), i) ∈ st.idx ∧
      (c = zeropadwidth n ∨ (zeropadwidth n = 1 ∧ c = n.length)) := by
  unfold lookupIdx at h
  simp only at h
  split at h
  · rename_i j hj
    simp only [Option.some.injEq] at h; subst h
    exact ⟨_, assoc_mem hj, Or.inl rfl⟩
  · split at h
    · rename_i hz
      exact ⟨_, assoc_mem h, Or.inr ⟨hz, rfl⟩⟩
    · simp at h

theorem nums_none (s : Str) : Run.nums ⟨s, none⟩ = [s] := rfl

/-- extending a range element by the next number appends exactly that number's string -/
theorem nums_extend {r : Run} {n : Str} (hs : AllDig r.start) (hne : r.start ≠ [])
    (hstop : ∀ e, r.stop = some e → r.lo ≤ valOf e)
    (hv : valOf n = r.hi + 1) (hfmt : fmtPad r.start.length (valOf n) = n) :
    Run.nums { r with stop := some n } = Run.nums r ++ [n] := by
  obtain ⟨s, stop⟩ := r
  cases stop with
  | none =>
    simp only [Run.hi] at hv
    simp only [Run.nums, hv]
    have : valOf s + 1 + 1 - valOf s = 1 + 1 := by omega
    rw [this, List.range'_concat]
    simp only [List.range'_one, List.map_cons, List.map_nil, Nat.one_mul,
      List.cons_append, List.nil_append]
    rw [fmtPad_self hs hne, ← hv, hfmt]
  | some e =>
    have hle := hstop e rfl
    simp only [Run.hi] at hv
    simp only [Run.lo] at hle
    simp only [Run.nums, hv]
    have : valOf e + 1 + 1 - valOf s = (valOf e + 1 - valOf s) + 1 := by omega
    rw [this, List.range'_concat, List.map_append]
    congr 1
    simp only [List.map_cons, List.map_nil, Nat.one_mul]
    have : valOf s + (valOf e + 1 - valOf s) = valOf n := by omega
    rw [this, hfmt]

theorem mem_nums_of_range {r : Run} {e : Str} (hr : r.stop = some e) {v : Nat}
    (h1 : r.lo ≤ v) (h2 : v ≤ r.hi) : fmtPad r.start.length v ∈ Run.nums r := by
  obtain ⟨s, stop⟩ := r
  simp only at hr; subst hr
  simp only [Run.nums, List.mem_map, List.mem_range'_1]
  simp only [Run.lo, Run.hi] at h1 h2
  exact ⟨v, ⟨h1, by omega⟩, rfl⟩

/-- the step of `comp` for one prefix: the new number is added to what the elements denote,
nothing else changes, and the invariant is kept -/
theorem stepP_spec (lim : Option Nat) (p n : Str) (st : PState) (L : List Str) (inv : PInv p st L)
    (hmem : ∀ x ∈ numsOf st.runs, p ++ x ∈ L)
    (hn : AllDig n) (hsplit : splitNum (p ++ n) = (p, n)) (hnew : p ++ n ∉ L)
    (hne : ∀ r ∈ st.runs, r.start ≠ []) :
    (numsOf (stepP lim st n).runs).Perm (numsOf st.runs ++ [n]) ∧ PInv p (stepP lim st n) (L ++ [p ++ n]) := by
  have inv' : PInv p st (L ++ [p ++ n]) := inv.mono (fun x hx => by simp [hx])
  unfold stepP
  simp only
  cases hfi : findIdx lim st n with
  | none =>
    simp only
    refine ⟨by simp [numsOf, List.flatMap_append, nums_none], ?_, ?_, ?_, ?_⟩
    · intro r hr
      simp only [List.mem_append, List.mem_singleton] at hr
      rcases hr with hr | rfl
      · exact inv'.starts r hr
      · exact ⟨hn, by simp, hsplit⟩
    · intro r hr e he
      simp only [List.mem_append, List.mem_singleton] at hr
      rcases hr with hr | rfl
      · exact inv.stops r hr e he
      · simp at he
    · intro r hr e he
      simp only [List.mem_append, List.mem_singleton] at hr
      rcases hr with hr | rfl
      · exact inv'.ends r hr e he
      · simp at he
    · intro c w i hi
      simp only [List.mem_cons, Prod.mk.injEq] at hi
      rcases hi with ⟨⟨rfl, rfl⟩, rfl⟩ | hi
      · refine ⟨⟨n, none⟩, by simp, valOf n, rfl, Nat.le_refl _, Nat.le_refl _, ?_, ?_⟩
        · intro hz
          rcases zpw_cases n with ⟨_, rfl | hnat⟩ | ⟨_, h2, _⟩
          · simp
          · simp [natural_length hn hnat]
          · exact absurd hz h2
        · intro hz
          rcases zpw_cases n with ⟨h1, _⟩ | ⟨h1, _, _⟩
          · exact absurd h1 hz
          · simp [h1]
      · obtain ⟨r, hr, rest⟩ := inv.idx_ok c w i hi
        refine ⟨r, ?_, rest⟩
        have : i < st.runs.length := by
          rcases Nat.lt_or_ge i st.runs.length with h | h
          · exact h
          · rw [List.getElem?_eq_none h] at hr; simp at hr
        rw [List.getElem?_append_left this]; exact hr
  | some i =>
    simp only
    obtain ⟨c, hci, hc⟩ := findIdx_some (findIdx_lookup hfi)
    obtain ⟨r, hr, w', hw, hlo, hhi, hw1, hw2⟩ := inv.idx_ok c _ i hci
    have hv : valOf n = w' + 1 := by omega
    have hrmem : r ∈ st.runs := List.mem_of_getElem? hr
    have hrs := inv.starts r hrmem
    have hrne : r.start ≠ [] := hne r hrmem
    have hnne : n ≠ [] := by intro h; rw [h, valOf_nil] at hv; omega
    -- the width facts
    have hW : fmtPad r.start.length (valOf n) = n ∧
        (zeropadwidth n = 1 → r.start.length ≤ (Nat.toDigits 10 (valOf n)).length) ∧
        (zeropadwidth n ≠ 1 → r.start.length = zeropadwidth n) := by
      rcases zpw_cases n with ⟨hz, rfl | hnat⟩ | ⟨hz, hz1, _⟩
      · exact absurd rfl hnne
      · have hlen : r.start.length ≤ n.length := by
          rcases hc with rfl | ⟨_, rfl⟩
          · have := hw1 hz
            have h2 := natlen_mono w'
            rw [← hv, natural_length hn hnat] at h2
            omega
          · by_cases h1 : n.length = 1
            · have := hw1 h1
              have h2 := natlen_mono w'
              rw [← hv, natural_length hn hnat] at h2
              omega
            · rw [hw2 h1]; exact Nat.le_refl _
        refine ⟨fmtPad_of_natural hn hnat hlen, fun _ => ?_, fun h => absurd hz h⟩
        rw [natural_length hn hnat]; exact hlen
      · have hceq : c = zeropadwidth n := by
          rcases hc with h | ⟨h, _⟩
          · exact h
          · exact absurd h hz1
        have hlen : r.start.length = n.length := by rw [hw2 (by rw [hceq]; exact hz1), hceq, hz]
        refine ⟨by rw [hlen]; exact fmtPad_self hn hnne, fun h => absurd h hz1, fun _ => by rw [hlen, hz]⟩
    -- the element found ends exactly at valOf n - 1
    have hhi' : r.hi = w' := by
      rcases Nat.lt_or_ge w' r.hi with hlt | hge
      · exfalso
        cases hstop : r.stop with
        | none => simp only [Run.hi, hstop] at hlt; simp only [Run.lo] at hlo; omega
        | some e =>
          have := mem_nums_of_range hstop (v := valOf n) (by omega) (by omega)
          rw [hW.1] at this
          exact hnew (hmem n (List.mem_flatMap.mpr ⟨r, hrmem, this⟩))
      · omega
    have hext : Run.nums { r with stop := some n } = Run.nums r ++ [n] :=
      nums_extend hrs.1 hrne (fun e he => (inv.stops r hrmem e he).2) (by omega) hW.1
    refine ⟨numsOf_setStop hr hext, ?_, ?_, ?_, ?_⟩
    · intro x hx
      rcases mem_setStop hx with hx | ⟨r', hr', rfl⟩
      · exact inv'.starts x hx
      · rw [hr] at hr'; cases hr'
        exact inv'.starts r hrmem
    · intro x hx e he
      rcases mem_setStop hx with hx | ⟨r', hr', rfl⟩
      · exact inv.stops x hx e he
      · rw [hr] at hr'; cases hr'
        have he' : n = e := by simpa using he
        refine ⟨hrne, ?_⟩
        rw [← he']
        show valOf r.start ≤ valOf n
        simp only [Run.lo] at hlo; omega
    · intro x hx e he
      rcases mem_setStop hx with hx | ⟨r', hr', rfl⟩
      · exact inv'.ends x hx e he
      · have he' : n = e := by simpa using he
        rw [← he']
        exact ⟨hn, hnne, by simp, hsplit⟩
    · intro c2 w2 j hj
      simp only [List.mem_cons, Prod.mk.injEq] at hj
      rcases hj with ⟨⟨rfl, rfl⟩, rfl⟩ | hj
      · refine ⟨_, getElem?_setStop_eq hr, valOf n, rfl, ?_, ?_, hW.2.1, hW.2.2⟩
        · show valOf r.start ≤ valOf n
          simp only [Run.lo] at hlo; omega
        · show valOf n ≤ valOf n
          exact Nat.le_refl _
      · obtain ⟨r2, hr2, w2', hw2', hlo2, hhi2, ha, hb⟩ := inv.idx_ok c2 w2 j hj
        by_cases hji : j = i
        · subst hji
          rw [hr] at hr2; cases hr2
          refine ⟨_, getElem?_setStop_eq hr, w2', hw2', hlo2, ?_, ha, hb⟩
          show w2' ≤ valOf n
          omega
        · exact ⟨r2, by rw [getElem?_setStop_ne hji]; exact hr2, w2', hw2', hlo2, hhi2, ha, hb⟩

end PdshVerif.Dshbak
