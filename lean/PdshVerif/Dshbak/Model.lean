/-
Executable model of scripts/dshbak (Perl).  One Lean function per Perl sub, same case splits.

Strings are `List Char` holding bytes (the driver decodes hex into chars 0..255); Perl treats its
input as bytes as well (no `use utf8`, no locale), `\s` = blank, \t, \n, \r, \f, \v (perl >= 5.18),
`\d` = ASCII digits.

What is a *parameter* of the model (Perl leaves it open): the order of `keys %hash`.  Wherever the
script iterates over `keys` the model takes the key order as an argument (`ks`, or a permutation of
the suffix groups); theorems hold for every order, the driver uses first-insertion order and the
check compares modulo that order.

Numbers: Perl converts digit strings to IV/UV exactly below 2^64 (`$n-1`, `<=>`); the model uses
`Nat`/`Int`.  Stated domain: numeric parts of at most 15 digits.
-/
namespace PdshVerif.Dshbak

abbrev Str := List Char

/-- Perl `\s` on byte strings -/
def isSpace (c : Char) : Bool :=
  c == ' ' || c == '\t' || c == '\n' || c == '\r' || c == Char.ofNat 12 || c == Char.ofNat 11

/-- Perl `\d` on byte strings -/
def isDig (c : Char) : Bool := decide ('0' ≤ c) && decide (c ≤ '9')

/-- hash lookup in an association list -/
def assoc {α β : Type} [DecidableEq α] : List (α × β) → α → Option β
  | [], _ => none
  | (k, v) :: r, a => if k = a then some v else assoc r a

/-! ## `while (<>)`: the input cut into lines; the flag says whether the line ended in "\n" -/

def readLinesAux : Str → Str → List (Str × Bool)
  | acc, [] => if acc.isEmpty then [] else [(acc.reverse, false)]
  | acc, c :: r =>
    if c = '\n' then (acc.reverse, true) :: readLinesAux [] r else readLinesAux (c :: acc) r

def readLines (input : Str) : List (Str × Bool) := readLinesAux [] input

/-! ## `m/^\s*(\S+?)\s*: ?(.*\n)$/` -/

/-- `\s*:` at the head of `s`: the text after the colon -/
def afterBlanksColon (s : Str) : Option Str :=
  match s.dropWhile isSpace with
  | ':' :: r => some r
  | _ => none

/-- `(\S+?)\s*:` — the shortest non-blank prefix that is followed by blanks and a colon -/
def scanTag : Str → Option (Str × Str)
  | [] => none
  | c :: r =>
    if isSpace c then none
    else match afterBlanksColon r with
      | some rest => some ([c], rest)
      | none => (scanTag r).map fun tr => (c :: tr.1, tr.2)

/-- ` ?` -/
def dropOneSpace : Str → Str
  | ' ' :: r => r
  | s => s

/-- The tag and the body (without its "\n") of one input line, `none` when the line is ignored.
`(.*\n)$` needs the newline: an unterminated final line never matches (D21).  `repaired = true`
is the behaviour after the proposed patch (a missing final newline is accepted). -/
def matchLine (repaired : Bool) (l : Str × Bool) : Option (Str × Str) :=
  if !l.2 && !repaired then none
  else (scanTag (l.1.dropWhile isSpace)).map fun tr => (tr.1, dropOneSpace tr.2)

/-! ## `%lines`: tag ↦ list of bodies, as an association list in first-insertion order -/

abbrev Tab := List (Str × List Str)

/-- `push(@{$h{$k}}, $v)` -/
def pushKey : Tab → Str → Str → Tab
  | [], k, v => [(k, [v])]
  | (k', vs) :: r, k, v => if k' = k then (k', vs ++ [v]) :: r else (k', vs) :: pushKey r k v

def processStep (repaired : Bool) (m : Tab) (l : Str × Bool) : Tab :=
  match matchLine repaired l with
  | some (t, b) => pushKey m t b
  | none => m

/-- `process_lines` -/
def processLines (repaired : Bool) (ls : List (Str × Bool)) : Tab :=
  ls.foldl (processStep repaired) []

def keys (m : Tab) : List Str := m.map (·.1)

def get (m : Tab) (t : Str) : List Str := (assoc m t).getD []

/-! ## `sortn`, `sort` -/

/-- Perl's `sort` is a stable merge sort.  For a total preorder every stable sort returns the same
list, so the model uses the simplest one (insertion sort, structural recursion: it reduces in the
kernel and is linear on sorted input). -/
def insertBy {α : Type} (le : α → α → Bool) (x : α) : List α → List α
  | [] => [x]
  | y :: ys => if le x y then x :: y :: ys else y :: insertBy le x ys

def stableSort {α : Type} (le : α → α → Bool) : List α → List α
  | [] => []
  | x :: l => insertBy le x (stableSort le l)

def valOf (s : Str) : Nat := s.foldl (fun a c => a * 10 + (c.toNat - 48)) 0

/-- `/(\d*)$/` -/
def trailingDigits (s : Str) : Str := (s.reverse.takeWhile isDig).reverse

/-- `($$a[1]||0)`: the trailing number, 0 when there is none -/
def sortKey (s : Str) : Nat := valOf (trailingDigits s)

/-- `sortn`: `map {$$_[0]} sort {...<=>...} map {[$_,/(\d*)$/]} @_` — the keys are computed once -/
def sortn (l : List Str) : List Str :=
  (stableSort (fun a b : Str × Nat => decide (a.2 ≤ b.2)) (l.map fun s => (s, sortKey s))).map (·.1)

/-- Perl `le` on byte strings -/
def strLe : Str → Str → Bool
  | [], _ => true
  | _ :: _, [] => false
  | a :: as, b :: bs =>
    if a.toNat < b.toNat then true else if b.toNat < a.toNat then false else strLe as bs

/-- `sort` (default string comparison) -/
def strSort (l : List Str) : List Str := stableSort strLe l

/-! ## `do_output_normal`, `do_output_per_file` : one block (one file) per tag -/

/-- `ks` = `keys %lines` in the hash's order -/
def normalBlocks (ks : List Str) (m : Tab) : List (Str × List Str) :=
  (sortn ks).map fun t => (t, get m t)

/-! ## `do_output_coalesced` -/

def sameAs (tag : Str) (body : List Str) (e : Str × List Str) : Bool := e.1 != tag && e.2 == body

/-- One call of `do_output_coalesced($tag)`: state = the hash after the deletions so far and the
blocks printed so far (sorted tag group, body). -/
def coalesceStep (st : Tab × List (List Str × List Str)) (tag : Str) :
    Tab × List (List Str × List Str) :=
  match assoc st.1 tag with
  | none => st
  | some body =>
    let ident := (st.1.filter (sameAs tag body)).map (·.1)
    (st.1.filter (fun e => !sameAs tag body e), st.2 ++ [(strSort (ident ++ [tag]), body)])

def coalesce (ks : List Str) (m : Tab) : List (List Str × List Str) :=
  ((sortn ks).foldl coalesceStep (m, [])).2

/-! ## `compress`, `compress_inner`, `comp`, `zeropadwidth` -/

/-- `/(.*?\d*)(\D*)$/` : (stem, suffix); the suffix is the maximal digit-free tail -/
def splitSuffix (s : Str) : Str × Str :=
  ((s.reverse.dropWhile fun c => !isDig c).reverse, (s.reverse.takeWhile fun c => !isDig c).reverse)

/-- `/(.*?)(\d*)$/` : (prefix, number); the number is the maximal digit tail -/
def splitNum (s : Str) : Str × Str :=
  ((s.reverse.dropWhile isDig).reverse, (s.reverse.takeWhile isDig).reverse)

def zeropadwidth (n : Str) : Nat :=
  match n with
  | '0' :: _ :: _ => n.length
  | _ => 1

/-- one element of `@{$s{$p}}`: `[start]` or `[start, stop]` -/
structure Run where
  start : Str
  stop : Option Str
  deriving DecidableEq, Repr

/-- per prefix: `$s{$p}` and `$i{$p}` (key: zero-pad class and number, latest entry first) -/
structure PState where
  runs : List Run
  idx : List ((Nat × Int) × Nat)
  deriving Repr

def PState.empty : PState := ⟨[], []⟩

/-- `$i{$p}{$zp}{$n-1}`, then (for unpadded numbers) `$i{$p}{length $n}{$n-1}` -/
def lookupIdx (st : PState) (n : Str) : Option Nat :=
  let zp := zeropadwidth n
  let v : Int := (valOf n : Int) - 1
  match assoc st.idx (zp, v) with
  | some i => some i
  | none => if zp = 1 then assoc st.idx (n.length, v) else none

/-- repair of F19-LONGRUN (`lim = some 16384`): a range element is extended only while it spans
fewer than `lim` numbers, `$n - $s{$p}[$idx][0] < lim`; `lim = none` is the unchanged script -/
def withinLim (lim : Option Nat) (st : PState) (n : Str) (i : Nat) : Bool :=
  match lim, st.runs[i]? with
  | some m, some r => decide (valOf n - valOf r.start < m)
  | _, _ => true

/-- `defined $idx [&& ...]` -/
def findIdx (lim : Option Nat) (st : PState) (n : Str) : Option Nat :=
  match lookupIdx st n with
  | some i => if withinLim lim st n i then some i else none
  | none => none

/-- `$s{$p}[$idx][1] = "$n"` -/
def setStop : List Run → Nat → Str → List Run
  | [], _, _ => []
  | r :: rs, 0, n => { r with stop := some n } :: rs
  | r :: rs, i + 1, n => r :: setStop rs i n

/-- body of the `for my $host` loop of `comp`, for the prefix's own state -/
def stepP (lim : Option Nat) (st : PState) (n : Str) : PState :=
  let key : Nat × Int := (zeropadwidth n, (valOf n : Int))
  match findIdx lim st n with
  | some i => ⟨setStop st.runs i n, (key, i) :: st.idx⟩
  | none => ⟨st.runs ++ [⟨n, none⟩], (key, st.runs.length) :: st.idx⟩

/-- `$x{$p}` updated in place, new prefixes appended -/
def upsert (lim : Option Nat) : List (Str × PState) → Str → Str → List (Str × PState)
  | [], p, n => [(p, stepP lim PState.empty n)]
  | (p', st) :: r, p, n => if p' = p then (p', stepP lim st n) :: r else (p', st) :: upsert lim r p n

def compStep (lim : Option Nat) (st : List (Str × PState)) (host : Str) : List (Str × PState) :=
  upsert lim st (splitNum host).1 (splitNum host).2

/-- `comp`: prefix ↦ range elements -/
def comp (lim : Option Nat) (hosts : List Str) : List (Str × List Run) :=
  ((sortn hosts).foldl (compStep lim) []).map fun e => (e.1, e.2.runs)

/-- one host-list element `pre[runs]suf` of a header -/
structure Elem where
  pre : Str
  runs : List Run
  suf : Str
  deriving DecidableEq, Repr

/-- `sort keys %rng` -/
def sortByKey (l : List (Str × List Run)) : List (Str × List Run) :=
  stableSort (fun a b => strLe a.1 b.1) l

/-- `compress_inner` (structured; `Elem.render` gives the text) -/
def compressInner (lim : Option Nat) (stems : List Str) (suf : Str) : List Elem :=
  (sortByKey (comp lim stems)).map fun e => ⟨e.1, e.2, suf⟩

def groupStep (m : Tab) (t : Str) : Tab := pushKey m (splitSuffix t).2 (splitSuffix t).1

/-- `%suffixes` of `compress`, in first-insertion order -/
def suffixGroups (tags : List Str) : Tab := (sortn tags).foldl groupStep []

/-- `compress`: per suffix (insertion order; Perl: hash order) the elements -/
def compressGroups (lim : Option Nat) (tags : List Str) : List (List Elem) :=
  (suffixGroups tags).map fun g => compressInner lim g.2 g.1

/-- a name without any digit: its stem is empty -/
def noStem (t : Str) : Bool := (splitSuffix t).1.isEmpty

/-- `compress` after the repair of F19-EMPTYSTEM: a name without any digit is listed as it is and
never enters `comp` -/
def compressGroupsFixed (lim : Option Nat) (tags : List Str) : List (List Elem) :=
  ((sortn tags).filter noStem).map (fun t => [⟨t, [⟨[], none⟩], []⟩]) ++
    compressGroups lim (tags.filter fun t => !noStem t)

/-- repair of F19-MANYRANGES: `splice (@r, 0, k)` until nothing is left — consecutive pieces of at
most `k` range elements (`acc` = the piece being filled, reversed) -/
def piecesOf (k : Nat) : List Run → List Run → List (List Run)
  | [], acc => if acc.isEmpty then [] else [acc.reverse]
  | r :: rs, acc =>
    if acc.length + 1 = k then (r :: acc).reverse :: piecesOf k rs [] else piecesOf k rs (r :: acc)

/-- the brackets one prefix is printed with: all its range elements in one (`mr = none`, the
unchanged script), or at most `k` per bracket -/
def splitElem (mr : Option Nat) (e : Elem) : List Elem :=
  match mr with
  | none => [e]
  | some k => (piecesOf k e.runs []).map fun c => { e with runs := c }

def rechunk (mr : Option Nat) (gs : List (List Elem)) : List (List Elem) :=
  gs.map fun g => g.flatMap (splitElem mr)

/-- the script's `compress` in the form under test: `stemFix` = F19-EMPTYSTEM repaired,
`lim` = F19-LONGRUN repaired, `mr` = F19-MANYRANGES repaired (all probed on the real script by the
check) -/
def compressV (lim : Option Nat) (mr : Option Nat) (stemFix : Bool) (tags : List Str) : List (List Elem) :=
  rechunk mr (if stemFix then compressGroupsFixed lim tags else compressGroups lim tags)

def Run.render (r : Run) : Str :=
  match r.stop with
  | none => r.start
  | some e => r.start ++ '-' :: e

def joinWith (sep : Char) : List Str → Str
  | [] => []
  | [a] => a
  | a :: b :: r => a ++ sep :: joinWith sep (b :: r)

def Elem.bracketed (e : Elem) : Bool :=
  decide (e.runs.length > 1) || (match e.runs with | r :: _ => r.stop.isSome | [] => false)

def Elem.render (e : Elem) : Str :=
  let body := joinWith ',' (e.runs.map Run.render)
  e.pre ++ (if e.bracketed then '[' :: body ++ [']'] else body) ++ e.suf

/-- header text for the suffix groups in the given order -/
def renderHeader (gs : List (List Elem)) : Str := joinWith ',' (gs.flatten.map Elem.render)

/-! ## The small expander: what a header element denotes.

NOT a model of hostlist.c (that is another agent's area).  It is the reading of the sub-language
dshbak emits — `pre[a-b,c]suf`, numbers printed with "%0*lu" at the width of the lower bound as
typed — and is compared with the real `pdsh -Q -w HEADER` in the check. -/

def fmtPad (w n : Nat) : Str :=
  List.replicate (w - (Nat.toDigits 10 n).length) '0' ++ Nat.toDigits 10 n

def Run.nums (r : Run) : List Str :=
  match r.stop with
  | none => [r.start]
  | some e => (List.range' (valOf r.start) (valOf e + 1 - valOf r.start)).map (fmtPad r.start.length)

def Elem.hosts (e : Elem) : List Str := (e.runs.flatMap Run.nums).map fun n => e.pre ++ n ++ e.suf

def hostsOf (gs : List (List Elem)) : List Str := gs.flatten.flatMap Elem.hosts

end PdshVerif.Dshbak
