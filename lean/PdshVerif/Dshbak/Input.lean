import PdshVerif.Dshbak.LineLemmas

/-! inputs made of labelled lines and noise: what the specification's records are for the model -/
namespace PdshVerif.Dshbak

/-- an input line: a labelled line, or a line without a colon (blank lines, stray text) -/
inductive InLine where
  | labelled (r : FRec)
  | noise (l : Str)

def InLine.text : InLine → Str
  | .labelled r => r.line
  | .noise l => l

def InLine.WF : InLine → Prop
  | .labelled r => r.WF
  | .noise l => ':' ∉ l

/-- the labelled lines of an input, as the specification sees them -/
def recsOf (ls : List InLine) : List (Str × Str) :=
  ls.filterMap fun
    | .labelled r => some (r.tag, r.body)
    | .noise _ => none

/-- `%lines` for an input given line by line (every line newline-terminated) -/
def table (rep : Bool) (ls : List InLine) : Tab := processLines rep (ls.map fun l => (l.text, true))

theorem matchLine_inline (rep : Bool) (l : InLine) (h : l.WF) :
    matchLine rep (l.text, true) = match l with
      | .labelled r => some (r.tag, r.body)
      | .noise _ => none := by
  cases l with
  | labelled r => exact matchLine_formatted rep r h
  | noise s => exact matchLine_noColon rep h true

theorem get_table (rep : Bool) (t : Str) : ∀ (ls : List InLine), (∀ l ∈ ls, l.WF) →
    (ls.map fun l => (l.text, true)).filterMap (bodyFor rep t) = Spec.linesOf (recsOf ls) t
  | [], _ => rfl
  | l :: ls, h => by
    have ih := get_table rep t ls fun x hx => h x (by simp [hx])
    have hl := matchLine_inline rep l (h l (by simp))
    cases l with
    | labelled r =>
      simp only at hl
      simp only [List.map_cons, List.filterMap_cons, bodyFor, hl, recsOf, Spec.linesOf] at ih ⊢
      split <;> simp_all
    | noise s =>
      simp only at hl
      simp only [List.map_cons, List.filterMap_cons, bodyFor, hl, recsOf] at ih ⊢
      exact ih

theorem mem_keys_table (rep : Bool) (t : Str) (ls : List InLine) (h : ∀ l ∈ ls, l.WF) :
    t ∈ keys (table rep ls) ↔ t ∈ Spec.labels (recsOf ls) := by
  unfold table processLines
  rw [mem_keys_foldl]
  simp only [keys, List.map_nil, List.not_mem_nil, false_or, List.mem_map, Spec.labels, recsOf,
    List.mem_filterMap]
  constructor
  · rintro ⟨_, ⟨l, hl, rfl⟩, b, hb⟩
    have := matchLine_inline rep l (h l hl)
    rw [hb] at this
    cases l with
    | labelled r =>
      simp only [Option.some.injEq] at this
      exact ⟨(r.tag, r.body), ⟨_, hl, rfl⟩, by rw [← this]⟩
    | noise s => simp at this
  · rintro ⟨e, ⟨l, hl, he⟩, rfl⟩
    cases l with
    | labelled r =>
      simp only [Option.some.injEq] at he; subst he
      exact ⟨_, ⟨_, hl, rfl⟩, r.body, matchLine_inline rep (.labelled r) (h _ hl)⟩
    | noise s => simp at he

end PdshVerif.Dshbak
