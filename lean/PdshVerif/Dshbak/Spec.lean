/-
C19 specification, written without reference to the model.

The input is a sequence of labelled lines `(label, body)` (the generator knows them by construction;
for the model, `Props/C19.lean` proves that the line matcher recovers them from the text).  The
property leaves the ORDER of blocks open (and dshbak's order depends on Perl's hash seed), so an
output is a list of blocks in any order, and the spec only says which lists are admissible.

For -c a block is (the hosts its header stands for, body): in the check the hosts are obtained by
giving the real header to the real `pdsh -Q -w`; in the theorems by the small expander.
-/
namespace PdshVerif.Dshbak.Spec

abbrev Str := List Char
abbrev Rec := Str × Str

/-- exactly that host's lines in their original order -/
def linesOf (recs : List Rec) (t : Str) : List Str :=
  recs.filterMap fun r => if r.1 = t then some r.2 else none

def labels (recs : List Rec) : List Str := recs.map Prod.fst

/-- report / -d: one block (file) per label of the input, holding exactly its lines in order -/
structure NormalOk (recs : List Rec) (out : List (Str × List Str)) : Prop where
  once : (out.map Prod.fst).Nodup
  all : ∀ t ∈ labels recs, t ∈ out.map Prod.fst
  only : ∀ t ∈ out.map Prod.fst, t ∈ labels recs
  lines : ∀ b ∈ out, b.2 = linesOf recs b.1

/-- -c: every host under exactly one header; a header's body is the output of each of its hosts
(merged ⇒ identical); no body is printed twice (identical ⇒ merged, each body once) -/
structure CoalescedOk (recs : List Rec) (out : List (List Str × List Str)) : Prop where
  once : (out.flatMap Prod.fst).Nodup
  all : ∀ t ∈ labels recs, t ∈ out.flatMap Prod.fst
  only : ∀ t ∈ out.flatMap Prod.fst, t ∈ labels recs
  lines : ∀ b ∈ out, ∀ t ∈ b.1, linesOf recs t = b.2
  nonempty : ∀ b ∈ out, b.1 ≠ []
  bodyOnce : (out.map Prod.snd).Nodup

/-! executable form used as the oracle on the REAL output (`pdshmodel dshbak spec`) -/

def explainNormal (recs : List Rec) (out : List (Str × List Str)) : String :=
  if ¬ (out.map Prod.fst).Nodup then "bad a label has two blocks"
  else if ¬ (∀ t ∈ labels recs, t ∈ out.map Prod.fst) then "bad a label of the input has no block"
  else if ¬ (∀ t ∈ out.map Prod.fst, t ∈ labels recs) then "bad a block for a label that is not in the input"
  else if ¬ (∀ b ∈ out, b.2 = linesOf recs b.1) then "bad a block does not hold exactly its label's lines in order"
  else "ok"

def explainCoalesced (recs : List Rec) (out : List (List Str × List Str)) : String :=
  if ¬ (out.flatMap Prod.fst).Nodup then "bad a host is under two headers (or twice under one)"
  else if ¬ (∀ t ∈ labels recs, t ∈ out.flatMap Prod.fst) then "bad a host of the input is under no header"
  else if ¬ (∀ t ∈ out.flatMap Prod.fst, t ∈ labels recs) then "bad a header names a host that is not in the input"
  else if ¬ (∀ b ∈ out, ∀ t ∈ b.1, linesOf recs t = b.2) then "bad a host is under a header whose body is not its output"
  else if ¬ (∀ b ∈ out, b.1 ≠ []) then "bad a header without hosts"
  else if ¬ (out.map Prod.snd).Nodup then "bad the same body is printed twice"
  else "ok"

theorem explainNormal_ok (recs out) : explainNormal recs out = "ok" ↔ NormalOk recs out := by
  unfold explainNormal
  constructor
  · intro h
    split at h; · simp at h
    split at h; · simp at h
    split at h; · simp at h
    split at h; · simp at h
    rename_i h1 h2 h3 h4
    exact ⟨Classical.not_not.mp h1, Classical.not_not.mp h2, Classical.not_not.mp h3, Classical.not_not.mp h4⟩
  · intro ⟨a, b, c, d⟩
    rw [if_neg (not_not_intro a), if_neg (not_not_intro b), if_neg (not_not_intro c), if_neg (not_not_intro d)]

theorem explainCoalesced_ok (recs out) : explainCoalesced recs out = "ok" ↔ CoalescedOk recs out := by
  unfold explainCoalesced
  constructor
  · intro h
    split at h; · simp at h
    split at h; · simp at h
    split at h; · simp at h
    split at h; · simp at h
    split at h; · simp at h
    split at h; · simp at h
    rename_i h1 h2 h3 h4 h5 h6
    exact ⟨Classical.not_not.mp h1, Classical.not_not.mp h2, Classical.not_not.mp h3,
      Classical.not_not.mp h4, Classical.not_not.mp h5, Classical.not_not.mp h6⟩
  · intro ⟨a, b, c, d, e, f⟩
    rw [if_neg (not_not_intro a), if_neg (not_not_intro b), if_neg (not_not_intro c),
      if_neg (not_not_intro d), if_neg (not_not_intro e), if_neg (not_not_intro f)]

end PdshVerif.Dshbak.Spec
