import PdshVerif.Dshbak.CompLemmas

/-! from the per-prefix step of `comp` to `compress`: the header elements denote the group -/
namespace PdshVerif.Dshbak

/-- what the whole `comp` state denotes -/
def den (S : List (Str × PState)) : List Str := S.flatMap fun e => (numsOf e.2.runs).map (e.1 ++ ·)

/-- a name without a trailing number is the only one with its prefix -/
def NoBareClash (all : List Str) : Prop :=
  ∀ a ∈ all, (splitNum a).2 = [] → ∀ b ∈ all, (splitNum b).1 = (splitNum a).1 → b = a

theorem perm_flatMap_congr {α β : Type} {f g : α → List β} :
    ∀ (l : List α), (∀ a ∈ l, (f a).Perm (g a)) → (l.flatMap f).Perm (l.flatMap g)
  | [], _ => by simp
  | a :: l, h => by
    simp only [List.flatMap_cons]
    exact (h a (by simp)).append (perm_flatMap_congr l fun b hb => h b (by simp [hb]))

theorem flatMap_flatten {α β : Type} (f : α → List β) :
    ∀ (l : List (List α)), l.flatten.flatMap f = l.flatMap (fun x => x.flatMap f)
  | [] => by simp
  | a :: l => by simp [List.flatMap_append, flatMap_flatten f l]

theorem upsert_spec (lim : Option Nat) (all : List Str) (hH : NoBareClash all) (p n : Str) (hn : AllDig n)
    (hsplit : splitNum (p ++ n) = (p, n)) (hall : p ++ n ∈ all) :
    ∀ (S : List (Str × PState)) (L : List Str), (∀ x ∈ L, x ∈ all) → p ++ n ∉ L →
      (∀ e ∈ S, PInv e.1 e.2 L) → (∀ e ∈ S, ∀ x ∈ numsOf e.2.runs, e.1 ++ x ∈ L) →
      (den (upsert lim S p n)).Perm (den S ++ [p ++ n]) ∧
        ∀ e ∈ upsert lim S p n, PInv e.1 e.2 (L ++ [p ++ n])
  | [], L, _, hnew, _, _ => by
    obtain ⟨h1, h2⟩ := stepP_spec lim p n PState.empty L (PInv.empty p L) (by simp [PState.empty, numsOf])
      hn hsplit hnew (by simp [PState.empty])
    refine ⟨?_, ?_⟩
    · simp only [upsert, den, List.flatMap_cons, List.flatMap_nil, List.append_nil, List.nil_append]
      have := h1.map (p ++ ·)
      simpa [PState.empty, numsOf] using this
    · intro e he
      simp only [upsert, List.mem_singleton] at he
      subst he; exact h2
  | (p', st) :: r, L, hL, hnew, hinv, hmem => by
    by_cases hp : p' = p
    · subst hp
      have hne : ∀ x ∈ st.runs, x.start ≠ [] := by
        intro x hx h0
        have hs := (hinv (p', st) (by simp)).starts x hx
        rw [h0] at hs
        have ha : p' ++ [] ∈ all := hL _ hs.2.1
        have := hH (p' ++ []) ha (by rw [hs.2.2]) (p' ++ n) hall (by rw [hsplit, hs.2.2])
        exact hnew (by rw [this]; exact hs.2.1)
      obtain ⟨h1, h2⟩ := stepP_spec lim p' n st L (hinv (p', st) (by simp)) (hmem (p', st) (by simp))
        hn hsplit hnew hne
      refine ⟨?_, ?_⟩
      · simp only [upsert, if_true, den, List.flatMap_cons]
        have := h1.map (p' ++ ·)
        simp only [List.map_append, List.map_cons, List.map_nil] at this
        refine (this.append_right _).trans ?_
        simp only [List.append_assoc]
        exact List.Perm.append_left _ List.perm_append_comm
      · intro e he
        simp only [upsert, if_true, List.mem_cons] at he
        rcases he with rfl | he
        · exact h2
        · exact (hinv e (by simp [he])).mono (fun x hx => by simp [hx])
    · obtain ⟨h1, h2⟩ := upsert_spec lim all hH p n hn hsplit hall r L hL hnew
        (fun e he => hinv e (by simp [he])) (fun e he => hmem e (by simp [he]))
      refine ⟨?_, ?_⟩
      · simp only [upsert, if_neg hp, den, List.flatMap_cons, List.append_assoc]
        exact List.Perm.append_left _ h1
      · intro e he
        simp only [upsert, if_neg hp, List.mem_cons] at he
        rcases he with rfl | he
        · exact (hinv _ (by simp)).mono (fun x hx => by simp [hx])
        · exact h2 e he

theorem comp_fold (lim : Option Nat) (all : List Str) (hH : NoBareClash all) :
    ∀ (l : List Str) (S : List (Str × PState)) (L : List Str), (L ++ l).Nodup →
      (∀ x ∈ L ++ l, x ∈ all) → (den S).Perm L → (∀ e ∈ S, PInv e.1 e.2 L) →
      (den (l.foldl (compStep lim) S)).Perm (L ++ l)
  | [], S, L, _, _, hp, _ => by simpa using hp
  | h :: l, S, L, hnd, hall, hp, hinv => by
    simp only [List.foldl_cons, compStep]
    have hh : (splitNum h).1 ++ (splitNum h).2 = h := splitNum_append h
    have hnew : (splitNum h).1 ++ (splitNum h).2 ∉ L := by
      rw [hh]; intro hin
      have := (List.nodup_append.mp hnd).2.2 h hin h (by simp)
      exact this rfl
    obtain ⟨h1, h2⟩ := upsert_spec lim all hH (splitNum h).1 (splitNum h).2 (splitNum_allDig h)
      (by rw [hh]) (by rw [hh]; exact hall h (by simp)) S L
      (fun x hx => hall x (by simp [hx])) hnew hinv
      (fun e he x hx => hp.subset (List.mem_flatMap.mpr ⟨e, he, List.mem_map.mpr ⟨x, hx, rfl⟩⟩))
    rw [hh] at h1 h2
    have := comp_fold lim all hH l _ (L ++ [h]) (by simpa using hnd) (by simpa using hall)
      (h1.trans (hp.append_right _)) h2
    simpa using this

/-- `comp`: the range elements of all prefixes denote exactly the names given -/
theorem comp_denotes (lim : Option Nat) (stems : List Str) (hnd : stems.Nodup) (hH : NoBareClash stems) :
    ((comp lim stems).flatMap fun e => (numsOf e.2).map (e.1 ++ ·)).Perm stems := by
  have hs : (sortn stems).Perm stems := sortn_perm _
  have hH' : NoBareClash (sortn stems) := fun a ha h0 b hb hb' =>
    hH a (hs.subset ha) h0 b (hs.subset hb) hb'
  have := comp_fold lim (sortn stems) hH' (sortn stems) [] [] (by simpa using hs.nodup_iff.mpr hnd)
    (by simp) (by simp [den]) (by simp)
  simp only [List.nil_append] at this
  refine List.Perm.trans ?_ (this.trans hs)
  simp only [comp, List.flatMap_map, den]
  exact List.Perm.refl _

/-! ### the suffix groups -/

theorem splitSuffix_append (s : Str) : (splitSuffix s).1 ++ (splitSuffix s).2 = s := by
  simp only [splitSuffix]
  rw [← List.reverse_append, List.takeWhile_append_dropWhile, List.reverse_reverse]

/-- the names a suffix table stands for -/
def flat (m : Tab) : List Str := m.flatMap fun e => e.2.map (· ++ e.1)

theorem flat_pushKey : ∀ (m : Tab) (k v : Str), (flat (pushKey m k v)).Perm (flat m ++ [v ++ k])
  | [], k, v => by simp [pushKey, flat]
  | (k', vs) :: r, k, v => by
    by_cases hk : k' = k
    · subst hk
      simp only [pushKey, if_true, flat, List.flatMap_cons, List.map_append, List.map_cons,
        List.map_nil, List.append_assoc]
      exact List.Perm.append_left _ List.perm_append_comm
    · simp only [pushKey, if_neg hk, flat, List.flatMap_cons, List.append_assoc]
      exact List.Perm.append_left _ (flat_pushKey r k v)

theorem flat_fold : ∀ (l : List Str) (m : Tab), (flat (l.foldl groupStep m)).Perm (flat m ++ l)
  | [], m => by simp
  | t :: l, m => by
    simp only [List.foldl_cons]
    refine (flat_fold l _).trans ?_
    have := flat_pushKey m (splitSuffix t).2 (splitSuffix t).1
    rw [splitSuffix_append] at this
    simpa [groupStep] using this.append_right l

theorem mem_pushKey {m : Tab} {k v : Str} {e : Str × List Str} (he : e ∈ pushKey m k v) {s : Str}
    (hs : s ∈ e.2) : (∃ e' ∈ m, e'.1 = e.1 ∧ s ∈ e'.2) ∨ (e.1 = k ∧ s = v) := by
  induction m with
  | nil =>
    simp only [pushKey, List.mem_singleton] at he
    subst he; simp at hs; right; exact ⟨rfl, hs⟩
  | cons a r ih =>
    obtain ⟨k', vs⟩ := a
    by_cases hk : k' = k
    · subst hk
      simp only [pushKey, if_true, List.mem_cons] at he
      rcases he with rfl | he
      · simp only [List.mem_append, List.mem_singleton] at hs
        rcases hs with hs | hs
        · left; exact ⟨(k', vs), by simp, rfl, hs⟩
        · right; exact ⟨rfl, hs⟩
      · left; exact ⟨e, by simp [he], rfl, hs⟩
    · simp only [pushKey, if_neg hk, List.mem_cons] at he
      rcases he with rfl | he
      · left; exact ⟨(k', vs), by simp, rfl, hs⟩
      · rcases ih he with ⟨e', he', h1, h2⟩ | h
        · left; exact ⟨e', by simp [he'], h1, h2⟩
        · right; exact h

/-- every stem of a suffix group, put back on its suffix, splits into exactly that pair -/
theorem group_split : ∀ (l : List Str) (m : Tab),
    (∀ e ∈ m, ∀ s ∈ e.2, splitSuffix (s ++ e.1) = (s, e.1)) →
    ∀ e ∈ l.foldl groupStep m, ∀ s ∈ e.2, splitSuffix (s ++ e.1) = (s, e.1)
  | [], _, h => h
  | t :: l, m, h => by
    simp only [List.foldl_cons]
    apply group_split l
    intro e he s hs
    rcases mem_pushKey he hs with ⟨e', he', h1, h2⟩ | ⟨h1, h2⟩
    · rw [← h1]; exact h e' he' s h2
    · rw [h1, h2, splitSuffix_append]

/-- domain of `compress_expands`: if the stem of `a` carries no number (then it is empty: `a` is
digit-free) no other name with the same suffix has a stem with the same (empty) prefix, i.e. a
purely numeric stem.  Excluded: `foo` together with `1foo`. -/
def NoStemClash (g : List Str) : Prop :=
  ∀ a ∈ g, ∀ b ∈ g, (splitSuffix b).2 = (splitSuffix a).2 → (splitNum (splitSuffix a).1).2 = [] →
    (splitNum (splitSuffix b).1).1 = (splitNum (splitSuffix a).1).1 → b = a

theorem elem_hosts_eq (p : Str) (runs : List Run) (suf : Str) :
    Elem.hosts ⟨p, runs, suf⟩ = ((numsOf runs).map (p ++ ·)).map (· ++ suf) := by
  simp [Elem.hosts, numsOf, List.map_map, Function.comp_def]

theorem compressInner_denotes (lim : Option Nat) (stems : List Str) (suf : Str) (hnd : stems.Nodup)
    (hH : NoBareClash stems) :
    ((compressInner lim stems suf).flatMap Elem.hosts).Perm (stems.map (· ++ suf)) := by
  have h1 : (sortByKey (comp lim stems)).Perm (comp lim stems) := stableSort_perm _ _
  simp only [compressInner, List.flatMap_map, elem_hosts_eq]
  have h2 := (h1.flatMap_right fun e => ((numsOf e.2).map (e.1 ++ ·)).map (· ++ suf))
  refine h2.trans ?_
  have h3 := (comp_denotes lim stems hnd hH).map (· ++ suf)
  refine List.Perm.trans ?_ h3
  rw [List.map_flatMap]

/-- `compress`: whatever the order of the suffix groups (Perl: hash order), the elements of the
header denote exactly the names compressed -/
theorem compress_denotes (lim : Option Nat) (g : List Str) (hnd : g.Nodup) (hdom : NoStemClash g)
    (gs : List (List Elem)) (hgs : gs.Perm (compressGroups lim g)) : (hostsOf gs).Perm g := by
  have hs : (sortn g).Perm g := sortn_perm _
  have hflat : (flat (suffixGroups g)).Perm g := by
    have := flat_fold (sortn g) []
    simp only [flat, List.flatMap_nil, List.nil_append] at this
    exact this.trans hs
  have hsplit := group_split (sortn g) [] (by simp)
  unfold hostsOf
  refine ((hgs.flatten).flatMap_right _).trans ?_
  rw [flatMap_flatten, compressGroups, List.flatMap_map]
  refine List.Perm.trans ?_ hflat
  unfold flat
  apply perm_flatMap_congr
  intro e he
  have hsub : (e.2.map (· ++ e.1)).Sublist (flat (suffixGroups g)) := by
    unfold flat
    rw [List.flatMap_def]
    exact List.sublist_flatten_of_mem (List.mem_map.mpr ⟨e, he, rfl⟩)
  have hmem : ∀ s ∈ e.2, s ++ e.1 ∈ g := fun s hs =>
    hflat.subset (hsub.subset (List.mem_map.mpr ⟨s, hs, rfl⟩))
  apply compressInner_denotes lim
  · have : (e.2.map (· ++ e.1)).Nodup := hsub.nodup (hflat.nodup_iff.mpr hnd)
    exact List.Pairwise.of_map _ (fun a b hab h => hab (by rw [h])) this
  · intro a ha h0 b hb hb'
    have ea := hsplit e he a ha
    have eb := hsplit e he b hb
    have := hdom (a ++ e.1) (hmem a ha) (b ++ e.1) (hmem b hb) (by rw [ea, eb]) (by rw [ea]; exact h0)
      (by rw [ea, eb]; exact hb')
    exact List.append_cancel_right this

/-! ### the repaired `compress` (F19-EMPTYSTEM): no domain restriction is left -/

theorem dropWhile_head_false {p : Char → Bool} : ∀ {l : Str} {c : Char} {r : Str},
    l.dropWhile p = c :: r → p c = false
  | [], _, _, h => by simp at h
  | a :: l, c, r, h => by
    simp only [List.dropWhile_cons] at h
    split at h
    · exact dropWhile_head_false h
    · rename_i hp
      simp only [List.cons.injEq] at h
      rw [← h.1]; simpa using hp

/-- a non-empty stem ends in a digit: it carries a number -/
theorem stem_has_number (t : Str) (h : (splitSuffix t).1 ≠ []) : (splitNum (splitSuffix t).1).2 ≠ [] := by
  simp only [splitSuffix, splitNum, List.reverse_reverse] at h ⊢
  cases hd : t.reverse.dropWhile (fun c => !isDig c) with
  | nil => rw [hd] at h; simp at h
  | cons c r =>
    have hc := dropWhile_head_false hd
    simp only [Bool.not_eq_false'] at hc
    simp [List.takeWhile_cons, hc]

theorem hostsOf_plain : ∀ (l : List Str),
    hostsOf (l.map fun t => [(⟨t, [⟨[], none⟩], []⟩ : Elem)]) = l
  | [] => rfl
  | t :: l => by
    have ih := hostsOf_plain l
    simp only [hostsOf] at ih ⊢
    simp only [List.map_cons, List.flatten_cons, List.cons_append, List.nil_append, List.flatMap_cons, ih]
    simp [Elem.hosts, Run.nums]

/-- `compress` after the repair: whatever the order of the groups, the header denotes exactly the
names compressed — for EVERY set of distinct names (no `NoStemClash` needed any more) -/
theorem compress_fixed_denotes (lim : Option Nat) (g : List Str) (hnd : g.Nodup)
    (gs : List (List Elem)) (hgs : gs.Perm (compressGroupsFixed lim g)) : (hostsOf gs).Perm g := by
  have hs : (sortn g).Perm g := sortn_perm _
  have h1 : (hostsOf gs).Perm (hostsOf (compressGroupsFixed lim g)) := by
    unfold hostsOf
    exact (hgs.flatten).flatMap_right _
  refine h1.trans ?_
  have hsplit : hostsOf (compressGroupsFixed lim g) =
      (sortn g).filter noStem ++ hostsOf (compressGroups lim (g.filter fun t => !noStem t)) := by
    have := hostsOf_plain ((sortn g).filter noStem)
    simp only [hostsOf] at this ⊢
    simp only [compressGroupsFixed, List.flatten_append, List.flatMap_append, this]
  rw [hsplit]
  have hB : (hostsOf (compressGroups lim (g.filter fun t => !noStem t))).Perm
      (g.filter fun t => !noStem t) := by
    apply compress_denotes lim _ (hnd.sublist List.filter_sublist) _ _ (List.Perm.refl _)
    intro a ha b _ _ h0 _
    exfalso
    have hne : (splitSuffix a).1 ≠ [] := by
      have := (List.mem_filter.mp ha).2
      simp only [noStem, Bool.not_eq_eq_eq_not, Bool.not_true, List.isEmpty_eq_false_iff] at this
      exact this
    exact stem_has_number a hne h0
  exact ((hs.filter noStem).append hB).trans (List.filter_append_perm noStem g)

/-! ### the repaired `comp` (F19-LONGRUN): no range element spans more than the limit -/

def Within (m : Nat) (runs : List Run) : Prop := ∀ r ∈ runs, r.hi - r.lo < m

theorem stepP_within (m : Nat) (hm : 0 < m) (st : PState) (n : Str) (h : Within m st.runs) :
    Within m (stepP (some m) st n).runs := by
  unfold stepP
  simp only
  cases hfi : findIdx (some m) st n with
  | none =>
    intro r hr
    simp only [List.mem_append, List.mem_singleton] at hr
    rcases hr with hr | rfl
    · exact h r hr
    · simpa [Run.hi, Run.lo] using hm
  | some i =>
    intro r hr
    rcases mem_setStop hr with hr | ⟨r0, hr0, rfl⟩
    · exact h r hr
    · unfold findIdx at hfi
      split at hfi
      · rename_i j _
        split at hfi
        · rename_i hw
          simp only [Option.some.injEq] at hfi
          subst hfi
          simp only [withinLim, hr0, decide_eq_true_eq] at hw
          simpa [Run.hi, Run.lo] using hw
        · simp at hfi
      · simp at hfi

theorem upsert_within (m : Nat) (hm : 0 < m) : ∀ (S : List (Str × PState)) (p n : Str),
    (∀ e ∈ S, Within m e.2.runs) → ∀ e ∈ upsert (some m) S p n, Within m e.2.runs
  | [], p, n, _, e, he => by
    simp only [upsert, List.mem_singleton] at he
    subst he
    exact stepP_within m hm _ n (by simp [Within, PState.empty])
  | (p', st) :: r, p, n, h, e, he => by
    by_cases hp : p' = p
    · simp only [upsert, hp, if_true, List.mem_cons] at he
      rcases he with rfl | he
      · exact stepP_within m hm st n (h (p', st) (by simp))
      · exact h e (by simp [he])
    · simp only [upsert, if_neg hp, List.mem_cons] at he
      rcases he with rfl | he
      · exact h _ (by simp)
      · exact upsert_within m hm r p n (fun x hx => h x (by simp [hx])) e he

theorem fold_within (m : Nat) (hm : 0 < m) : ∀ (l : List Str) (S : List (Str × PState)),
    (∀ e ∈ S, Within m e.2.runs) → ∀ e ∈ l.foldl (compStep (some m)) S, Within m e.2.runs
  | [], _, h => h
  | a :: l, S, h => by
    simp only [List.foldl_cons]
    exact fold_within m hm l _ (upsert_within m hm S _ _ h)

/-- with the repair, no range element of a header spans more than `m` numbers (m = 16384 =
hostlist.c's MAX_RANGE: pdsh accepts every such range) -/
theorem compressBase_within (m : Nat) (hm : 0 < m) (stemFix : Bool) (tags : List Str) :
    ∀ grp ∈ (if stemFix then compressGroupsFixed (some m) tags else compressGroups (some m) tags),
      ∀ e ∈ grp, Within m e.runs := by
  have hcg : ∀ ts, ∀ grp ∈ compressGroups (some m) ts, ∀ e ∈ grp, Within m e.runs := by
    intro ts grp hgrp e he
    simp only [compressGroups, List.mem_map] at hgrp
    obtain ⟨g, _, rfl⟩ := hgrp
    simp only [compressInner, List.mem_map] at he
    obtain ⟨x, hx, rfl⟩ := he
    have hx' : x ∈ comp (some m) g.2 := (stableSort_perm _ _).subset hx
    simp only [comp, List.mem_map] at hx'
    obtain ⟨y, hy, rfl⟩ := hx'
    exact fold_within m hm _ [] (by simp) y hy
  intro grp hgrp e he
  split at hgrp
  · simp only [compressGroupsFixed, List.mem_append, List.mem_map] at hgrp
    rcases hgrp with ⟨t, _, rfl⟩ | h
    · simp only [List.mem_singleton] at he
      subst he
      intro r hr
      simp only [List.mem_singleton] at hr
      subst hr
      simpa [Run.hi, Run.lo] using hm
    · exact hcg _ grp h e he
  · exact hcg _ grp hgrp e he

end PdshVerif.Dshbak
