import PdshVerif.Dshbak.CompressLemmas

/-! what the range elements built by `comp` look like (exported from the invariant `PInv`):
every bound is the numeric tail of one of the names compressed, low ≤ high, digits only -/
namespace PdshVerif.Dshbak

/-- `comp_fold` once more, this time keeping the per-prefix invariant and "every state has an index
entry" (so it has a range element) -/
theorem comp_fold_inv (lim : Option Nat) (all : List Str) (hH : NoBareClash all) :
    ∀ (l : List Str) (S : List (Str × PState)) (L : List Str), (L ++ l).Nodup →
      (∀ x ∈ L ++ l, x ∈ all) → (den S).Perm L → (∀ e ∈ S, PInv e.1 e.2 L ∧ e.2.idx ≠ []) →
      ∀ e ∈ l.foldl (compStep lim) S, PInv e.1 e.2 (L ++ l) ∧ e.2.idx ≠ []
  | [], S, L, _, _, _, hinv => by simpa using hinv
  | h :: l, S, L, hnd, hall, hp, hinv => by
    simp only [List.foldl_cons, compStep]
    have hh : (splitNum h).1 ++ (splitNum h).2 = h := splitNum_append h
    have hnew : (splitNum h).1 ++ (splitNum h).2 ∉ L := by
      rw [hh]; intro hin
      have := (List.nodup_append.mp hnd).2.2 h hin h (by simp)
      exact this rfl
    obtain ⟨h1, h2⟩ := upsert_spec lim all hH (splitNum h).1 (splitNum h).2 (splitNum_allDig h)
      (by rw [hh]) (by rw [hh]; exact hall h (by simp)) S L
      (fun x hx => hall x (by simp [hx])) hnew (fun e he => (hinv e he).1)
      (fun e he x hx => hp.subset (List.mem_flatMap.mpr ⟨e, he, List.mem_map.mpr ⟨x, hx, rfl⟩⟩))
    rw [hh] at h1 h2
    have hidx : ∀ e ∈ upsert lim S (splitNum h).1 (splitNum h).2, e.2.idx ≠ [] := by
      have : ∀ (S : List (Str × PState)) (p n : Str), (∀ e ∈ S, e.2.idx ≠ []) →
          ∀ e ∈ upsert lim S p n, e.2.idx ≠ [] := by
        intro S
        induction S with
        | nil =>
          intro p n _ e he
          simp only [upsert, List.mem_singleton] at he
          subst he
          simp only [stepP]; split <;> simp
        | cons a r ih =>
          intro p n hS e he
          obtain ⟨p', st⟩ := a
          by_cases hp' : p' = p
          · simp only [upsert, hp', if_true, List.mem_cons] at he
            rcases he with rfl | he
            · simp only [stepP]; split <;> simp
            · exact hS e (by simp [he])
          · simp only [upsert, if_neg hp', List.mem_cons] at he
            rcases he with rfl | he
            · exact hS _ (by simp)
            · exact ih p n (fun x hx => hS x (by simp [hx])) e he
      exact this S _ _ (fun e he => (hinv e he).2)
    have := comp_fold_inv lim all hH l _ (L ++ [h]) (by simpa using hnd) (by simpa using hall)
      (h1.trans (hp.append_right _)) (fun e he => ⟨h2 e he, hidx e he⟩)
    simpa using this

/-- a well-formed range element of prefix `p` over the names `stems` -/
structure RunOK (p : Str) (stems : List Str) (r : Run) : Prop where
  startDig : AllDig r.start
  startMem : p ++ r.start ∈ stems
  startSplit : splitNum (p ++ r.start) = (p, r.start)
  stop : ∀ e, r.stop = some e → r.start ≠ [] ∧ valOf r.start ≤ valOf e ∧ AllDig e ∧ e ≠ [] ∧
    p ++ e ∈ stems ∧ splitNum (p ++ e) = (p, e)

/-- every prefix of `comp` has at least one range element, and all of them are well formed -/
theorem comp_runs_ok (lim : Option Nat) (stems : List Str) (hnd : stems.Nodup) (hH : NoBareClash stems) :
    ∀ e ∈ comp lim stems, e.2 ≠ [] ∧ ∀ r ∈ e.2, RunOK e.1 stems r := by
  have hs : (sortn stems).Perm stems := sortn_perm _
  have hH' : NoBareClash (sortn stems) := fun a ha h0 b hb hb' =>
    hH a (hs.subset ha) h0 b (hs.subset hb) hb'
  have hinv := comp_fold_inv lim (sortn stems) hH' (sortn stems) [] []
    (by simpa using hs.nodup_iff.mpr hnd) (by simp) (by simp [den]) (by simp)
  intro e he
  simp only [comp, List.mem_map] at he
  obtain ⟨x, hx, rfl⟩ := he
  obtain ⟨inv, hidx⟩ := hinv x hx
  simp only [List.nil_append] at inv
  refine ⟨?_, ?_⟩
  · -- an index entry points at an existing element
    cases hi : x.2.idx with
    | nil => exact absurd hi hidx
    | cons ent rest =>
      obtain ⟨⟨c, w⟩, i⟩ := ent
      obtain ⟨r, hr, _⟩ := inv.idx_ok c w i (by rw [hi]; simp)
      intro h0
      simp only at h0
      rw [h0] at hr; simp at hr
  · intro r hr
    have s := inv.starts r hr
    exact ⟨s.1, hs.subset s.2.1, s.2.2, fun e he' =>
      ⟨(inv.stops r hr e he').1, (inv.stops r hr e he').2, (inv.ends r hr e he').1, (inv.ends r hr e he').2.1,
       hs.subset (inv.ends r hr e he').2.2.1, (inv.ends r hr e he').2.2.2⟩⟩

end PdshVerif.Dshbak
