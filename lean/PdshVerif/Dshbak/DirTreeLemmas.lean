import PdshVerif.Dshbak.DirTree

/-! which node `DIR/LABEL` is: plain labels (one entry of DIR each), `./LABEL`, `../LABEL`, `SUB/LABEL`; what the
loop leaves behind when an `open` fails -/
namespace PdshVerif.Dshbak

theorem splitSlash_append : ∀ (a b : Str), splitSlash (a ++ '/' :: b) = splitSlash a ++ splitSlash b
  | [], b => by simp [splitSlash]
  | c :: r, b => by
    have ih := splitSlash_append r b
    by_cases hc : c = '/'
    · subst hc
      simp [splitSlash, ih]
    · have hne := splitSlash_ne_nil r
      cases hs : splitSlash r with
      | nil => exact absurd hs hne
      | cons h t =>
        rw [hs] at ih
        simp [splitSlash, hc, ih, hs]

theorem getLast?_append_ne {α : Type} (l l' : List α) (h : l' ≠ []) : (l ++ l').getLast? = l'.getLast? := by
  rw [List.getLast?_append]
  cases hl : l'.getLast? with
  | none => exact absurd (List.getLast?_eq_none_iff.mp hl) h
  | some x => simp

theorem walk_append (dirs : List Node) : ∀ (xs ys : List Str) (a : Node),
    walk dirs a (xs ++ ys) = (walk dirs a xs).bind fun m => walk dirs m ys
  | [], _, _ => rfl
  | c :: cs, ys, a => by
    simp only [List.cons_append, walk]
    split
    · exact walk_append dirs cs ys a
    · split
      · exact walk_append dirs cs ys _
      · split
        · exact walk_append dirs cs ys _
        · rfl

/-- where an `open` of `DIR/…` starts walking: the root for an absolute DIR, the working directory otherwise -/
def startOf (cwd : Node) (dir : Str) : Node := if dir.head? = some '/' then [] else cwd

theorem head_filePath (dir t : Str) (h : dir ≠ []) : (filePath dir t).head? = dir.head? := by
  cases dir with
  | nil => exact absurd rfl h
  | cons c r => rfl

/-- `DIR/REST` is opened by walking DIR's components and then REST's -/
theorem openW_filePath (dirs : List Node) (cwd : Node) (dir rest : Str) (h : dir ≠ []) (d : Node)
    (hd : walk dirs (startOf cwd dir) (splitSlash dir) = some d) :
    openW dirs cwd (filePath dir rest) =
      match walk dirs d (splitSlash rest).dropLast with
      | none => none
      | some e =>
        match (splitSlash rest).getLast? with
        | none => none
        | some f => if leafOK dirs e f then some (e ++ [f]) else none := by
  have hne := splitSlash_ne_nil rest
  unfold openW
  simp only [head_filePath dir rest h]
  have hs : splitSlash (filePath dir rest) = splitSlash dir ++ splitSlash rest := splitSlash_append dir rest
  rw [hs, List.dropLast_append_of_ne_nil hne, walk_append]
  have : walk dirs (if dir.head? = some '/' then [] else cwd) (splitSlash dir) = some d := hd
  rw [this, getLast?_append_ne _ _ hne]
  rfl

/-- A PLAIN LABEL (`fileNameOK`: no `/`, not `.`, `..`, empty) opens exactly the entry LABEL of DIR -/
theorem openW_plain (dirs : List Node) (cwd : Node) (dir t : Str) (h : dir ≠ []) (d : Node)
    (hd : walk dirs (startOf cwd dir) (splitSlash dir) = some d) (ht : fileNameOK t = true)
    (hnd : (d ++ [t]) ∉ dirs) : openW dirs cwd (filePath dir t) = some (d ++ [t]) := by
  simp only [fileNameOK, Bool.and_eq_true, Bool.not_eq_eq_eq_not, Bool.not_true, bne_iff_ne, ne_eq,
    List.contains_eq_mem, decide_eq_false_iff_not] at ht
  obtain ⟨⟨⟨h1, h2⟩, h3⟩, h4⟩ := ht
  rw [openW_filePath dirs cwd dir t h d hd, splitSlash_no_slash t h1]
  simp [walk, leafOK, h2, h3, h4, hnd]

/-- `./LABEL` is the SAME node as `LABEL` (the two labels share one file) -/
theorem openW_dot_slash (dirs : List Node) (cwd : Node) (dir t : Str) (h : dir ≠ []) (d : Node)
    (hd : walk dirs (startOf cwd dir) (splitSlash dir) = some d) :
    openW dirs cwd (filePath dir ('.' :: '/' :: t)) = openW dirs cwd (filePath dir t) := by
  rw [openW_filePath dirs cwd dir _ h d hd, openW_filePath dirs cwd dir t h d hd]
  have hne := splitSlash_ne_nil t
  have hs : splitSlash ('.' :: '/' :: t) = ['.'] :: splitSlash t := by
    have := splitSlash_append ['.'] t
    simpa [splitSlash] using this
  rw [hs, List.dropLast_cons_of_ne_nil hne, List.getLast?_cons_cons_of_ne_nil hne]
  simp [walk]
where
  List.getLast?_cons_cons_of_ne_nil {α : Type} {a : α} {l : List α} (h : l ≠ []) :
      (a :: l).getLast? = l.getLast? := by
    cases l with
    | nil => exact absurd rfl h
    | cons b r => simp [List.getLast?_cons_cons]

/-- `../LABEL` (LABEL plain) is an entry of DIR's PARENT: outside DIR -/
theorem openW_dotdot (dirs : List Node) (cwd : Node) (dir t : Str) (h : dir ≠ []) (d : Node)
    (hd : walk dirs (startOf cwd dir) (splitSlash dir) = some d) (ht : fileNameOK t = true)
    (hnd : (d.dropLast ++ [t]) ∉ dirs) :
    openW dirs cwd (filePath dir ('.' :: '.' :: '/' :: t)) = some (d.dropLast ++ [t]) := by
  simp only [fileNameOK, Bool.and_eq_true, Bool.not_eq_eq_eq_not, Bool.not_true, bne_iff_ne, ne_eq,
    List.contains_eq_mem, decide_eq_false_iff_not] at ht
  obtain ⟨⟨⟨h1, h2⟩, h3⟩, h4⟩ := ht
  rw [openW_filePath dirs cwd dir _ h d hd]
  have hs : splitSlash ('.' :: '.' :: '/' :: t) = ['.', '.'] :: [t] := by
    have := splitSlash_append ['.', '.'] t
    rw [splitSlash_no_slash t h1] at this
    simpa [splitSlash] using this
  rw [hs]
  simp [walk, leafOK, h2, h3, h4, hnd]

/-- `SUB/LABEL` with no directory SUB in DIR: the `open` fails (and the script ends there) -/
theorem openW_missing_subdir (dirs : List Node) (cwd : Node) (dir sub t : Str) (h : dir ≠ []) (d : Node)
    (hd : walk dirs (startOf cwd dir) (splitSlash dir) = some d) (hs1 : fileNameOK sub = true)
    (ht : '/' ∉ t) (hno : (d ++ [sub]) ∉ dirs) : openW dirs cwd (filePath dir (sub ++ '/' :: t)) = none := by
  simp only [fileNameOK, Bool.and_eq_true, Bool.not_eq_eq_eq_not, Bool.not_true, bne_iff_ne, ne_eq,
    List.contains_eq_mem, decide_eq_false_iff_not] at hs1
  obtain ⟨⟨⟨h1, h2⟩, h3⟩, h4⟩ := hs1
  rw [openW_filePath dirs cwd dir _ h d hd, splitSlash_append_slash sub t h1, splitSlash_no_slash t ht]
  simp [walk, h2, h3, h4, hno]

/-- `.`, `..`, the empty label and a label ending in `/` can never be opened for writing -/
theorem openW_not_a_file (dirs : List Node) (cwd : Node) (dir : Str) (h : dir ≠ []) (d : Node)
    (hd : walk dirs (startOf cwd dir) (splitSlash dir) = some d) :
    openW dirs cwd (filePath dir ['.']) = none ∧ openW dirs cwd (filePath dir ['.', '.']) = none ∧
    openW dirs cwd (filePath dir []) = none := by
  refine ⟨?_, ?_, ?_⟩ <;>
  · rw [openW_filePath dirs cwd dir _ h d hd]
    simp [splitSlash, walk, leafOK]

/-! ### the loop -/

theorem foldl_writeStep_dead (dirs : List Node) (cwd : Node) : ∀ (ws : List (Str × List Str)) (fs : Files),
    ws.foldl (writeStep dirs cwd) (fs, false) = (fs, false)
  | [], _ => rfl
  | w :: ws, fs => by
    simp only [List.foldl_cons]
    have : writeStep dirs cwd (fs, false) w = (fs, false) := by simp [writeStep]
    rw [this]
    exact foldl_writeStep_dead dirs cwd ws fs

/-- ABORTED MIDWAY: when the `open` of one label fails, the run ends with exit 1, the files of the labels before it
are written and NOTHING of the labels after it is (their lines are lost) -/
theorem runWrites_abort (dirs : List Node) (cwd : Node) (nd : Str → Node) (pre : List (Str × List Str))
    (w : Str × List Str) (post : List (Str × List Str)) (fs : Files)
    (hpre : ∀ x ∈ pre, openW dirs cwd x.1 = some (nd x.1)) (hw : openW dirs cwd w.1 = none) :
    runWrites dirs cwd (pre ++ w :: post) fs = (pre.foldl (fun fs x => setFile fs (nd x.1) x.2) fs, false) := by
  unfold runWrites
  rw [List.foldl_append, runWrites_all_open dirs cwd nd pre fs hpre, List.foldl_cons]
  have : writeStep dirs cwd (pre.foldl (fun fs x => setFile fs (nd x.1) x.2) fs, true) w =
      (pre.foldl (fun fs x => setFile fs (nd x.1) x.2) fs, false) := by simp [writeStep, hw]
  rw [this]
  exact foldl_writeStep_dead dirs cwd post _

/-- LOSSLESS FOR PLAIN LABELS, ON THE TREE: DIR resolves to the directory `d`; the labels are pairwise different,
plain, and none names a sub-directory of DIR.  Then every `open` succeeds (exit 0) and afterwards the entry LABEL
of DIR holds exactly that label's lines, for every label — whatever DIR held before. -/
theorem runWrites_plain (dirs : List Node) (cwd : Node) (dir : Str) (h : dir ≠ []) (d : Node)
    (hd : walk dirs (startOf cwd dir) (splitSlash dir) = some d) (bs : List (Str × List Str))
    (hnd : (bs.map Prod.fst).Nodup) (hok : ∀ b ∈ bs, fileNameOK b.1 = true ∧ (d ++ [b.1]) ∉ dirs) (fs : Files) :
    (runWrites dirs cwd (bs.map fun b => (filePath dir b.1, b.2)) fs).2 = true ∧
    ∀ b ∈ bs, fileAt (runWrites dirs cwd (bs.map fun b => (filePath dir b.1, b.2)) fs).1 (d ++ [b.1]) = some b.2 := by
  let nd : Str → Node := fun p => d ++ [p.drop (dir.length + 1)]
  have hdrop : ∀ t : Str, (filePath dir t).drop (dir.length + 1) = t := by
    intro t
    unfold filePath
    rw [show dir ++ '/' :: t = (dir ++ ['/']) ++ t by simp]
    exact List.drop_left' (by simp)
  have hopen : ∀ w ∈ bs.map (fun b => (filePath dir b.1, b.2)), openW dirs cwd w.1 = some (nd w.1) := by
    intro w hw
    obtain ⟨b, hb, rfl⟩ := List.mem_map.mp hw
    show openW dirs cwd (filePath dir b.1) = some (d ++ [(filePath dir b.1).drop (dir.length + 1)])
    rw [hdrop]
    exact openW_plain dirs cwd dir b.1 h d hd (hok b hb).1 (hok b hb).2
  unfold runWrites
  rw [runWrites_all_open dirs cwd nd _ fs hopen]
  refine ⟨rfl, fun b hb => ?_⟩
  obtain ⟨pre, post, rfl⟩ := List.append_of_mem hb
  have hpost : ∀ x ∈ post, x.1 ≠ b.1 := by
    intro x hx e
    rw [List.map_append, List.map_cons] at hnd
    have := (List.nodup_append.mp hnd).2.1
    have hb1 : b.1 ∉ post.map Prod.fst := (List.nodup_cons.mp this).1
    exact hb1 (e ▸ List.mem_map_of_mem hx)
  rw [List.map_append, List.map_cons]
  have := fold_setFile_last nd (pre.map fun b => (filePath dir b.1, b.2)) (filePath dir b.1, b.2)
    (post.map fun b => (filePath dir b.1, b.2)) fs (by
      intro x hx
      obtain ⟨y, hy, rfl⟩ := List.mem_map.mp hx
      show d ++ [(filePath dir y.1).drop (dir.length + 1)] ≠ d ++ [(filePath dir b.1).drop (dir.length + 1)]
      rw [hdrop, hdrop]
      intro e
      exact hpost y hy (by simpa using e))
  show fileAt _ (d ++ [b.1]) = some b.2
  have hn : nd (filePath dir b.1) = d ++ [b.1] := by show d ++ [_] = _; rw [hdrop]
  rw [← hn]
  exact this

end PdshVerif.Dshbak
