import PdshVerif.Dshbak.CompLemmas
import PdshVerif.Dshbak.LineLemmas

/-! invariant of the `do_output_coalesced` loop -/
namespace PdshVerif.Dshbak

/-- all tags printed so far -/
def printed (out : List (List Str × List Str)) : List Str := out.flatMap Prod.fst

theorem keys_sublist {a b : Tab} (h : a.Sublist b) : (keys a).Sublist (keys b) := h.map _

theorem assoc_of_mem : ∀ {m : Tab}, (keys m).Nodup → ∀ {e : Str × List Str}, e ∈ m → assoc m e.1 = some e.2
  | [], _, _, he => by simp at he
  | (k, v) :: r, hnd, e, he => by
    simp only [keys, List.map_cons, List.nodup_cons] at hnd
    simp only [assoc]
    simp only [List.mem_cons] at he
    rcases he with rfl | he
    · simp
    · have hk : k ≠ e.1 := fun h => hnd.1 (by rw [h]; exact List.mem_map.mpr ⟨e, he, rfl⟩)
      rw [if_neg hk]
      exact assoc_of_mem hnd.2 he

theorem mem_keys_of_assoc {m : Tab} {t : Str} {b : List Str} (h : assoc m t = some b) : t ∈ keys m :=
  List.mem_map.mpr ⟨(t, b), assoc_mem h, rfl⟩

structure CInv (m : Tab) (st : Tab × List (List Str × List Str)) (todo : List Str) : Prop where
  sub : st.1.Sublist m
  covered : ∀ e ∈ m, e ∈ st.1 ∨ e.1 ∈ printed st.2
  live : ∀ e ∈ st.1, e.1 ∈ todo ∨ e.1 ∈ printed st.2
  bodies : ∀ blk ∈ st.2, ∀ t ∈ blk.1, assoc m t = some blk.2
  fresh : ∀ blk ∈ st.2, ∀ e ∈ st.1, e.1 ∈ todo → e.2 ≠ blk.2
  bodyOnce : (st.2.map Prod.snd).Nodup
  once : (printed st.2).Nodup
  nonempty : ∀ blk ∈ st.2, blk.1 ≠ []

theorem sameAs_iff (tag : Str) (body : List Str) (e : Str × List Str) :
    sameAs tag body e = true ↔ e.1 ≠ tag ∧ e.2 = body := by
  simp [sameAs]

theorem printed_append (out : List (List Str × List Str)) (blk : List Str × List Str) :
    printed (out ++ [blk]) = printed out ++ blk.1 := by
  simp [printed, List.flatMap_append]

theorem coalesceStep_inv (m : Tab) (hm : (keys m).Nodup) (st : Tab × List (List Str × List Str))
    (tag : Str) (todo : List Str) (hnd : (tag :: todo).Nodup) (h : CInv m st (tag :: todo)) :
    CInv m (coalesceStep st tag) todo := by
  obtain ⟨M, out⟩ := st
  have hMnd : (keys M).Nodup := (keys_sublist h.sub).nodup hm
  unfold coalesceStep
  simp only
  cases ha : assoc M tag with
  | none =>
    simp only
    have hno : ∀ e ∈ M, e.1 ≠ tag := by
      intro e he heq
      have := assoc_of_mem hMnd he
      rw [heq, ha] at this; simp at this
    refine ⟨h.sub, h.covered, ?_, h.bodies, ?_, h.bodyOnce, h.once, h.nonempty⟩
    · intro e he
      rcases h.live e he with h1 | h1
      · simp only [List.mem_cons] at h1
        rcases h1 with h1 | h1
        · exact absurd h1 (hno e he)
        · exact Or.inl h1
      · exact Or.inr h1
    · intro blk hb e he ht
      exact h.fresh blk hb e he (by simp [ht])
  | some body =>
    simp only
    have htag : (tag, body) ∈ M := assoc_mem ha
    have hunpr : ∀ blk ∈ out, body ≠ blk.2 := fun blk hb =>
      h.fresh blk hb (tag, body) htag (by simp)
    have hgrp : ∀ t, t ∈ strSort ((M.filter (sameAs tag body)).map (·.1) ++ [tag]) ↔
        (t ≠ tag ∧ (t, body) ∈ M) ∨ t = tag := by
      intro t
      simp only [strSort, (stableSort_perm strLe _).mem_iff, List.mem_append, List.mem_map, List.mem_filter,
        List.mem_singleton, sameAs_iff]
      constructor
      · rintro (⟨e, ⟨he, h1, h2⟩, rfl⟩ | h)
        · left; exact ⟨h1, by rw [← h2]; exact he⟩
        · right; exact h
      · rintro (⟨h1, h2⟩ | h)
        · left; exact ⟨(t, body), ⟨h2, h1, rfl⟩, rfl⟩
        · right; exact h
    have hgrpM : ∀ t, t ∈ strSort ((M.filter (sameAs tag body)).map (·.1) ++ [tag]) → (t, body) ∈ M := by
      intro t ht
      rcases (hgrp t).mp ht with ⟨_, h2⟩ | rfl
      · exact h2
      · exact htag
    have hMm : ∀ e ∈ M, e ∈ m := fun e he => h.sub.subset he
    refine ⟨?_, ?_, ?_, ?_, ?_, ?_, ?_, ?_⟩
    · exact (List.filter_sublist).trans h.sub
    · intro e he
      rw [printed_append]
      rcases h.covered e he with h1 | h1
      · by_cases hs : sameAs tag body e = true
        · right
          have := (sameAs_iff tag body e).mp hs
          simp only [List.mem_append]
          right
          exact (hgrp e.1).mpr (Or.inl ⟨this.1, by rw [← this.2]; exact h1⟩)
        · left
          simp only [List.mem_filter, h1, true_and]
          simpa using hs
      · right; simp [h1]
    · intro e he
      rw [printed_append]
      have heM : e ∈ M := (List.mem_filter.mp he).1
      rcases h.live e heM with h1 | h1
      · simp only [List.mem_cons] at h1
        rcases h1 with h1 | h1
        · right
          simp only [List.mem_append]
          right; exact (hgrp e.1).mpr (Or.inr h1)
        · exact Or.inl h1
      · right; simp [h1]
    · intro blk hb t ht
      simp only [List.mem_append, List.mem_singleton] at hb
      rcases hb with hb | rfl
      · exact h.bodies blk hb t ht
      · exact assoc_of_mem hm (hMm _ (hgrpM t ht))
    · intro blk hb e he ht
      have heM : e ∈ M := (List.mem_filter.mp he).1
      simp only [List.mem_append, List.mem_singleton] at hb
      rcases hb with hb | rfl
      · exact h.fresh blk hb e heM (by simp [ht])
      · intro hbody
        have hns : ¬ (sameAs tag body e = true) := by
          have := (List.mem_filter.mp he).2; simpa using this
        rw [sameAs_iff] at hns
        have : e.1 = tag := Classical.byContradiction fun hne => hns ⟨hne, hbody⟩
        rw [this] at ht
        exact (List.nodup_cons.mp hnd).1 ht
    · simp only [List.map_append, List.map_cons, List.map_nil]
      refine List.nodup_append.mpr ⟨h.bodyOnce, by simp, ?_⟩
      intro x hx y hy
      simp only [List.mem_singleton] at hy
      obtain ⟨blk, hblk, rfl⟩ := List.mem_map.mp hx
      rw [hy]
      exact Ne.symm (hunpr blk hblk)
    · rw [printed_append]
      refine List.nodup_append.mpr ⟨h.once, ?_, ?_⟩
      · have hp : (strSort ((M.filter (sameAs tag body)).map (·.1) ++ [tag])).Perm
            ((M.filter (sameAs tag body)).map (·.1) ++ [tag]) := stableSort_perm _ _
        refine hp.nodup_iff.mpr (List.nodup_append.mpr ⟨?_, by simp, ?_⟩)
        · exact (keys_sublist (List.filter_sublist (l := M) (p := sameAs tag body))).nodup hMnd
        · intro x hx y hy
          simp only [List.mem_singleton] at hy
          obtain ⟨e, he, rfl⟩ := List.mem_map.mp hx
          rw [hy]
          exact ((sameAs_iff tag body e).mp (List.mem_filter.mp he).2).1
      · intro x hx y hy hxy
        subst hxy
        obtain ⟨blk, hblk, hat⟩ := List.mem_flatMap.mp hx
        have h1 := h.bodies blk hblk x hat
        have h2 := assoc_of_mem hm (hMm _ (hgrpM x hy))
        simp only at h2
        rw [h1] at h2
        exact hunpr blk hblk (Option.some.inj h2).symm
    · intro blk hb
      simp only [List.mem_append, List.mem_singleton] at hb
      rcases hb with hb | rfl
      · exact h.nonempty blk hb
      · intro h0
        simp only at h0
        have := (hgrp tag).mpr (Or.inr rfl)
        rw [h0] at this; simp at this

theorem coalesce_fold (m : Tab) (hm : (keys m).Nodup) : ∀ (l : List Str) (st), l.Nodup → CInv m st l →
    CInv m (l.foldl coalesceStep st) []
  | [], _, _, h => h
  | t :: l, st, hnd, h =>
    coalesce_fold m hm l _ (List.nodup_cons.mp hnd).2 (coalesceStep_inv m hm st t l hnd h)

theorem coalesce_inv (m : Tab) (hm : (keys m).Nodup) (ks : List Str) (hks : ks.Perm (keys m)) :
    CInv m ((sortn ks).foldl coalesceStep (m, [])) [] := by
  have hs : (sortn ks).Perm ks := sortn_perm _
  apply coalesce_fold m hm
  · exact (hs.trans hks).nodup_iff.mpr hm
  · refine ⟨List.Sublist.refl _, fun e he => Or.inl he, ?_, by simp, by simp, by simp, by simp [printed], by simp⟩
    intro e he
    left
    exact (hs.trans hks).mem_iff.mpr (List.mem_map.mpr ⟨e, he, rfl⟩)

end PdshVerif.Dshbak
