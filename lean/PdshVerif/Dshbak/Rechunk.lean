import PdshVerif.Dshbak.CompressLemmas

/-! the repair of F19-MANYRANGES: printing a prefix with several brackets changes nothing the
header denotes -/
namespace PdshVerif.Dshbak

theorem piecesOf_flatten (k : Nat) : ∀ (l acc : List Run), (piecesOf k l acc).flatten = acc.reverse ++ l
  | [], acc => by
    simp only [piecesOf]
    split <;> simp_all
  | r :: rs, acc => by
    simp only [piecesOf]
    split
    · simp [piecesOf_flatten k rs []]
    · simp [piecesOf_flatten k rs (r :: acc)]

theorem piecesOf_ne (k : Nat) : ∀ (l acc : List Run), ∀ c ∈ piecesOf k l acc, c ≠ []
  | [], acc, c, hc => by
    simp only [piecesOf] at hc
    split at hc
    · simp at hc
    · rename_i h
      simp only [List.mem_singleton] at hc
      subst hc
      simpa using h
  | r :: rs, acc, c, hc => by
    simp only [piecesOf] at hc
    split at hc
    · simp only [List.mem_cons] at hc
      rcases hc with rfl | hc
      · simp
      · exact piecesOf_ne k rs [] c hc
    · exact piecesOf_ne k rs (r :: acc) c hc

theorem piecesOf_len (k : Nat) : ∀ (l acc : List Run), acc.length < k → ∀ c ∈ piecesOf k l acc, c.length ≤ k
  | [], acc, h, c, hc => by
    simp only [piecesOf] at hc
    split at hc
    · simp at hc
    · simp only [List.mem_singleton] at hc
      subst hc
      simp only [List.length_reverse]; omega
  | r :: rs, acc, h, c, hc => by
    simp only [piecesOf] at hc
    split at hc
    · rename_i hk
      simp only [List.mem_cons] at hc
      rcases hc with rfl | hc
      · simp only [List.length_reverse, List.length_cons]; omega
      · exact piecesOf_len k rs [] (by simp only [List.length_nil]; omega) c hc
    · rename_i hk
      exact piecesOf_len k rs (r :: acc) (by simp only [List.length_cons]; omega) c hc

theorem mem_of_mem_piece {k : Nat} {l : List Run} {c : List Run} (hc : c ∈ piecesOf k l []) {r : Run}
    (hr : r ∈ c) : r ∈ l := by
  have := piecesOf_flatten k l []
  simp only [List.reverse_nil, List.nil_append] at this
  rw [← this]
  exact List.mem_flatten.mpr ⟨c, hc, hr⟩

/-- a list that fits one piece stays one piece -/
theorem piecesOf_single (k : Nat) (r : Run) (hk : k ≠ 1) : piecesOf k [r] [] = [[r]] := by
  simp only [piecesOf, List.length_nil, Nat.zero_add]
  split
  · rename_i h; exact absurd h.symm (by omega)
  · simp

theorem splitElem_hosts (mr : Option Nat) (e : Elem) : (splitElem mr e).flatMap Elem.hosts = e.hosts := by
  cases mr with
  | none => simp [splitElem]
  | some k =>
    simp only [splitElem, List.flatMap_map, Elem.hosts]
    have hfl := piecesOf_flatten k e.runs []
    simp only [List.reverse_nil, List.nil_append] at hfl
    have : ∀ (cs : List (List Run)),
        cs.flatMap (fun c => (c.flatMap Run.nums).map fun n => e.pre ++ n ++ e.suf) =
          (cs.flatten.flatMap Run.nums).map fun n => e.pre ++ n ++ e.suf := by
      intro cs
      induction cs with
      | nil => rfl
      | cons c cs ih =>
        simp only [List.flatMap_cons, ih, List.flatten_cons, List.flatMap_append, List.map_append]
    rw [this, hfl]

theorem hostsOf_rechunk (mr : Option Nat) (gs : List (List Elem)) : hostsOf (rechunk mr gs) = hostsOf gs := by
  unfold hostsOf rechunk
  induction gs with
  | nil => rfl
  | cons g gs ih =>
    simp only [List.map_cons, List.flatten_cons, List.flatMap_append, ih]
    congr 1
    induction g with
    | nil => rfl
    | cons e es ihe => simp only [List.flatMap_cons, List.flatMap_append, splitElem_hosts, ihe]

/-- what is known about a piece of an element -/
theorem splitElem_mem {mr : Option Nat} {e e' : Elem} (h : e' ∈ splitElem mr e) (hne : e.runs ≠ []) :
    e'.pre = e.pre ∧ e'.suf = e.suf ∧ e'.runs ≠ [] ∧ (∀ r ∈ e'.runs, r ∈ e.runs) ∧
    (∀ k, mr = some k → 0 < k → e'.runs.length ≤ k) := by
  cases mr with
  | none =>
    simp only [splitElem, List.mem_singleton] at h
    subst h
    exact ⟨rfl, rfl, hne, fun _ h => h, fun k hk => by simp at hk⟩
  | some k =>
    simp only [splitElem, List.mem_map] at h
    obtain ⟨c, hc, rfl⟩ := h
    refine ⟨rfl, rfl, piecesOf_ne k _ _ c hc, fun r hr => mem_of_mem_piece hc hr, fun k' hk' hpos => ?_⟩
    simp only [Option.some.injEq] at hk'
    subst hk'
    exact piecesOf_len k _ [] (by simpa using hpos) c hc

theorem mem_rechunk {mr : Option Nat} {gs : List (List Elem)} {grp : List Elem} (h : grp ∈ rechunk mr gs)
    {e' : Elem} (he : e' ∈ grp) : ∃ g ∈ gs, ∃ e ∈ g, e' ∈ splitElem mr e := by
  simp only [rechunk, List.mem_map] at h
  obtain ⟨g, hg, rfl⟩ := h
  obtain ⟨e, he1, he2⟩ := List.mem_flatMap.mp he
  exact ⟨g, hg, e, he1, he2⟩

/-- with F19-LONGRUN repaired, no range element of a header spans more than `m` numbers — in every
form of `compress` -/
theorem compressV_within (m : Nat) (hm : 0 < m) (mr : Option Nat) (stemFix : Bool) (tags : List Str) :
    ∀ grp ∈ compressV (some m) mr stemFix tags, ∀ e ∈ grp, Within m e.runs := by
  intro grp hgrp e' he'
  obtain ⟨g, hg, e, he, hsp⟩ := mem_rechunk hgrp he'
  have hw := compressBase_within m hm stemFix tags g hg e he
  intro r hr
  cases mr with
  | none =>
    simp only [splitElem, List.mem_singleton] at hsp
    subst hsp
    exact hw r hr
  | some k =>
    simp only [splitElem, List.mem_map] at hsp
    obtain ⟨c, hc, rfl⟩ := hsp
    exact hw r (mem_of_mem_piece hc hr)

end PdshVerif.Dshbak
