import PdshVerif.Gen.Consts
import PdshVerif.Base.Hex
import PdshVerif.Cbuf.Model
import PdshVerif.Cbuf.Spec
