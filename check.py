#!/usr/bin/env python3
"""./check.py Cnn [--tier quick|thorough] [--replay FILE]

Exit 0: the property held on everything explored (KNOWN-FINDING lines allowed).
Exit 1: prints `VIOLATION property=Cnn replay=<path>` (ending in
`no-failing-input-found` when only a theorem/correspondence is broken).
Env: VERIF_SEED (default 1), VERIF_TIER (overridden by --tier).
"""
import argparse
import importlib
import os
import sys
import traceback

sys.path.insert(0, os.path.dirname(os.path.abspath(__file__)))
from vlib.common import Ctx  # noqa: E402


def main():
    ap = argparse.ArgumentParser()
    ap.add_argument("prop")
    ap.add_argument("--tier", default=os.environ.get("VERIF_TIER", "quick"), choices=["quick", "thorough"])
    ap.add_argument("--replay", default=None)
    a = ap.parse_args()
    seed = int(os.environ.get("VERIF_SEED", "1") or 1)
    prop = a.prop.upper()
    mod = importlib.import_module("checks." + prop.lower())
    ctx = Ctx(prop, a.tier, seed)
    ctx.replay = a.replay
    try:
        rc = mod.run(ctx)
    except Exception:
        traceback.print_exc()
        # an internal failure of the machinery is never reported as a pass
        ctx.broken.append(("C-BROKEN", "check machinery", traceback.format_exc()[-1500:]))
        rc = ctx.finish(getattr(mod, "LEVEL", "proof"), {"evaluations": 0, "distinct_nontrivial": 0,
                                                          "rule": "check aborted", "samples": []},
                        [], [], "n/a")
    finally:
        ctx.cleanup()
    sys.exit(rc)


if __name__ == "__main__":
    main()
