#!/bin/bash
# usage: run_all.sh [tier] [seed]  -- every registered check once; prints one line per check
T=${1:-quick}; S=${2:-1}
cd "$(dirname "$0")/.."
for p in $(python3 -c "import json; print(' '.join(c['property_id'] for c in json.load(open('MANIFEST.json'))['checks']))"); do
  out=$(VERIF_SEED=$S ./check.py $p --tier $T 2>&1); rc=$?
  kf=$(echo "$out" | grep -c '^KNOWN-FINDING')
  vi=$(echo "$out" | grep -c '^VIOLATION')
  echo "$p rc=$rc known=$kf violations=$vi $(echo "$out" | grep 'done rc' | sed 's/.*done rc=[0-9]* //')"
done
