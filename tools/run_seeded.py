#!/usr/bin/env python3
"""Run every kept seeded change (seeded/<id>/patch.diff + meta.json) against the check of the
property it breaks: apply to /repo, run the check, undo.  Writes seeded/RESULTS.md.

usage: tools/run_seeded.py [--tier quick|thorough] [--only ID ...] [--seeds 1,2]
"""
import argparse
import json
import os
import subprocess
import sys
import time

V = os.path.dirname(os.path.dirname(os.path.abspath(__file__)))
R = "/repo"


def sh(cmd, **kw):
    return subprocess.run(cmd, shell=True, stdout=subprocess.PIPE, stderr=subprocess.STDOUT, **kw)


def main():
    ap = argparse.ArgumentParser()
    ap.add_argument("--tier", default="quick")
    ap.add_argument("--only", nargs="*")
    ap.add_argument("--seeds", default="1")
    ap.add_argument("--in-repo", action="store_true",
                    help="apply to /repo itself (git -C /repo apply ... checkout) instead of a scratch copy; "
                         "only when nothing else is using /repo")
    a = ap.parse_args()
    global R
    if not a.in_repo:
        # scratch copy of /repo's working tree: sub-agents and background runs keep seeing the real tree
        # (a directory of its own per invocation: several invocations may run at the same time)
        import tempfile
        R = tempfile.mkdtemp(prefix="pdsh-seeded-repo-", dir="/var/tmp")
        sh("rmdir %s && cp -a /repo %s" % (R, R))
        os.environ["VERIF_REPO"] = R
    sdir = os.path.join(V, "seeded")
    rows = []
    dirty = sh("git -C %s status" % R + " --porcelain --untracked-files=no").stdout.decode().strip() if False else sh("git -C " + R + " status --porcelain --untracked-files=no").stdout.decode().strip()
    if dirty:
        print("refusing: /repo has uncommitted tracked changes:\n" + dirty)
        sys.exit(2)
    for sid in sorted(os.listdir(sdir)):
        d = os.path.join(sdir, sid)
        if not os.path.isdir(d) or not os.path.exists(os.path.join(d, "patch.diff")):
            continue
        if a.only and sid not in a.only:
            continue
        meta = json.load(open(os.path.join(d, "meta.json")))
        props = meta.get("checks") or [meta["property"]]
        for prop in props:
            for seed in a.seeds.split(","):
                p = sh("git -C %s apply %s" % (R, os.path.join(d, "patch.diff")))
                if p.returncode != 0:
                    rows.append((sid, prop, seed, "PATCH-DOES-NOT-APPLY", "", 0))
                    continue
                t0 = time.time()
                try:
                    r = sh("cd %s && VERIF_SEED=%s ./check.py %s --tier %s" % (V, seed, prop, a.tier), timeout=3600)
                    out = r.stdout.decode("utf-8", "replace")
                    rc = r.returncode
                finally:
                    sh("git -C %s checkout -- ." % R)
                    # a run against a seeded change must not leave its evidence behind
                    sh("git -C %s checkout -- evidence/%s.json" % (V, prop))
                viol = [l for l in out.splitlines() if l.startswith("VIOLATION")]
                kind = "missed"
                if rc != 0 and viol:
                    kind = "caught (no-failing-input-found)" if all("no-failing-input-found" in v for v in viol) \
                        else "caught with replay"
                what = ""
                for l in out.splitlines():
                    if "violation:" in l or "broken:" in l:
                        what = l.split("]", 1)[-1].strip()[:160]
                        break
                rows.append((sid, prop, seed, kind, what, round(time.time() - t0)))
                print(sid, prop, "seed", seed, kind, flush=True)
    # results accumulate across invocations (latest run per change/check/seed/tier wins)
    rj = os.path.join(sdir, "results.json")
    allr = json.load(open(rj)) if os.path.exists(rj) else {}
    head = sh("git -C /repo rev-parse --short HEAD").stdout.decode().strip()
    for r in rows:
        allr["%s|%s|%s|%s" % (r[0], r[1], r[2], a.tier)] = {"change": r[0], "check": r[1], "seed": r[2], "tier": a.tier,
                                                           "result": r[3], "first_report": r[4], "s": r[5],
                                                           "repo_head": head}
    json.dump(allr, open(rj, "w"), indent=1, sort_keys=True)
    with open(os.path.join(sdir, "RESULTS.md"), "w") as f:
        f.write("# Seeded changes vs checks (latest run of each change/check/seed/tier)\n\n"
                "| seeded change | check | seed | tier | result | first report | s | /repo HEAD |\n"
                "|---|---|---|---|---|---|---|---|\n")
        for k in sorted(allr):
            r = allr[k]
            f.write("| %s | %s | %s | %s | %s | %s | %s | %s |\n" % tuple(
                str(r[x]).replace("|", "\\|") for x in ("change", "check", "seed", "tier", "result", "first_report", "s", "repo_head")))
    # the generated constants were regenerated from the mutated copy: back to the committed ones
    sh("git -C %s checkout -- lean/PdshVerif/Gen" % V)
    if not a.in_repo:
        sh("rm -rf %s" % R)
    missed = [r for r in rows if r[3] == "missed"]
    print("%d runs, %d missed" % (len(rows), len(missed)))


if __name__ == "__main__":
    main()
