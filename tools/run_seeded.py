#!/usr/bin/env python3
"""Run every kept seeded change (seeded/<id>/patch.diff + meta.json) against the check of the
property it breaks: apply to /repo, run the check, undo.  Writes seeded/RESULTS.md.

usage: tools/run_seeded.py [--tier quick|thorough] [--only ID ...] [--seeds 1,2]
"""
import argparse
import json
import os
import subprocess
import sys
import time

V = os.path.dirname(os.path.dirname(os.path.abspath(__file__)))


def sh(cmd, **kw):
    return subprocess.run(cmd, shell=True, stdout=subprocess.PIPE, stderr=subprocess.STDOUT, **kw)


def main():
    ap = argparse.ArgumentParser()
    ap.add_argument("--tier", default="quick")
    ap.add_argument("--only", nargs="*")
    ap.add_argument("--seeds", default="1")
    a = ap.parse_args()
    sdir = os.path.join(V, "seeded")
    rows = []
    dirty = sh("git -C /repo status --porcelain --untracked-files=no").stdout.decode().strip()
    if dirty:
        print("refusing: /repo has uncommitted tracked changes:\n" + dirty)
        sys.exit(2)
    for sid in sorted(os.listdir(sdir)):
        d = os.path.join(sdir, sid)
        if not os.path.isdir(d) or not os.path.exists(os.path.join(d, "patch.diff")):
            continue
        if a.only and sid not in a.only:
            continue
        meta = json.load(open(os.path.join(d, "meta.json")))
        props = meta.get("checks") or [meta["property"]]
        for prop in props:
            for seed in a.seeds.split(","):
                p = sh("git -C /repo apply %s" % os.path.join(d, "patch.diff"))
                if p.returncode != 0:
                    rows.append((sid, prop, seed, "PATCH-DOES-NOT-APPLY", "", 0))
                    continue
                t0 = time.time()
                try:
                    r = sh("cd %s && VERIF_SEED=%s ./check.py %s --tier %s" % (V, seed, prop, a.tier), timeout=3600)
                    out = r.stdout.decode("utf-8", "replace")
                    rc = r.returncode
                finally:
                    sh("git -C /repo checkout -- .")
                viol = [l for l in out.splitlines() if l.startswith("VIOLATION")]
                kind = "missed"
                if rc != 0 and viol:
                    kind = "caught (no-failing-input-found)" if all("no-failing-input-found" in v for v in viol) \
                        else "caught with replay"
                what = ""
                for l in out.splitlines():
                    if "violation:" in l or "broken:" in l:
                        what = l.split("]", 1)[-1].strip()[:160]
                        break
                rows.append((sid, prop, seed, kind, what, round(time.time() - t0)))
                print(sid, prop, "seed", seed, kind, flush=True)
    with open(os.path.join(sdir, "RESULTS.md"), "w") as f:
        f.write("# Seeded changes vs checks (tier %s)\n\n| seeded change | check | seed | result | first report | s |\n"
                "|---|---|---|---|---|---|\n" % a.tier)
        for r in rows:
            f.write("| %s | %s | %s | %s | %s | %s |\n" % tuple(str(x).replace("|", "\\|") for x in r))
    missed = [r for r in rows if r[3] == "missed"]
    print("%d runs, %d missed" % (len(rows), len(missed)))


if __name__ == "__main__":
    main()
