#!/usr/bin/env python3
"""Run every kept HARMLESS change (harmless/<id>/patch.diff + meta.json: a refactoring or a change of
behaviour the property does not constrain, produced by an independent sub-agent from the property text
alone) against the check of its property on a private scratch copy of /repo.  Expected: silence (rc 0).
A VIOLATION that names a failing input would be a false alarm; a VIOLATION ending in no-failing-input-found
is the "tie broken by a harmless rewrite" case the brief allows.  Writes harmless/results.json + RESULTS.md.
usage: tools/run_harmless.py [--only ID ...] [--seeds 1,2] [--tier quick]"""
import argparse, json, os, subprocess, tempfile, time
V = os.path.dirname(os.path.dirname(os.path.abspath(__file__)))
def sh(cmd, **kw):
    return subprocess.run(cmd, shell=True, stdout=subprocess.PIPE, stderr=subprocess.STDOUT, **kw)
def main():
    ap = argparse.ArgumentParser(); ap.add_argument("--only", nargs="*"); ap.add_argument("--seeds", default="1")
    ap.add_argument("--tier", default="quick"); a = ap.parse_args()
    R = tempfile.mkdtemp(prefix="pdsh-harmless-repo-", dir="/var/tmp"); sh("rmdir %s && cp -a /repo %s" % (R, R))
    os.environ["VERIF_REPO"] = R
    hdir = os.path.join(V, "harmless"); rows = []
    for hid in sorted(os.listdir(hdir)):
        d = os.path.join(hdir, hid)
        if not os.path.isdir(d) or (a.only and hid not in a.only): continue
        meta = json.load(open(os.path.join(d, "meta.json")))
        for prop in (meta.get("checks") or [hid.split("-")[0]]):
            for seed in a.seeds.split(","):
                if sh("git -C %s apply %s" % (R, os.path.join(d, "patch.diff"))).returncode != 0:
                    rows.append((hid, prop, seed, "PATCH-DOES-NOT-APPLY", "", 0)); continue
                t0 = time.time()
                try:
                    r = sh("cd %s && VERIF_SEED=%s ./check.py %s --tier %s" % (V, seed, prop, a.tier), timeout=3600)
                    out, rc = r.stdout.decode("utf-8", "replace"), r.returncode
                finally:
                    sh("git -C %s checkout -- ." % R); sh("git -C %s checkout -- evidence/%s.json" % (V, prop))
                viol = [l for l in out.splitlines() if l.startswith("VIOLATION")]
                kind = "silent" if rc == 0 and not viol else ("tie-broken (no-failing-input-found)" if viol and all(
                    "no-failing-input-found" in v for v in viol) else "ALARM-WITH-REPLAY")
                what = next((l.split("]", 1)[-1].strip()[:200] for l in out.splitlines() if "violation:" in l or "broken:" in l), "")
                rows.append((hid, prop, seed, kind, what, round(time.time() - t0))); print(hid, prop, "seed", seed, kind, flush=True)
    rj = os.path.join(hdir, "results.json"); allr = json.load(open(rj)) if os.path.exists(rj) else {}
    head = sh("git -C /repo rev-parse --short HEAD").stdout.decode().strip()
    for r in rows:
        allr["%s|%s|%s|%s" % (r[0], r[1], r[2], a.tier)] = dict(change=r[0], check=r[1], seed=r[2], tier=a.tier, result=r[3],
                                                           first_report=r[4], s=r[5], repo_head=head)
    json.dump(allr, open(rj, "w"), indent=1, sort_keys=True)
    with open(os.path.join(hdir, "RESULTS.md"), "w") as f:
        f.write("# Harmless changes vs checks (expected: silent)\n\n| change | kind | what it does | check | seed | result | first report |\n|---|---|---|---|---|---|---|\n")
        for k in sorted(allr):
            r = allr[k]; mp = os.path.join(hdir, r["change"], "meta.json"); m = json.load(open(mp)) if os.path.exists(mp) else {}
            f.write("| %s | %s | %s | %s | %s | %s | %s |\n" % (r["change"], m.get("kind", ""), str(m.get("summary", ""))[:200].replace("|", "/").replace("\n", " "),
                                                       r["check"], r["seed"], r["result"], str(r["first_report"]).replace("|", "/")))
    sh("git -C %s checkout -- lean/PdshVerif/Gen" % V)
    sh("rm -rf %s" % R); print("%d runs; not silent: %d" % (len(rows), len([r for r in rows if r[3] != "silent"])))
if __name__ == "__main__":
    main()
