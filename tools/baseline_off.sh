#!/bin/sh
# Runs chaos/pdsh's own test suite on a scratch copy of /repo's working tree with the
# verification guard OFF (no -DCHAOS_PDSH_VERIF anywhere; the default build never defines it).
set -e
T=$(mktemp -d "${TMPDIR:-/var/tmp}/pdsh-baseline-XXXXXX")
trap 'rm -rf "$T"' EXIT
cp -a /repo "$T/repo"
cd "$T/repo"
make clean >/dev/null 2>&1 || true
rm -f src/pdsh/testconfig.c
make -j16 >/dev/null 2>&1
make check 2>&1 | tee "$T/check.log" | grep -E "^(ok|not ok|PASS|FAIL|# )" || true
grep -c "^ok" "$T/check.log" | sed 's/^/ok-lines: /'
