#!/bin/sh
# usage: try_seeded.sh <patch.diff> <Cnn> [tier]  -- apply a seeded change to /repo, run the check, undo it
P="$1"; C="$2"; T="${3:-quick}"
git -C /repo apply "$P" || { echo "patch does not apply"; exit 2; }
cd /verif && ./check.py "$C" --tier "$T"; RC=$?
git -C /repo checkout -- .
echo "check exit: $RC"
exit $RC
