#!/bin/sh
# usage: mk_mut_worktree.sh <dir>   -- scratch git worktree of /repo (outside /repo and /verif) with the
# untracked autotools build files copied in and a fresh build, for independent seeded-change agents.
set -e
D="$1"
git -C /repo worktree add --detach "$D" HEAD >/dev/null 2>&1
rsync -a --ignore-existing --exclude .git /repo/ "$D"/
cd "$D"
make clean >/dev/null 2>&1 || true
rm -f src/pdsh/testconfig.c
make -j8 >/dev/null 2>&1
echo "ready: $D"
