#!/usr/bin/env python3
"""
c2lean -- translate small PURE C functions of /repo into Lean 4 (core only) definitions.

Front end : clang-14 -Xclang -ast-dump=json on the real translation unit (real include paths,
            -DHAVE_CONFIG_H; -D__NO_CTYPE so that isdigit() & co. stay function calls).
Output    : lean/PdshVerif/Gen/Fn<Unit>.lean, namespace PdshVerif.Gen.Fn.<Unit>, byte-identical
            when the source is unchanged.
Semantics : see tools/c2lean.md.  In one paragraph: unsigned C integers are `Nat` (< 2^w, every
            operation wraps with an explicit `% 2^w`), signed C integers are `Int`; every
            function returns `Option`: `none` = undefined behaviour (signed overflow, division
            by zero, shift out of range, out-of-bounds read) or loop fuel exhausted.  Anything
            outside the subset raises `Unsupported` for that function (never guessed).

usage: c2lean.py [--repo /repo] [--targets tools/c2lean_targets.json] [--out lean/PdshVerif/Gen]
                 [--unit U ...] [--check]
exit status 0 = every requested function translated, 1 = some function failed (listed on stderr;
the unit file is still written, with the failed functions missing, so that the bridge build fails).
"""
import json, os, re, subprocess, sys, argparse

HERE = os.path.dirname(os.path.abspath(__file__))
ROOT = os.path.dirname(HERE)


class Unsupported(Exception):
    pass


LEAN_KEYWORDS = {
    'prefix', 'infix', 'infixl', 'infixr', 'postfix', 'notation', 'end', 'at', 'from', 'in', 'fun', 'meta',
    'new', 'open', 'local', 'private', 'protected', 'where', 'with', 'then', 'else', 'if', 'do', 'let',
    'have', 'show', 'match', 'by', 'namespace', 'section', 'variable', 'universe', 'instance', 'class',
    'structure', 'inductive', 'def', 'theorem', 'example', 'abbrev', 'import', 'export', 'mutual', 'macro',
    'syntax', 'set_option', 'attribute', 'deriving', 'extends', 'return', 'for', 'unless', 'try', 'catch',
    'finally', 'mut', 'using', 'calc', 'forall', 'exists', 'Type', 'Prop', 'Sort', 'some', 'none', 'fuel',
    'partial', 'unsafe', 'opaque', 'axiom', 'noncomputable', 'nomatch', 'nofun', 'omit', 'include', 'suffices',
    'obtain', 'rec', 'scoped', 'elab', 'termination_by', 'decreasing_by', 'initialize', 'builtin_initialize',
}


def lname(c):
    return c + '_' if c in LEAN_KEYWORDS else c


# ------------------------------------------------------------------ C types (LP64, gcc/clang x86-64)
INT_TYPES = {
    'char': ('s', 8), 'signed char': ('s', 8), 'unsigned char': ('u', 8),
    'short': ('s', 16), 'unsigned short': ('u', 16),
    'int': ('s', 32), 'unsigned int': ('u', 32), 'unsigned': ('u', 32),
    'long': ('s', 64), 'unsigned long': ('u', 64),
    'long long': ('s', 64), 'unsigned long long': ('u', 64),
    '_Bool': ('u', 1), 'bool': ('u', 1),
}


def is_int(t):
    return t[0] in ('u', 's')


def trange(t):
    if t[0] == 'u':
        return 0, (1 << t[1]) - 1
    return -(1 << (t[1] - 1)), (1 << (t[1] - 1)) - 1


def lean_ty(t):
    if t[0] == 'u':
        return 'Nat'
    if t[0] == 's':
        return 'Int'
    if t[0] == 'struct':
        return t[2]
    if t[0] == 'str':
        return 'List Char'
    if t[0] == 'bytes':
        return 'List Nat'
    if t[0] == 'trace':
        return 'List Ev'
    if t[0] == 'boolp':
        return 'Bool'
    raise Unsupported('no Lean type for C type %r' % (t,))


class V:
    """value of a translated expression: Lean code, C type, python constant if known"""
    def __init__(self, code, ty, const=None, atom=False):
        self.code, self.ty, self.const, self.atom = code, ty, const, atom

    def p(self):
        return self.code if self.atom else '(' + self.code + ')'


def lit(n, ty):
    if not is_int(ty):
        raise Unsupported('literal of non-integer type')
    lo, hi = trange(ty)
    if not (lo <= n <= hi):
        raise Unsupported('constant %d outside %r' % (n, ty))
    if ty[0] == 'u':
        return V('(%d : Nat)' % n, ty, n, True)
    return V('(%d : Int)' % n, ty, n, True)


class Var:
    def __init__(self, cname, kind, ty, name=None, extra=None):
        self.cname, self.kind, self.ty = cname, kind, ty
        self.name = name or lname(cname)
        self.extra = extra


# ------------------------------------------------------------------ translation unit
class TU:
    def __init__(self, repo, cfile):
        cmd = ['clang-14', '-fsyntax-only', '-w', '-DHAVE_CONFIG_H', '-D__NO_CTYPE',
               '-I' + repo, '-I' + os.path.join(repo, 'src/pdsh'), '-I' + os.path.join(repo, 'src/common'),
               '-Xclang', '-ast-dump=json', os.path.join(repo, cfile)]
        r = subprocess.run(cmd, capture_output=True, text=True)
        if r.returncode != 0 or not r.stdout:
            raise Unsupported('clang failed on %s: %s' % (cfile, r.stderr[-400:]))
        self.ast = json.loads(r.stdout)
        with open(os.path.join(repo, cfile), 'rb') as f:
            self.src = f.read()
        self.funcs, self.records, self.recname, self.typedefs, self.enumconst, self.enums = {}, {}, {}, {}, {}, {}
        self.globals = {}
        for n in self.ast['inner']:
            self._collect(n)

    def _collect(self, n):
        k = n.get('kind')
        if k == 'FunctionDecl':
            if any(c.get('kind') == 'CompoundStmt' for c in n.get('inner', [])):
                self.funcs[n['name']] = n
        elif k == 'RecordDecl':
            if n.get('completeDefinition'):
                self.records[n['id']] = n
                if n.get('name'):
                    self.recname[n.get('tagUsed', 'struct') + ' ' + n['name']] = n['id']
        elif k == 'TypedefDecl':
            self.typedefs[n['name']] = n
        elif k == 'EnumDecl':
            prev, vals = -1, []
            for c in n.get('inner', []):
                if c.get('kind') != 'EnumConstantDecl':
                    continue
                v = None
                for cc in c.get('inner', []):
                    v = self._constval(cc)
                if v is None:
                    v = prev + 1
                prev = v
                vals.append(v)
                self.enumconst[c['id']] = v
            ty = ('s', 32) if any(v < 0 for v in vals) else ('u', 32)
            self.enums[n['id']] = ty
            if n.get('name'):
                self.recname['enum ' + n['name']] = n['id']
        elif k == 'VarDecl':
            self.globals[n['id']] = n

    def _constval(self, n):
        if 'value' in n and n.get('kind') in ('ConstantExpr', 'IntegerLiteral'):
            return int(n['value'])
        for c in n.get('inner', []):
            v = self._constval(c)
            if v is not None:
                return v
        return None

    # ---- types
    def ty(self, tj):
        return self.ty_s(tj.get('desugaredQualType') or tj['qualType'])

    def ty_s(self, s):
        s = s.strip()
        s = re.sub(r'\b(const|volatile|restrict|__restrict)\b', '', s).strip()
        s = re.sub(r'\s+', ' ', s)
        s = re.sub(r' \*', '*', s)
        if s.endswith('*'):
            return ('ptr', self.ty_s(s[:-1]))
        if s in INT_TYPES:
            return INT_TYPES[s]
        if s == 'void':
            return ('void',)
        if s in self.recname:
            i = self.recname[s]
            if s.startswith('enum '):
                return self.enums[i]
            return ('struct', i, lname(self.records[i].get('name') or 'anon'))
        if s in self.typedefs:
            td = self.typedefs[s]
            rid = self._find_decl(td)
            if rid is not None:
                if rid in self.enums:
                    return self.enums[rid]
                if rid in self.records:
                    return ('struct', rid, lname(self.records[rid].get('name') or s))
            t = td['type']
            inner = t.get('desugaredQualType') or t['qualType']
            if inner != s:
                return self.ty_s(inner)
        raise Unsupported('C type `%s` outside the subset' % s)

    def _find_decl(self, n):
        # a typedef of a (possibly anonymous) struct / enum: only when the typedef is not a pointer
        t = n['type'].get('desugaredQualType') or n['type']['qualType']
        if '*' in t or '(' in t.replace('(unnamed', '').replace('(anonymous', ''):
            return None
        stack = list(n.get('inner', []))
        while stack:
            c = stack.pop()
            if c.get('kind') in ('RecordType', 'EnumType') and 'decl' in c:
                return c['decl']['id']
            stack.extend(c.get('inner', []))
        return None

    def field(self, rid, fname):
        for f in self.records[rid].get('inner', []):
            if f.get('kind') == 'FieldDecl' and f.get('name') == fname:
                t = self.ty(f['type'])
                if f.get('isBitfield'):
                    w = self._constval(f)
                    if w is None or not is_int(t):
                        raise Unsupported('bitfield %s' % fname)
                    t = (t[0], w)
                return self.field_ty(t, fname)
        raise Unsupported('no field %s' % fname)

    @staticmethod
    def field_ty(t, fname):
        if is_int(t):
            return t
        if t == ('ptr', ('s', 8)):
            return ('str',)
        if t == ('ptr', ('u', 8)):
            return ('bytes',)
        raise Unsupported('struct field `%s` of type %r outside the subset' % (fname, t))


# ------------------------------------------------------------------ helpers over the AST
def kids(n):
    return n.get('inner', [])


def strip(n):
    """skip parentheses and value-preserving wrappers"""
    while True:
        k = n.get('kind')
        if k in ('ParenExpr', 'ConstantExpr') and kids(n):
            n = kids(n)[0]
        elif k in ('ImplicitCastExpr', 'CStyleCastExpr') and n.get('castKind') in ('LValueToRValue', 'NoOp') and kids(n):
            n = kids(n)[0]
        else:
            return n


def walk(n):
    yield n
    for c in kids(n):
        yield from walk(c)


EXIT_KINDS = ('ReturnStmt', 'BreakStmt', 'ContinueStmt', 'GotoStmt')
NORETURN = set()      # names of the functions declared "noreturn" for the function being translated


def call_name(n):
    """name of the directly called function of a CallExpr, or None"""
    if n.get('kind') != 'CallExpr' or not kids(n):
        return None
    f = kids(n)[0]
    while f.get('kind') in ('ImplicitCastExpr', 'ParenExpr', 'CStyleCastExpr') and kids(f):
        f = kids(f)[0]
    if f.get('kind') == 'DeclRefExpr' and f.get('referencedDecl', {}).get('kind') == 'FunctionDecl':
        return f['referencedDecl']['name']
    return None


def is_exit(n):
    return n.get('kind') in EXIT_KINDS or (n.get('kind') == 'CallExpr' and call_name(n) in NORETURN)


def may_exit(n, in_loop=False):
    for x in walk(n):
        if is_exit(x):
            return True
    return False


def falls(n):
    k = n.get('kind')
    if is_exit(n):
        return False
    if k == 'CompoundStmt':
        return all(falls(s) for s in kids(n))
    if k == 'IfStmt':
        ks = kids(n)
        if len(ks) < 3:
            return True
        return falls(ks[1]) or falls(ks[2])
    return True


def node_offset(n):
    """byte offset in the main file where the node begins (the expansion point for macro bodies)"""
    b = n.get('range', {}).get('begin', {})
    if 'expansionLoc' in b:
        b = b['expansionLoc']
    return b.get('offset')


def node_end(n):
    b = n.get('range', {}).get('end', {})
    if 'expansionLoc' in b:
        b = b['expansionLoc']
    return b.get('offset')


def sub_stmts(n):
    """the statements (in statement position) below n, pre-order"""
    k = n.get('kind')
    ks = kids(n)
    if k == 'CompoundStmt':
        subs = ks
    elif k == 'IfStmt':
        subs = ks[1:]
    elif k == 'WhileStmt':
        subs = ks[1:]
    elif k == 'ForStmt':
        subs = ks[4:]
    elif k == 'DoStmt':
        subs = ks[:1]
    elif k in ('SwitchStmt', 'CaseStmt', 'DefaultStmt', 'LabelStmt'):
        subs = ks[-1:]
    else:
        subs = []
    for c in subs:
        if c.get('kind'):
            yield c
            yield from sub_stmts(c)


CTYPE_PRED = {'isdigit': 'isdigitP', 'isspace': 'isspaceP', 'isalpha': 'isalphaP', 'isalnum': 'isalnumP',
              'isupper': 'isupperP', 'islower': 'islowerP', 'isxdigit': 'isxdigitP'}
ENV_INPUT = {'time': ('s', 64), 'getuid': ('u', 32), 'geteuid': ('u', 32), 'getgid': ('u', 32), 'getpid': ('s', 32)}


class FnInfo:
    def __init__(self):
        self.name = None
        self.params = []      # list of Var (kind scalar|struct|str|iptr)
        self.inout = []       # indices into params that are written
        self.ret = None       # C type or ('void',)
        self.globals = []     # list of (leanname, ty)
        self.envin = []       # list of (leanname, ty)
        self.fuel = False
        self.assumes = []


# ------------------------------------------------------------------ function translator
class FnTr:
    def __init__(self, tu, unit, node, spec):
        self.tu, self.unit, self.node, self.spec = tu, unit, node, spec
        self.name = node['name']
        self.allow = set(spec.get('assume', []))
        self.info = FnInfo()
        self.info.name = self.name
        self.aux = []          # auxiliary loop definitions (text)
        self.tmp = 0
        self.nloop = 0
        self.guard = []        # path condition while translating the guarded part of ?: && || / a merged `if`
        self.gw_depth = 0      # the first gw_depth guards come from merged `if` statements: writes allowed under them
        self.loopstack = []
        self.used_fields = unit.used_fields
        self.notes = []
        self.effects = list(spec.get('effects', []))      # calls recorded in the event trace `ev_`
        self.noreturn = list(spec.get('noreturn', []))    # recorded, then the function ends
        self.has_ev = bool(self.effects or self.noreturn)
        self.evvar = Var('ev', 'trace', ('trace',), name='ev_')
        self.errno = None      # None | 'r' | 'w': errno is a parameter `errno_` / also a result
        self.errnovar = Var('errno', 'scalar', ('s', 32), name='errno_')
        self.opaque_ret = False
        self.fragkind = spec.get('kind') if 'in' in spec else None
        self.frag = None
        if 'in' in spec:
            self.name = spec['name']
            self.info.name = self.name
            if self.fragkind not in ('cond', 'stmt', 'body'):
                raise Unsupported('fragment kind %r (cond | stmt | body)' % (self.fragkind,))

    # ---------- small utilities
    def fresh(self, base='t'):
        self.tmp += 1
        return '%s_%d' % (base, self.tmp)

    def assume(self, what, detail):
        if what not in self.allow:
            raise Unsupported('%s needs the assumption "%s" (declare it under "assume" in the registry)' % (detail, what))
        note = 'ASSUME %s: %s' % (what, detail)
        if note not in self.notes:
            self.notes.append(note)

    def gprefix(self):
        return ' ∧ '.join('(' + g + ')' for g in self.guard)

    def check(self, out, prop):
        """undefined behaviour unless `prop` (on the current path)"""
        if self.guard:
            out.append('if %s ∧ ¬(%s) then none else' % (self.gprefix(), prop))
        else:
            out.append('if ¬(%s) then none else' % prop)

    def let(self, out, name, ty, code):
        out.append('let %s : %s := %s' % (name, lean_ty(ty), code))

    # ---------- fragments: a condition / statement INSIDE a large function, found by a regex on its first line
    def locate_fragment(self):
        spec, src = self.spec, self.tu.src
        b, e = node_offset(self.node), node_end(self.node)
        if b is None or e is None:
            raise Unsupported('no source range for `%s`' % self.node['name'])
        try:
            rx = re.compile(spec['at'].encode())
        except re.error as ex:
            raise Unsupported('bad regex %r: %s' % (spec['at'], ex))
        hits, pos = [], src.rfind(b'\n', 0, b) + 1
        while pos <= e:
            nl = src.find(b'\n', pos)
            if nl < 0:
                nl = len(src)
            if rx.search(src[pos:nl]):
                hits.append((pos, nl))
            pos = nl + 1
        if len(hits) != 1:
            raise Unsupported('the regex %r matches %d lines of `%s` (must be exactly one)' % (spec['at'], len(hits), self.node['name']))
        lo, hi = hits[0]
        want = ('IfStmt', 'WhileStmt', 'ForStmt', 'DoStmt') if self.fragkind == 'cond' else \
               ('WhileStmt', 'ForStmt', 'DoStmt') if self.fragkind == 'body' else None
        if spec.get('around'):
            # the innermost loop whose text CONTAINS the matched line (for loops whose first line is not unique)
            best = None
            for st in sub_stmts(self.body()):
                o, oe = node_offset(st), node_end(st)
                if st.get('kind') in ('WhileStmt', 'ForStmt', 'DoStmt') and o is not None and oe is not None and o <= lo and hi <= oe + 1:
                    best = st
            if best is None or self.fragkind != 'body':
                raise Unsupported('no loop around the line matching %r in `%s`' % (spec['at'], self.node['name']))
            return None, kids(best)[{'WhileStmt': 1, 'ForStmt': 4, 'DoStmt': 0}[best['kind']]]
        for st in sub_stmts(self.body()):
            o = node_offset(st)
            if o is None or not (lo <= o <= hi):
                continue
            k = st.get('kind')
            if want is not None and k not in want:
                continue
            ks = kids(st)
            if self.fragkind == 'cond':
                return {'IfStmt': 0, 'WhileStmt': 0, 'ForStmt': 2, 'DoStmt': 1}[k], st
            if self.fragkind == 'body':
                return None, ks[{'WhileStmt': 1, 'ForStmt': 4, 'DoStmt': 0}[k]]
            return None, st
        raise Unsupported('no %s starts on the line matching %r in `%s`' % (
            'if/while/for/do' if self.fragkind == 'cond' else 'loop' if self.fragkind == 'body' else 'statement',
            spec['at'], self.node['name']))

    def elem_key(self, n):
        """`base[idx]` with base a pointer-to-struct variable and idx an integer variable -> key, else None"""
        if n.get('kind') != 'ArraySubscriptExpr':
            return None
        b, i = strip(kids(n)[0]), strip(kids(n)[1])
        while b.get('kind') == 'ImplicitCastExpr':
            b = strip(kids(b)[0])
        while i.get('kind') == 'ImplicitCastExpr':
            i = strip(kids(i)[0])
        if b.get('kind') != 'DeclRefExpr' or i.get('kind') != 'DeclRefExpr':
            return None
        try:
            bt = self.tu.ty(b['type'])
            it = self.tu.ty(i['type'])
        except Unsupported:
            return None
        if bt[0] == 'ptr' and bt[1][0] == 'struct' and is_int(it):
            return ('elem', b['referencedDecl']['id'], i['referencedDecl']['id'])
        return None

    def classify(self, cname, tj):
        """Var for a free variable of a fragment (by its C type)"""
        raw = (tj.get('desugaredQualType') or tj['qualType'])
        if re.match(r'^(const )?(unsigned |signed )?char ?\[\d*\]$', raw.strip()):
            return Var(cname, 'str', ('str',))
        try:
            t = self.tu.ty(tj)
        except Unsupported:
            return Var(cname, 'opaque', ('opaque',))
        if is_int(t):
            return Var(cname, 'scalar', t)
        if t[0] == 'struct':
            v = Var(cname, 'struct', t)
            v.direct = True
            return v
        if t[0] == 'ptr' and t[1][0] == 'struct':
            return Var(cname, 'struct', t[1])
        if t == ('ptr', ('s', 8)):
            return Var(cname, 'str', ('str',))
        if t[0] == 'ptr' and is_int(t[1]):
            return Var(cname, 'iptr', t[1])
        return Var(cname, 'opaque', ('opaque',))

    def fragment_signature(self):
        tu, info = self.tu, self.info
        self.condidx, self.frag = self.locate_fragment()
        root = kids(self.frag)[self.condidx] if self.fragkind == 'cond' else self.frag
        self.fragroot = root
        info.ret = ('void',)
        self.env = {}
        inner = set(x['id'] for x in walk(root) if x.get('kind') == 'VarDecl')
        skip = set()
        written = self.written_roots(root)
        def walk_kept(n):
            yield n
            for c in kids(n):
                if c.get('kind') and c.get('kind').endswith('Stmt') and self.is_skipped(c):
                    continue
                yield from walk_kept(c)
        for x in walk_kept(root):
            k = x.get('kind')
            if k == 'ArraySubscriptExpr':
                key = self.elem_key(x)
                if key is not None and key[1] not in inner and key[2] not in inner:
                    b, i = strip(kids(x)[0]), strip(kids(x)[1])
                    while b.get('kind') == 'ImplicitCastExpr':
                        b = strip(kids(b)[0])
                    while i.get('kind') == 'ImplicitCastExpr':
                        i = strip(kids(i)[0])
                    skip.add(b['id'])
                    skip.add(i['id'])
                    if key[2] in written:
                        raise Unsupported('index `%s` of `%s[...]` is assigned inside the fragment' % (i['referencedDecl']['name'], b['referencedDecl']['name']))
                    if key not in self.env:
                        bt = tu.ty(b['type'])
                        v = Var('%s[%s]' % (b['referencedDecl']['name'], i['referencedDecl']['name']), 'struct', bt[1],
                                name='%s_%s' % (b['referencedDecl']['name'], i['referencedDecl']['name']))
                        v.direct = True
                        v.is_param = True
                        self.env[key] = v
                        info.params.append(v)
                        if key[1] in written:
                            info.inout.append(len(info.params) - 1)
            elif k == 'DeclRefExpr' and x['id'] not in skip:
                rd = x['referencedDecl']
                if rd.get('kind') not in ('VarDecl', 'ParmVarDecl') or rd['id'] in inner or rd['id'] in self.env:
                    continue
                if rd['id'] in tu.globals:
                    gt = None
                    try:
                        gt = tu.ty(rd['type'])
                    except Unsupported:
                        pass
                    if gt is not None and is_int(gt):
                        continue              # integer globals: the existing mechanism (read-only parameters)
                v = self.classify(rd['name'], rd['type'])
                v.is_param = True
                self.env[rd['id']] = v
                if v.kind == 'opaque':
                    continue                  # only as an effect argument / in NULL tests: no parameter
                info.params.append(v)
                if rd['id'] in written and v.kind in ('struct', 'iptr', 'scalar'):
                    info.inout.append(len(info.params) - 1)
        if self.has_ev:
            self.env['__ev__'] = self.evvar
        return info

    # ---------- signature
    def signature(self):
        if self.fragkind:
            return self.fragment_signature()
        tu, info = self.tu, self.info
        ftype = self.node['type']['qualType']
        try:
            info.ret = tu.ty_s(ftype[:ftype.index('(')])
        except Unsupported:
            info.ret = ('opaque',)
        if info.ret[0] == 'ptr' or info.ret[0] == 'struct' or info.ret[0] == 'opaque':
            if not self.has_ev:
                raise Unsupported('return type %r' % (info.ret,))
            info.ret = ('void',)       # an opaque pointer is returned: only the events are observed
            self.opaque_ret = True
        self.env = {}
        written = self.written_roots(self.body())
        for i, p in enumerate(c for c in kids(self.node) if c.get('kind') == 'ParmVarDecl'):
            t = tu.ty(p['type'])
            pname = p.get('name') or 'arg%d' % i
            if is_int(t):
                v = Var(pname, 'scalar', t)
            elif t[0] == 'ptr' and t[1][0] == 'struct':
                v = Var(pname, 'struct', t[1])
            elif t == ('ptr', ('s', 8)):
                v = Var(pname, 'str', ('str',))
            elif t[0] == 'ptr' and is_int(t[1]):
                v = Var(pname, 'iptr', t[1])
            else:
                raise Unsupported('parameter `%s` of type %r' % (pname, t))
            v.is_param = True
            self.env[p['id']] = v
            info.params.append(v)
            if p['id'] in written and v.kind in ('struct', 'iptr'):
                info.inout.append(i)
            elif p['id'] in written and v.kind == 'str':
                pass   # the POINTER variable is assigned (p++), not the string: decided in stmt translation
        if self.has_ev:
            self.env['__ev__'] = self.evvar
        return info

    def body(self):
        for c in kids(self.node):
            if c.get('kind') == 'CompoundStmt':
                return c
        raise Unsupported('no body')

    # ---------- which variables does a piece of code assign?  (decl ids of root variables)
    def root_of(self, n):
        n = strip(n)
        k = n.get('kind')
        if k == 'DeclRefExpr':
            return n['referencedDecl']['id']
        if k == 'MemberExpr':
            return self.root_of(kids(n)[0])
        if k == 'UnaryOperator' and n.get('opcode') in ('*', '&'):
            return self.root_of(kids(n)[0])
        if k == 'ArraySubscriptExpr':
            return self.root_of(kids(n)[0])
        if k in ('ImplicitCastExpr', 'CStyleCastExpr'):
            return self.root_of(kids(n)[0])
        return None

    def written_roots(self, n):
        w = set()
        for x in walk(n):
            k = x.get('kind')
            if (k == 'BinaryOperator' and x.get('opcode') == '=') or k == 'CompoundAssignOperator':
                lhs = strip(kids(x)[0])
                r = self.root_of(lhs)
                # assigning the pointer variable itself (p = ..) is different from writing through it
                if r is not None:
                    w.add(r)
            elif k == 'UnaryOperator' and x.get('opcode') in ('++', '--'):
                r = self.root_of(kids(x)[0])
                if r is not None:
                    w.add(r)
            elif k == 'CallExpr':
                callee = call_name(x)
                if callee is None:
                    continue
                if callee in self.effects or callee in self.noreturn:
                    w.add('__ev__')
                if callee in ('strtol', 'strtoul') and len(kids(x)) == 4:
                    r = self.root_of(kids(x)[2])
                    if r is not None:
                        w.add(r)
                fi = self.unit.fninfo.get(callee)
                if fi is not None:
                    if getattr(fi, 'has_ev', False):
                        w.add('__ev__')
                    args = kids(x)[1:]
                    for i in fi.inout:
                        if i < len(args):
                            r = self.root_of(args[i])
                            if r is not None:
                                w.add(r)
        # `base[idx].f = ...` writes the element variable of the fragment
        for key in list(getattr(self, 'env', {}) or {}):
            if isinstance(key, tuple) and key[0] == 'elem' and key[1] in w:
                w.add(key)
        return w

    def callee_name(self, call):
        f = strip(kids(call)[0])
        while f.get('kind') in ('ImplicitCastExpr',):
            f = strip(kids(f)[0])
        if f.get('kind') == 'DeclRefExpr' and f['referencedDecl'].get('kind') == 'FunctionDecl':
            return f['referencedDecl']['name']
        raise Unsupported('indirect call')

    # ---------- free references of a statement (for loop closures)
    def scan_refs(self, n, env):
        """(local vars referenced, globals referenced, env inputs, needs fuel) -- in first-use order"""
        locs, globs, envs, fuel = [], [], [], False
        for x in walk(n):
            k = x.get('kind')
            if k == 'ArraySubscriptExpr':
                key = self.elem_key(x)
                if key is not None and key in env and key not in locs:
                    locs.append(key)
            if k == 'CallExpr':
                cn0 = call_name(x)
                fi0 = self.unit.fninfo.get(cn0)
                if (cn0 in self.effects or cn0 in self.noreturn or (fi0 is not None and getattr(fi0, 'has_ev', False))) \
                        and '__ev__' in env and '__ev__' not in locs:
                    locs.append('__ev__')
            if k == 'DeclRefExpr':
                rd = x['referencedDecl']
                if rd['id'] in env:
                    if rd['id'] not in locs:
                        locs.append(rd['id'])
                elif rd.get('kind') == 'VarDecl' and rd['id'] in self.tu.globals:
                    if rd['id'] not in globs:
                        globs.append(rd['id'])
            elif k == 'CallExpr':
                try:
                    cn = self.callee_name(x)
                except Unsupported:
                    continue
                if cn in ENV_INPUT and cn not in envs:
                    envs.append(cn)
                fi = self.unit.fninfo.get(cn)
                if fi is not None:
                    fuel = fuel or fi.fuel
                    for g in fi.globals:
                        if ('G', g) not in globs:
                            globs.append(('G', g))
                    for e in fi.envin:
                        if e[0][4:] not in envs:
                            envs.append(e[0][4:])
            elif k in ('WhileStmt', 'ForStmt', 'DoStmt'):
                fuel = True
        return locs, globs, envs, fuel

    # ---------- globals / environment inputs become parameters
    def use_global(self, gid):
        g = self.tu.globals[gid]
        t = self.tu.ty(g['type'])
        if not is_int(t):
            raise Unsupported('global `%s` of type %r' % (g['name'], t))
        ent = (lname(g['name']), t)
        if ent not in self.info.globals:
            self.info.globals.append(ent)
        return V(ent[0], t, None, True)

    def use_global_ent(self, ent):
        if ent not in self.info.globals:
            self.info.globals.append(ent)

    def use_env(self, cn):
        ent = ('env_' + cn, ENV_INPUT[cn])
        if ent not in self.info.envin:
            self.info.envin.append(ent)
        return V(ent[0], ent[1], None, True)

    # ---------- conversions
    def convert(self, v, to):
        fr = v.ty
        if not (is_int(fr) and is_int(to)):
            raise Unsupported('conversion %r -> %r' % (fr, to))
        if fr == to:
            return v
        if v.const is not None:
            n = v.const
            lo, hi = trange(to)
            m = 1 << to[1]
            n = n % m
            if to[0] == 's' and n > hi:
                n -= m
            return lit(n, to)
        flo, fhi = trange(fr)
        tlo, thi = trange(to)
        inside = tlo <= flo and fhi <= thi
        m = 1 << to[1]
        if to[0] == 'u':
            if fr[0] == 'u':
                return V(v.code, to, None, v.atom) if inside else V('%s %% %d' % (v.p(), m), to)
            return V('(%s %% %d).toNat' % (v.p(), m), to)      # two's complement: value mod 2^w
        # to signed
        if fr[0] == 'u':
            c = '(%s : Int)' % v.code if v.atom else '((%s : Nat) : Int)' % v.code
            if inside:
                return V(c, to, None, True)
            h = 1 << (to[1] - 1)
            return V('(%s + %d) %% %d - %d' % (c, h, m, h), to)
        if inside:
            return V(v.code, to, None, v.atom)
        h = 1 << (to[1] - 1)
        return V('(%s + %d) %% %d - %d' % (v.p(), h, m, h), to)    # implementation-defined: gcc/clang wrap

    # ---------- arithmetic
    def arith(self, out, op, a, b, ty):
        if not is_int(ty):
            raise Unsupported('arithmetic at type %r' % (ty,))
        lo, hi = trange(ty)
        m = 1 << ty[1]
        w = ty[1]
        if a.ty != ty or (b.ty != ty and op not in ('<<', '>>')):
            raise Unsupported('operand types %r %r differ from result type %r (op %s)' % (a.ty, b.ty, ty, op))
        # constant folding
        if a.const is not None and b.const is not None:
            r = self.fold(op, a.const, b.const, ty)
            if r is not None:
                return lit(r, ty)
        A, B = a.p(), b.p()
        if a.const is not None:
            A = str(a.const) if a.const >= 0 else '(%d)' % a.const
        if b.const is not None:
            B = str(b.const) if b.const >= 0 else '(%d)' % b.const
        if ty[0] == 'u':
            if op == '+':
                return V('(%s + %s) %% %d' % (A, B, m), ty)
            if op == '-':
                return V('(%s + %d - %s) %% %d' % (A, m, B, m), ty)
            if op == '*':
                return V('(%s * %s) %% %d' % (A, B, m), ty)
            if op in ('/', '%'):
                if b.const is None:
                    self.check(out, '%s ≠ 0' % b.p())
                elif b.const == 0:
                    raise Unsupported('division by constant zero')
                return V('%s %s %s' % (A, op, B), ty)
            if op == '&':
                return V('%s &&& %s' % (A, B), ty)
            if op == '|':
                return V('%s ||| %s' % (A, B), ty)
            if op == '^':
                return V('%s ^^^ %s' % (A, B), ty)
            if op in ('<<', '>>'):
                if b.const is not None:
                    if not (0 <= b.const < w):
                        raise Unsupported('shift by constant %d outside 0..%d' % (b.const, w - 1))
                    if op == '<<':
                        return V('(%s * %d) %% %d' % (A, 1 << b.const, m), ty)
                    return V('%s / %d' % (A, 1 << b.const), ty)
                cnt = b.p() if b.ty[0] == 'u' else '(%s).toNat' % b.code
                self.check(out, '0 ≤ %s ∧ %s < %d' % (b.p(), b.p(), w))
                if op == '<<':
                    return V('(%s <<< %s) %% %d' % (A, cnt, m), ty)
                return V('%s >>> %s' % (A, cnt), ty)
            raise Unsupported('unsigned operator %s' % op)
        # signed: the mathematical result must be representable, otherwise undefined behaviour
        rng = '%d ≤ %%s ∧ %%s ≤ %d' % (lo, hi)
        if op in ('+', '-', '*'):
            t = self.fresh()
            self.let(out, t, ty, '%s %s %s' % (A, op, B))
            self.check(out, rng % (t, t))
            return V(t, ty, None, True)
        if op in ('/', '%'):
            if b.const is None:
                self.check(out, '%s ≠ 0 ∧ ¬(%s = %d ∧ %s = -1)' % (b.p(), a.p(), lo, b.p()))
            elif b.const == 0:
                raise Unsupported('division by constant zero')
            elif b.const == -1:
                self.check(out, '%s ≠ %d' % (a.p(), lo))
            fn = 'Int.tdiv' if op == '/' else 'Int.tmod'
            return V('%s %s %s' % (fn, a.p(), b.p()), ty)
        if op in ('<<', '>>'):
            if b.const is None or not (0 <= b.const < w):
                raise Unsupported('signed shift by a non-constant or out-of-range count')
            if op == '<<':
                t = self.fresh()
                self.let(out, t, ty, '%s * %d' % (A, 1 << b.const))
                self.check(out, '0 ≤ %s ∧ %s ≤ %d' % (a.p(), t, hi))
                return V(t, ty, None, True)
            return V('%s / %d' % (A, 1 << b.const), ty)      # arithmetic shift (gcc/clang) = floor division
        raise Unsupported('signed operator %s (bitwise operators on signed operands are outside the subset)' % op)

    @staticmethod
    def fold(op, x, y, ty):
        lo, hi = trange(ty)
        m = 1 << ty[1]
        try:
            if op == '+':
                r = x + y
            elif op == '-':
                r = x - y
            elif op == '*':
                r = x * y
            elif op == '/':
                if y == 0:
                    return None
                r = abs(x) // abs(y) * (1 if (x >= 0) == (y >= 0) else -1)
            elif op == '%':
                if y == 0:
                    return None
                r = abs(x) % abs(y) * (1 if x >= 0 else -1)
            elif op == '<<':
                if not (0 <= y < ty[1]) or x < 0:
                    return None
                r = x << y
            elif op == '>>':
                if not (0 <= y < ty[1]):
                    return None
                r = x >> y
            elif op == '&' and x >= 0 and y >= 0:
                r = x & y
            elif op == '|' and x >= 0 and y >= 0:
                r = x | y
            elif op == '^' and x >= 0 and y >= 0:
                r = x ^ y
            else:
                return None
        except Exception:
            return None
        if ty[0] == 'u':
            return r % m
        return r if lo <= r <= hi else None

    # ---------- lvalues
    def lvalue(self, n, env, out):
        n0 = n
        while n.get('kind') == 'ParenExpr':
            n = kids(n)[0]
        k = n.get('kind')
        if k == 'DeclRefExpr':
            rd = n['referencedDecl']
            if rd['id'] in env:
                v = env[rd['id']]
                if v.kind in ('scalar', 'sptr'):
                    return ('var', v)
                raise Unsupported('variable `%s` (%s) used as a scalar lvalue' % (v.cname, v.kind))
            if rd.get('kind') == 'VarDecl' and rd['id'] in self.tu.globals:
                return ('global', rd['id'])
            raise Unsupported('reference to `%s`' % rd.get('name'))
        if k == 'MemberExpr':
            base = strip(kids(n)[0])
            ek = self.elem_key(base)
            if ek is not None and ek in env and not n.get('isArrow'):
                v = env[ek]
                ft = self.tu.field(v.ty[1], n['name'])
                self.used_fields.setdefault(v.ty[1], [])
                if n['name'] not in self.used_fields[v.ty[1]]:
                    self.used_fields[v.ty[1]].append(n['name'])
                return ('field', v, n['name'], ft)
            if base.get('kind') == 'DeclRefExpr' and base['referencedDecl']['id'] in env and \
                    bool(n.get('isArrow')) != bool(getattr(env[base['referencedDecl']['id']], 'direct', False)):
                v = env[base['referencedDecl']['id']]
                if v.kind == 'struct':
                    ft = self.tu.field(v.ty[1], n['name'])
                    self.used_fields.setdefault(v.ty[1], [])
                    if n['name'] not in self.used_fields[v.ty[1]]:
                        self.used_fields[v.ty[1]].append(n['name'])
                    return ('field', v, n['name'], ft)
            raise Unsupported('member access outside `param->field`')
        if k == 'UnaryOperator' and n.get('opcode') == '*':
            base = strip(kids(n)[0])
            if call_name(base) == '__errno_location':
                if self.errno is None:
                    self.errno = 'r'
                return ('var', self.errnovar)
            if base.get('kind') == 'DeclRefExpr' and base['referencedDecl']['id'] in env:
                v = env[base['referencedDecl']['id']]
                if v.kind == 'iptr':
                    return ('deref', v)
                if v.kind == 'sptr':
                    if v.extra is None:
                        raise Unsupported('string pointer `%s` used before it is set' % v.cname)
                    return ('stridx', v.extra, V(v.name, ('s', 64), None, True))
                if v.kind == 'str':
                    return ('stridx', v, lit(0, ('s', 64)))
            if base.get('kind') == 'UnaryOperator' and base.get('opcode') == '++' and base.get('isPostfix'):
                # *p++ : read at the old position, then advance
                pv = strip(kids(base)[0])
                if pv.get('kind') == 'DeclRefExpr' and pv['referencedDecl']['id'] in env:
                    v = env[pv['referencedDecl']['id']]
                    if v.kind == 'sptr':
                        if self.guard:
                            raise Unsupported('side effect under a short-circuit / conditional operator')
                        old = self.fresh(v.name + '_old')
                        self.let(out, old, ('s', 64), v.name)
                        self.let(out, v.name, ('s', 64), '%s + 1' % v.name)
                        return ('stridx', v.extra, V(old, ('s', 64), None, True))
            raise Unsupported('dereference outside `*intptr_param`, `*strptr`, `*strptr++`')
        if k == 'ArraySubscriptExpr':
            base, idx = strip(kids(n)[0]), kids(n)[1]
            while base.get('kind') in ('ImplicitCastExpr',):
                base = strip(kids(base)[0])
            iv = self.ex(idx, env, out)
            if base.get('kind') == 'DeclRefExpr' and base['referencedDecl']['id'] in env:
                v = env[base['referencedDecl']['id']]
                if v.kind == 'str':
                    return ('stridx', v, iv)
                if v.kind == 'sptr':
                    raise Unsupported('subscript on a moving string pointer')
            if base.get('kind') == 'MemberExpr':
                lv = self.lvalue(base, env, out)
                if lv[0] == 'field' and lv[3] in (('str',), ('bytes',)):
                    return ('fieldidx', lv, iv)
            raise Unsupported('subscript outside `strparam[i]` / `param->bytes[i]`')
        raise Unsupported('lvalue of kind %s' % k)

    def read_lv(self, lv, out):
        if lv[0] == 'var':
            v = lv[1]
            if v.kind == 'sptr':
                raise Unsupported('string pointer `%s` used as a value' % v.cname)
            return V(v.name, v.ty, None, True)
        if lv[0] == 'global':
            return self.use_global(lv[1])
        if lv[0] == 'field':
            if not is_int(lv[3]):
                raise Unsupported('non-scalar field `%s` used as a value' % lv[2])
            return V('%s.%s' % (lv[1].name, lname(lv[2])), lv[3], None, True)
        if lv[0] == 'deref':
            return V(lv[1].name, lv[1].ty, None, True)
        if lv[0] == 'stridx':
            s, iv = lv[1], lv[2]
            return self.str_read(s.name, iv, out)
        if lv[0] == 'fieldidx':
            f, iv = lv[1], lv[2]
            code = '%s.%s' % (f[1].name, lname(f[2]))
            if f[3] == ('str',):
                return self.str_read(code, iv, out)
            i = iv.p()
            if iv.ty[0] == 's':
                self.check(out, '0 ≤ %s ∧ %s < (%s.length : Int)' % (i, i, code))
                return V('%s.getD %s.toNat 0' % (code, i), ('u', 8))
            self.check(out, '%s < %s.length' % (i, code))
            return V('%s.getD %s 0' % (code, i), ('u', 8))
        raise Unsupported('read of %r' % (lv[0],))

    def str_read(self, scode, iv, out):
        i = iv.p()
        if iv.ty[0] == 's':
            self.check(out, '0 ≤ %s ∧ %s ≤ (%s.length : Int)' % (i, i, scode))
            return V('strAt %s %s.toNat' % (scode, i), ('s', 8))
        self.check(out, '%s ≤ %s.length' % (i, scode))
        return V('strAt %s %s' % (scode, i), ('s', 8))

    def write_lv(self, lv, val, out):
        g = None
        if self.guard:
            if len(self.guard) != self.gw_depth:
                raise Unsupported('side effect under a short-circuit / conditional operator')
            g = self.gprefix()
        if lv[0] in ('var', 'deref'):
            v = lv[1]
            if v is self.errnovar:
                self.errno = 'w'
            self.let(out, v.name, v.ty, val.code if g is None else 'if %s then %s else %s' % (g, val.code, v.name))
        elif lv[0] == 'field':
            v = lv[1]
            upd = '{ %s with %s := %s }' % (v.name, lname(lv[2]), val.code)
            out.append('let %s : %s := %s' % (v.name, lean_ty(v.ty), upd if g is None else 'if %s then %s else %s' % (g, upd, v.name)))
        elif lv[0] == 'global':
            raise Unsupported('assignment to a global variable')
        else:
            raise Unsupported('write through %s' % lv[0])

    def lv_type(self, lv):
        if lv[0] == 'var':
            return lv[1].ty
        if lv[0] == 'field':
            return lv[3]
        if lv[0] == 'deref':
            return lv[1].ty
        if lv[0] == 'global':
            return self.tu.ty(self.tu.globals[lv[1]]['type'])
        raise Unsupported('type of lvalue %s' % lv[0])

    # ---------- pointers as values (only for comparisons and calls)
    def ptr_class(self, n, env):
        n = strip(n)
        while n.get('kind') in ('ImplicitCastExpr', 'CStyleCastExpr', 'ParenExpr'):
            if n.get('castKind') == 'NullToPointer':
                return ('null',)
            n = strip(kids(n)[0])
        if n.get('kind') == 'IntegerLiteral' and n.get('value') == '0':
            return ('null',)
        if n.get('kind') == 'DeclRefExpr' and n['referencedDecl']['id'] in env:
            v = env[n['referencedDecl']['id']]
            if v.kind == 'sptr':
                return ('sptr', v)
            if v.kind == 'opaque':
                return ('nullable', v.cname)
            if v.kind == 'str':
                return ('strbase', v)
            if getattr(v, 'is_param', False):
                return ('param', v)
        if n.get('kind') == 'DeclRefExpr' and n['referencedDecl'].get('kind') == 'VarDecl' \
                and n['referencedDecl']['id'] in self.tu.globals:
            return ('nullable', n['referencedDecl']['name'])
        if call_name(n) == 'strchr':
            return ('strchr', n)
        return ('other',)

    # ---------- conditions (Lean Prop, decidable)
    def ty_or_ptr(self, tj):
        try:
            return self.tu.ty(tj)
        except Unsupported:
            q = (tj.get('desugaredQualType') or tj['qualType']).strip()
            if q.endswith('*'):
                return ('ptr', ('opaque',))
            raise

    def cond(self, n, env, out):
        while n.get('kind') in ('ParenExpr', 'ConstantExpr'):
            n = kids(n)[0]
        if n.get('kind') in ('ImplicitCastExpr', 'CStyleCastExpr') and n.get('castKind') in ('IntegralToBoolean', 'PointerToBoolean'):
            return self.cond(kids(n)[0], env, out)
        k = n.get('kind')
        if k == 'BinaryOperator':
            op = n['opcode']
            L, R = kids(n)
            if op in ('&&', '||'):
                a = self.cond(L, env, out)
                self.guard.append(a if op == '&&' else '¬(%s)' % a)
                try:
                    b = self.cond(R, env, out)
                finally:
                    self.guard.pop()
                return '(%s) %s (%s)' % (a, '∧' if op == '&&' else '∨', b)
            if op in ('==', '!=', '<', '>', '<=', '>='):
                lt = self.ty_or_ptr(L['type'])
                if lt[0] == 'ptr':
                    self._ptr_out = out
                    return self.ptrcmp(op, L, R, env)
                a = self.ex(L, env, out)
                b = self.ex(R, env, out)
                if a.ty != b.ty:
                    raise Unsupported('comparison of %r with %r' % (a.ty, b.ty))
                lop = {'==': '=', '!=': '≠', '<': '<', '>': '>', '<=': '≤', '>=': '≥'}[op]
                return '%s %s %s' % (a.p(), lop, b.p())
        if k == 'UnaryOperator' and n.get('opcode') == '!':
            return '¬(%s)' % self.cond(kids(n)[0], env, out)
        if k == 'CallExpr':
            cn = self.callee_name(n)
            if cn in CTYPE_PRED:
                a = self.ex(kids(n)[1], env, out)
                if a.ty != ('s', 32):
                    raise Unsupported('ctype argument type')
                return '%s %s' % (CTYPE_PRED[cn], a.p())
        t = self.ty_or_ptr(n['type'])
        if t[0] == 'ptr':
            self._ptr_out = out
            return self.ptrcmp('!=', n, None, env)
        v = self.ex(n, env, out)
        if not is_int(v.ty):
            raise Unsupported('condition of type %r' % (v.ty,))
        if v.const is not None:
            return 'True' if v.const != 0 else 'False'
        return '%s ≠ 0' % v.p()

    def ptrcmp(self, op, L, R, env):
        a = self.ptr_class(L, env)
        b = self.ptr_class(R, env) if R is not None else ('null',)
        if a[0] == 'null':
            a, b = b, a
        res = None
        if b[0] == 'null' and a[0] == 'nullable' and op in ('==', '!='):
            # a pointer the fragment does not look through: "is it NULL" is an input
            ent = (lname(a[1]) + '_null', ('boolp',))
            if ent not in self.info.globals:
                self.info.globals.append(ent)
            return ('%s = true' if op == '==' else '¬(%s = true)') % ent[0]
        if b[0] == 'null' and a[0] == 'strchr' and op in ('==', '!='):
            call = a[1]
            out = self._ptr_out
            sarg = self.str_arg(kids(call)[1], env, out)
            cv = self.ex(kids(call)[2], env, out)
            if cv.ty != ('s', 32):
                raise Unsupported('strchr character argument type')
            return ('%sstrchrP %s %s' % ('¬' if op == '==' else '', sarg, cv.p()))
        if b[0] == 'null' and a[0] in ('param', 'strbase'):
            self.assume('nonnull', 'pointer parameter `%s` is not NULL' % a[1].cname)
            res = False
        elif a[0] == 'param' and b[0] == 'param' and a[1] is not b[1]:
            self.assume('noalias', 'pointer parameters `%s` and `%s` point to different objects' % (a[1].cname, b[1].cname))
            res = False
        elif a[0] in ('sptr', 'strbase') and b[0] in ('sptr', 'strbase'):
            ba = a[1].extra if a[0] == 'sptr' else a[1]
            bb = b[1].extra if b[0] == 'sptr' else b[1]
            if ba is not bb:
                raise Unsupported('comparison of pointers into different strings')
            ia = a[1].name if a[0] == 'sptr' else '(0 : Int)'
            ib = b[1].name if b[0] == 'sptr' else '(0 : Int)'
            lop = {'==': '=', '!=': '≠', '<': '<', '>': '>', '<=': '≤', '>=': '≥'}[op]
            return '%s %s %s' % (ia, lop, ib)
        if res is None or op not in ('==', '!='):
            raise Unsupported('pointer comparison outside the subset')
        eq = res
        return 'True' if (eq if op == '==' else not eq) else 'False'

    # ---------- expressions
    def ex(self, n, env, out, want=True):
        k = n.get('kind')
        tu = self.tu
        if k in ('ParenExpr', 'ConstantExpr'):
            return self.ex(kids(n)[0], env, out, want)
        if k == 'IntegerLiteral':
            return lit(int(n['value']), tu.ty(n['type']))
        if k == 'CharacterLiteral':
            return lit(int(n['value']), tu.ty(n['type']))
        if k in ('ImplicitCastExpr', 'CStyleCastExpr'):
            ck = n.get('castKind')
            sub = kids(n)[0]
            if ck == 'LValueToRValue':
                lv = self.lvalue(sub, env, out)
                return self.read_lv(lv, out)
            if ck == 'NoOp':
                return self.ex(sub, env, out, want)
            if ck == 'IntegralCast':
                return self.convert(self.ex(sub, env, out), tu.ty(n['type']))
            if ck in ('IntegralToBoolean', 'PointerToBoolean'):
                c = self.cond(sub, env, out)
                if c == 'True':
                    return lit(1, ('u', 1))
                if c == 'False':
                    return lit(0, ('u', 1))
                return V('if %s then (1 : Nat) else 0' % c, ('u', 1))
            if ck == 'ToVoid':
                self.ex(sub, env, out, False)
                return V('()', ('void',), None, True)
            raise Unsupported('cast kind %s' % ck)
        if k == 'DeclRefExpr':
            rd = n['referencedDecl']
            if rd.get('kind') == 'EnumConstantDecl':
                return lit(tu.enumconst[rd['id']], tu.ty(n['type']))
            raise Unsupported('bare reference to `%s`' % rd.get('name'))
        if k == 'UnaryOperator':
            op = n['opcode']
            sub = kids(n)[0]
            ty = tu.ty(n['type'])
            if op in ('++', '--'):
                lv = self.lvalue(sub, env, out)
                if lv[0] == 'var' and lv[1].kind == 'sptr':
                    if self.guard:
                        raise Unsupported('side effect under a short-circuit / conditional operator')
                    if want:
                        raise Unsupported('value of a string-pointer increment')
                    self.let(out, lv[1].name, ('s', 64), '%s %s 1' % (lv[1].name, '+' if op == '++' else '-'))
                    return V('()', ('void',), None, True)
                old = self.read_lv(lv, out)
                lty = self.lv_type(lv)
                keep = None
                if n.get('isPostfix') and want:
                    keep = self.fresh(old.code.replace('.', '_') + '_old')
                    self.let(out, keep, lty, old.code)
                # promotion: arithmetic happens at the promoted type, then converts back
                pty = lty if lty[1] >= 32 else ('s', 32)
                r = self.arith(out, '+' if op == '++' else '-', self.convert(old, pty), lit(1, pty), pty)
                r = self.convert(r, lty)
                self.write_lv(lv, r, out)
                if keep:
                    return V(keep, lty, None, True)
                return self.read_lv(lv, out) if want else V('()', ('void',), None, True)
            if op == '-':
                a = self.ex(sub, env, out)
                if a.const is not None:
                    r = self.fold('-', 0, a.const, ty)
                    if r is not None:
                        return lit(r, ty)
                return self.arith(out, '-', lit(0, ty), a, ty)
            if op == '+':
                return self.ex(sub, env, out)
            if op == '~':
                a = self.ex(sub, env, out)
                if ty[0] == 'u':
                    if a.const is not None:
                        return lit((1 << ty[1]) - 1 - a.const, ty)
                    return V('%d - %s' % ((1 << ty[1]) - 1, a.p()), ty)
                if a.const is not None:
                    return lit(-a.const - 1, ty)
                return V('-%s - 1' % a.p(), ty)
            if op == '!':
                c = self.cond(sub, env, out)
                return V('if %s then (0 : Int) else 1' % c, ('s', 32))
            raise Unsupported('unary operator %s in a value position' % op)
        if k == 'BinaryOperator':
            op = n['opcode']
            L, R = kids(n)
            ty = tu.ty(n['type'])
            if op == '=':
                l0 = strip(L)
                if l0.get('kind') == 'DeclRefExpr' and l0['referencedDecl']['id'] in env and \
                        env[l0['referencedDecl']['id']].kind == 'sptr' and env[l0['referencedDecl']['id']].extra is None:
                    # first assignment of a `char *p;` declared without initialiser: p = s + k
                    pv = env[l0['referencedDecl']['id']]
                    if self.guard or self.in_loop() or want:
                        raise Unsupported('first assignment of the string pointer `%s` in a nested position' % pv.cname)
                    base, off = self.str_ptr_init(R, env, out)
                    pv.extra = base
                    self.let(out, pv.name, ('s', 64), off)
                    return V('()', ('void',), None, True)
                lv = self.lvalue(L, env, out)
                if lv[0] == 'var' and lv[1].kind == 'sptr':
                    raise Unsupported('re-assignment of a string pointer')
                r = self.ex(R, env, out)
                if r.ty != self.lv_type(lv):
                    raise Unsupported('assignment type mismatch %r := %r' % (self.lv_type(lv), r.ty))
                if not r.atom and want:
                    t = self.fresh()
                    self.let(out, t, r.ty, r.code)
                    r = V(t, r.ty, r.const, True)
                self.write_lv(lv, r, out)
                return self.read_lv(lv, out) if want else V('()', ('void',), None, True)
            if op == ',':
                self.ex(L, env, out, False)
                return self.ex(R, env, out, want)
            if op in ('&&', '||', '==', '!=', '<', '>', '<=', '>='):
                c = self.cond(n, env, out)
                if c == 'True':
                    return lit(1, ('s', 32))
                if c == 'False':
                    return lit(0, ('s', 32))
                return V('if %s then (1 : Int) else 0' % c, ('s', 32))
            if ty[0] == 'ptr' or tu.ty(L['type'])[0] == 'ptr':
                raise Unsupported('pointer arithmetic in a value position')
            a = self.ex(L, env, out)
            b = self.ex(R, env, out)
            return self.arith(out, op, a, b, ty)
        if k == 'CompoundAssignOperator':
            op = n['opcode'][:-1]
            L, R = kids(n)
            lv = self.lvalue(L, env, out)
            lty = self.lv_type(lv)
            cty = tu.ty(n['computeResultType'])
            clt = tu.ty(n['computeLHSType'])
            if lv[0] == 'var' and lv[1].kind == 'sptr':
                raise Unsupported('compound assignment to a string pointer')
            old = self.convert(self.read_lv(lv, out), clt)
            r = self.ex(R, env, out)
            res = self.convert(self.arith(out, op, old, r, cty), lty)
            self.write_lv(lv, res, out)
            return self.read_lv(lv, out) if want else V('()', ('void',), None, True)
        if k == 'ConditionalOperator':
            C, A, B = kids(n)
            c = self.cond(C, env, out)
            self.guard.append(c)
            try:
                a = self.ex(A, env, out)
            finally:
                self.guard.pop()
            self.guard.append('¬(%s)' % c)
            try:
                b = self.ex(B, env, out)
            finally:
                self.guard.pop()
            if a.ty != b.ty:
                raise Unsupported('?: branches of types %r / %r' % (a.ty, b.ty))
            if c == 'True':
                return a
            if c == 'False':
                return b
            return V('if %s then %s else %s' % (c, a.code, b.code), a.ty)
        if k == 'CallExpr':
            return self.call(n, env, out, want)
        if k in ('MemberExpr', 'ArraySubscriptExpr'):
            raise Unsupported('lvalue `%s` in a value position without a load' % k)
        raise Unsupported('expression kind %s' % k)

    # ---------- calls
    def str_arg(self, a, env, out):
        a = strip(a)
        while a.get('kind') in ('ImplicitCastExpr', 'CStyleCastExpr') and a.get('castKind') in ('NoOp', 'LValueToRValue', 'BitCast', 'ArrayToPointerDecay'):
            a = strip(kids(a)[0])
        if a.get('kind') == 'StringLiteral':
            try:
                val = json.loads(a['value'])
            except Exception:
                raise Unsupported('string literal %r' % a.get('value'))
            bs = val.encode('latin-1', 'strict') if all(ord(ch) < 256 for ch in val) else None
            if bs is None or 0 in bs:
                raise Unsupported('string literal outside bytes 1..255')
            return '[' + ', '.join('Char.ofNat %d' % b for b in bs) + ']'
        if a.get('kind') == 'DeclRefExpr' and a['referencedDecl']['id'] in env:
            v = env[a['referencedDecl']['id']]
            if v.kind == 'str':
                return v.name
            if v.kind == 'sptr':
                return '(%s.drop %s.toNat)' % (v.extra.name, v.name)
        if a.get('kind') == 'MemberExpr':
            lv = self.lvalue(a, env, out)
            if lv[0] == 'field' and lv[3] == ('str',):
                return '%s.%s' % (lv[1].name, lname(lv[2]))
        raise Unsupported('string argument outside `strparam` / `param->strfield`')

    def call(self, n, env, out, want):
        cn = self.callee_name(n)
        args = kids(n)[1:]
        if cn == 'strlen':
            s = self.str_arg(args[0], env, out)
            return V('%s.length' % s, ('u', 64))
        if cn == 'strcmp':
            a = self.str_arg(args[0], env, out)
            b = self.str_arg(args[1], env, out)
            return V('strcmpS %s %s' % (a, b), ('s', 32))
        if cn in CTYPE_PRED:
            raise Unsupported('%s() used for its value (only its truth value is modelled)' % cn)
        if cn in ENV_INPUT:
            for a in args:
                if self.ptr_class(a, env)[0] != 'null':
                    raise Unsupported('%s() with a non-NULL argument' % cn)
            if getattr(self, '_envcalls', None) is None:
                self._envcalls = {}
            self._envcalls[cn] = self._envcalls.get(cn, 0) + 1
            if self._envcalls[cn] > 1:
                if self.loopstack and any(f.get('kind') != 'switch' for f in self.loopstack):
                    raise Unsupported('more than one call of %s() inside a loop' % cn)
                ent = ('env_%s_%d' % (cn, self._envcalls[cn]), ENV_INPUT[cn])    # every call is its own input
                self.info.envin.append(ent)
                return V(ent[0], ent[1], None, True)
            return self.use_env(cn)
        if cn in ('strtol', 'strtoul'):
            return self.strto(cn, args, env, out)
        if cn in self.effects or cn in self.noreturn:
            self.emit_event(cn, args, env, out)
            return V('()', ('void',), None, True)
        fi = self.unit.fninfo.get(cn)
        if fi is None and cn in self.tu.funcs:
            fi = self.unit.translate_aux(cn, self)
        if fi is None:
            raise Unsupported('call of `%s` (not translated, not a modelled libc function, not a declared effect)' % cn)
        if self.guard:
            raise Unsupported('call of `%s` under a short-circuit / conditional operator' % cn)
        if len(args) != len(fi.params):
            raise Unsupported('argument count of `%s`' % cn)
        if fi.fuel:
            self.info.fuel = True
        argc, backs = [], []
        for i, (a, p) in enumerate(zip(args, fi.params)):
            if p.kind == 'scalar':
                v = self.ex(a, env, out)
                if v.ty != p.ty:
                    raise Unsupported('argument %d of `%s`: %r for %r' % (i, cn, v.ty, p.ty))
                argc.append(v.p())
            elif p.kind == 'str':
                argc.append(self.str_arg(a, env, out))
            elif p.kind == 'struct':
                a0 = strip(a)
                sv = None
                if a0.get('kind') == 'UnaryOperator' and a0.get('opcode') == '&':
                    a1 = strip(kids(a0)[0])
                    ek = self.elem_key(a1)
                    if ek is not None and ek in env:
                        sv = env[ek]                          # &base[idx]
                    elif a1.get('kind') == 'DeclRefExpr' and a1['referencedDecl']['id'] in env and \
                            getattr(env[a1['referencedDecl']['id']], 'direct', False):
                        sv = env[a1['referencedDecl']['id']]  # &structvar
                elif a0.get('kind') == 'DeclRefExpr' and a0['referencedDecl']['id'] in env and \
                        not getattr(env[a0['referencedDecl']['id']], 'direct', False):
                    sv = env[a0['referencedDecl']['id']]
                if sv is None or sv.kind != 'struct' or sv.ty != p.ty:
                    raise Unsupported('struct argument %d of `%s`' % (i, cn))
                argc.append(sv.name)
                if i in fi.inout:
                    backs.append((i, ('structvar', sv)))
            elif p.kind == 'iptr':
                a0 = strip(a)
                if a0.get('kind') == 'UnaryOperator' and a0.get('opcode') == '&':
                    lv = self.lvalue(kids(a0)[0], env, out)
                    if lv[0] not in ('var', 'field', 'deref') or self.lv_type(lv) != p.ty:
                        raise Unsupported('address-of argument %d of `%s`' % (i, cn))
                    argc.append(self.read_lv(lv, out).p() if (lv[0] != 'var' or True) else None)
                    if i in fi.inout:
                        backs.append((i, ('lv', lv)))
                elif a0.get('kind') == 'DeclRefExpr' and a0['referencedDecl']['id'] in env \
                        and env[a0['referencedDecl']['id']].kind == 'iptr' and env[a0['referencedDecl']['id']].ty == p.ty:
                    pv = env[a0['referencedDecl']['id']]
                    argc.append(pv.name)
                    if i in fi.inout:
                        backs.append((i, ('lv', ('deref', pv))))
                else:
                    raise Unsupported('pointer argument %d of `%s`' % (i, cn))
        # distinct in-out arguments must be distinct objects
        roots = [repr(b[1][1].name if b[1][0] == 'structvar' else (b[1][1][1].name, b[1][1][2] if b[1][1][0] == 'field' else None)) for b in backs]
        if len(set(roots)) != len(roots):
            raise Unsupported('the same object passed twice as an in-out argument of `%s`' % cn)
        pre = []
        if fi.fuel:
            pre.append('fuel')
        for g in fi.globals:
            self.use_global_ent(g)
            pre.append(g[0])
        for e in fi.envin:
            if e not in self.info.envin:
                self.info.envin.append(e)
            pre.append(e[0])
        callcode = ' '.join([cn] + pre + argc)
        r = self.fresh('r')
        out.append('match %s with' % callcode)
        out.append('| none => none')
        out.append('| some %s =>' % r)
        if getattr(fi, 'errno', None):
            raise Unsupported('call of `%s`, which uses errno' % cn)
        nres = (0 if fi.ret == ('void',) else 1) + len(fi.inout) + (1 if getattr(fi, 'has_ev', False) else 0)

        def proj(j):
            if nres == 1:
                return r
            return r + '.2' * j + ('.1' if j < nres - 1 else '')
        j = 0
        retv = V('()', ('void',), None, True)
        if fi.ret != ('void',):
            retv = V(proj(0), fi.ret, None, nres == 1)
            j = 1
        for (i, how) in backs:
            code = proj(j)
            j += 1
            if how[0] == 'structvar':
                sv = how[1]
                out.append('let %s : %s := %s' % (sv.name, lean_ty(sv.ty), code))
            else:
                self.write_lv(how[1], V(code, self.lv_type(how[1]), None, False), out)
        if getattr(fi, 'has_ev', False):
            if not self.has_ev:
                raise Unsupported('call of `%s`, which records effects, from a function without declared effects' % cn)
            self.write_lv(('var', self.evvar), V('ev_ ++ %s' % proj(j), ('trace',)), out)
        return retv

    # ---------- declared effects: the call is recorded in the trace `ev_` (its result is not used)
    def emit_event(self, cn, args, env, out):
        parts = []
        for a in args:
            code = '.other'
            tmp = []
            try:
                a0 = strip(a)
                while a0.get('kind') in ('ImplicitCastExpr', 'CStyleCastExpr') and a0.get('castKind') in ('NoOp', 'BitCast', 'ArrayToPointerDecay'):
                    a0 = strip(kids(a0)[0])
                t = self.ty_or_ptr(a['type'])
                if is_int(t):
                    v = self.ex(a, env, tmp)
                    code = '.int %s' % (v.p() if v.ty[0] == 's' else '((%s : Nat) : Int)' % v.code)
                elif t[0] == 'ptr' and a0.get('kind') != 'StringLiteral':
                    code = '.str %s' % self.str_arg(a, env, tmp)
            except Unsupported:
                tmp, code = [], '.other'
            out.extend(tmp)
            parts.append(code)
        ev = 'ev_ ++ [⟨"%s", [%s]⟩]' % (cn, ', '.join(parts))
        self.write_lv(('var', self.evvar), V(ev, ('trace',)), out)

    # ---------- strtol / strtoul (base 10, with an end pointer): PdshVerif.CInt's glibc model
    def strto(self, cn, args, env, out):
        if len(args) != 3:
            raise Unsupported('%s argument count' % cn)
        base = self.ex(args[2], env, out)
        if base.const != 10:
            raise Unsupported('%s with a base other than the constant 10' % cn)
        a0 = strip(args[0])
        while a0.get('kind') in ('ImplicitCastExpr', 'CStyleCastExpr') and a0.get('castKind') in ('NoOp', 'BitCast', 'LValueToRValue'):
            a0 = strip(kids(a0)[0])
        if not (a0.get('kind') == 'DeclRefExpr' and a0['referencedDecl']['id'] in env and env[a0['referencedDecl']['id']].kind == 'str'):
            raise Unsupported('%s on something other than a string parameter' % cn)
        sv = env[a0['referencedDecl']['id']]
        self.unit.need_cint = True
        r = self.fresh('r')
        out.append('let %s := PdshVerif.CInt.%s %s' % (r, cn, sv.name))
        # errno = ERANGE on overflow, untouched otherwise
        self.write_lv(('var', self.errnovar), V('if %s.erange = true then (34 : Int) else errno_' % r, ('s', 32)), out)
        e0 = strip(args[1])
        if self.ptr_class(e0, env)[0] != 'null':
            if not (e0.get('kind') == 'UnaryOperator' and e0.get('opcode') == '&'):
                raise Unsupported('%s end pointer argument' % cn)
            pv = strip(kids(e0)[0])
            if not (pv.get('kind') == 'DeclRefExpr' and pv['referencedDecl']['id'] in env and env[pv['referencedDecl']['id']].kind == 'sptr'):
                raise Unsupported('%s end pointer is not a local `char *`' % cn)
            v = env[pv['referencedDecl']['id']]
            if v.extra is not None and v.extra is not sv:
                raise Unsupported('%s end pointer already points into another string' % cn)
            v.extra = sv
            if self.guard:
                raise Unsupported('side effect under a short-circuit / conditional operator')
            self.let(out, v.name, ('s', 64), '(%s.length : Int) - (%s.rest.length : Int)' % (sv.name, r))
        return V('%s.value' % r, ('s', 64) if cn == 'strtol' else ('u', 64), None, True)

    # ---------- statements  (continuation style: k(env) gives the lines of what follows)
    def in_loop(self):
        return any(f.get('kind') != 'switch' for f in self.loopstack)

    def result_code(self, env, val):
        outs = [self.info.params[i].name for i in self.info.inout]
        if self.errno == 'w' or self.spec.get('errno') == 'result':
            if self.spec.get('errno') != 'result':
                raise Unsupported('errno is assigned: declare "errno": "result" in the registry')
            outs.append('errno_')
        if self.has_ev:
            outs.append('ev_')
        parts = ([] if val is None else [val.code]) + outs
        if not parts:
            return 'some ()'
        if len(parts) == 1:
            return 'some %s' % (val.p() if val is not None else parts[0])
        return 'some (%s)' % ', '.join(parts)

    def is_skipped(self, s):
        """registry "skip": statements that BEGIN with one of these macro / function names are left out (declared
        not to influence the decision, e.g. the mutex macros around it); trusted, listed in the doc comment"""
        names = self.spec.get('skip', [])
        o = node_offset(s)
        if not names or o is None:
            return False
        text = self.tu.src[o:o + 80]
        for n in names:
            b = n.encode()
            if text.startswith(b) and not (text[len(b):len(b) + 1].isalnum() or text[len(b):len(b) + 1] == b'_'):
                return True
        return False

    def stmts(self, lst, env, k):
        if not lst:
            return k(env)
        s, rest = lst[0], lst[1:]
        if self.is_skipped(s):
            return self.stmts(rest, env, k)
        return self.stmt(s, env, lambda e: self.stmts(rest, e, k))

    def stmt(self, s, env, k):
        kind = s.get('kind')
        if kind == 'CompoundStmt':
            return self.stmts(kids(s), dict(env), lambda e: k(env))
        if kind == 'NullStmt':
            return k(env)
        if kind == 'DeclStmt':
            out = []
            env = dict(env)
            for d in kids(s):
                if d.get('kind') != 'VarDecl':
                    raise Unsupported('declaration of kind %s' % d.get('kind'))
                try:
                    t = self.tu.ty(d['type'])
                except Unsupported:
                    if not (self.has_ev or self.fragkind):
                        raise
                    t = ('array',) if '[' in d['type']['qualType'] else ('opaque',)
                init = [c for c in kids(d) if 'Attr' not in c.get('kind', '')]
                for v in env.values():
                    if v.name == lname(d['name']):
                        raise Unsupported('local `%s` shadows another variable' % d['name'])
                if is_int(t):
                    var = Var(d['name'], 'scalar', t)
                    env[d['id']] = var
                    if init:
                        val = self.ex(init[0], env, out)
                        if val.ty != t:
                            raise Unsupported('initialiser type %r for %r' % (val.ty, t))
                        self.let(out, var.name, t, val.code)
                elif t[0] == 'ptr' and init and call_name(strip(init[0])) in self.effects:
                    env[d['id']] = Var(d['name'], 'opaque', ('opaque',))     # e.g. `char *str = Strdup ("")`
                    self.ex(strip(init[0]), env, out, False)
                elif t == ('ptr', ('s', 8)) and init:
                    base, off = self.str_ptr_init(init[0], env, out)
                    var = Var(d['name'], 'sptr', ('s', 64), extra=base)
                    env[d['id']] = var
                    self.let(out, var.name, ('s', 64), off)
                elif t == ('ptr', ('s', 8)) and not init:
                    # set later by strtol/strtoul(.., &p, ..); any earlier use leaves `p` unbound in Lean (loud)
                    env[d['id']] = Var(d['name'], 'sptr', ('s', 64), extra=None)
                elif (self.has_ev or self.fragkind) and (t[0] in ('ptr', 'opaque', 'array')):
                    env[d['id']] = Var(d['name'], 'opaque', ('opaque',))
                    if init:
                        if call_name(strip(init[0])) in self.effects:
                            self.ex(strip(init[0]), env, out, False)
                        else:
                            raise Unsupported('initialiser of the opaque local `%s` is not a declared effect' % d['name'])
                else:
                    raise Unsupported('local `%s` of type %r' % (d['name'], t))
            return out + k(env)
        if kind == 'ReturnStmt':
            out = []
            val = None
            if self.fragkind:
                raise Unsupported('return inside a fragment')
            if kids(s) and self.opaque_ret:
                pass                      # the returned pointer is not observed (only the events are)
            elif kids(s):
                val = self.ex(kids(s)[0], env, out)
                if val.ty != self.info.ret:
                    raise Unsupported('return of %r from a function returning %r' % (val.ty, self.info.ret))
            elif self.info.ret != ('void',):
                raise Unsupported('return without a value')
            if self.in_loop():
                raise Unsupported('return inside a loop')
            return out + [self.result_code(env, val)]
        if kind == 'BreakStmt':
            if not self.loopstack or self.loopstack[-1].get('brk') is None:
                raise Unsupported('break outside a loop')
            return self.loopstack[-1]['brk'](env)
        if kind == 'ContinueStmt':
            if not self.loopstack or self.loopstack[-1].get('cont') is None:
                raise Unsupported('continue outside a loop')
            return self.loopstack[-1]['cont'](env)
        if kind == 'IfStmt':
            return self.if_stmt(s, env, k)
        if kind in ('WhileStmt', 'ForStmt'):
            return self.loop_stmt(s, env, k)
        if kind == 'SwitchStmt':
            return self.switch_stmt(s, env, k)
        if kind == 'DoStmt':
            body, C = kids(s)[0], kids(s)[1]
            cv = self.tu._constval(C) if strip(C).get('kind') in ('IntegerLiteral', 'ConstantExpr') else None
            if cv != 0:
                raise Unsupported('do-while whose condition is not the constant 0')
            for x in walk(body):
                if x.get('kind') in ('BreakStmt', 'ContinueStmt'):
                    raise Unsupported('break/continue inside do { } while (0)')
            return self.stmt(body, env, k)
        if kind in ('GotoStmt', 'LabelStmt', 'CaseStmt', 'DefaultStmt', 'GCCAsmStmt'):
            raise Unsupported('statement kind %s' % kind)
        # expression statement
        out = []
        s0 = strip(s)
        if call_name(s0) in self.noreturn:
            self.ex(s0, env, out, False)
            if self.info.ret != ('void',):
                raise Unsupported('noreturn call in a function that returns a value')
            if self.in_loop():
                raise Unsupported('noreturn call inside a loop')
            return out + [self.result_code(env, None)]
        self.ex(s, env, out, False)
        return out + k(env)

    def switch_stmt(self, s, env, k):
        C, body = kids(s)[0], kids(s)[-1]
        if body.get('kind') != 'CompoundStmt':
            raise Unsupported('switch without a compound body')
        out = []
        v = self.ex(C, env, out)
        if not is_int(v.ty):
            raise Unsupported('switch on a value of type %r' % (v.ty,))
        sw = self.fresh('sw')
        self.let(out, sw, v.ty, v.code)
        groups = []
        for st in kids(body):
            labels, cur = [], st
            while cur.get('kind') in ('CaseStmt', 'DefaultStmt'):
                ks = kids(cur)
                if cur['kind'] == 'CaseStmt':
                    if len(ks) != 2:
                        raise Unsupported('case range')
                    cval = self.tu._constval(ks[0])
                    if cval is None:
                        cval = self.ex(ks[0], env, []).const
                    if cval is None:
                        raise Unsupported('case label without a constant value')
                    labels.append(cval)
                else:
                    labels.append('default')
                cur = ks[-1]
            if labels:
                groups.append((labels, [cur]))
            elif not groups:
                raise Unsupported('statement before the first case label')
            else:
                groups[-1][1].append(cur)
        for (labels, stmts) in groups[:-1]:
            if all(falls(x) for x in stmts):
                raise Unsupported('fall-through out of a non-empty case group (%s)' % labels)
        seen = [l for (ls, _) in groups for l in ls]
        if len(set(seen)) != len(seen):
            raise Unsupported('duplicate case label')
        rest = k(env)
        if len(rest) > 60:
            raise Unsupported('irregular control flow (a large continuation would have to be duplicated)')
        outer = self.loopstack[-1] if self.loopstack else None
        self.loopstack.append({'kind': 'switch', 'brk': lambda e: list(rest),
                               'cont': (outer['cont'] if outer else None)})
        try:
            arms, dflt = [], None
            for (labels, stmts) in groups:
                lines = self.stmts(stmts, dict(env), lambda e: list(rest))
                if 'default' in labels:
                    dflt = lines        # other labels of the default group need no test
                else:
                    lo, hi = trange(v.ty)
                    for l in labels:
                        if not (lo <= l <= hi):
                            raise Unsupported('case label %d outside %r' % (l, v.ty))
                    tests = ' ∨ '.join('%s = %s' % (sw, lit(l, v.ty).code) for l in labels)
                    arms.append((tests, lines))
        finally:
            self.loopstack.pop()
        if dflt is None:
            dflt = list(rest)
        res = dflt
        for (tests, lines) in reversed(arms):
            res = ['if %s then' % tests] + ['  ' + l for l in self.block(lines)] + ['else'] + ['  ' + l for l in self.block(res)]
        return out + res

    def str_ptr_init(self, n, env, out):
        n = strip(n)
        while n.get('kind') in ('ImplicitCastExpr', 'CStyleCastExpr') and n.get('castKind') in ('NoOp', 'BitCast', 'LValueToRValue'):
            n = strip(kids(n)[0])
        if n.get('kind') == 'DeclRefExpr' and n['referencedDecl']['id'] in env:
            v = env[n['referencedDecl']['id']]
            if v.kind == 'str':
                return v, '0'
            if v.kind == 'sptr':
                return v.extra, v.name
        if n.get('kind') == 'BinaryOperator' and n.get('opcode') == '+':
            base, off0 = self.str_ptr_init(kids(n)[0], env, out)
            iv = self.convert(self.ex(kids(n)[1], env, out), ('s', 64))
            return base, '%s + %s' % (off0, iv.p())
        raise Unsupported('initialiser of a string pointer')

    @staticmethod
    def block(lines):
        """parenthesise a multi-line term"""
        if len(lines) == 1:
            return ['(' + lines[0] + ')']
        return ['(' + lines[0]] + [' ' + l for l in lines[1:-1]] + [' ' + lines[-1] + ')']

    def cond_effectful(self, n):
        """does the RIGHT operand of a short-circuit in this condition call a translated function?"""
        n = strip(n)
        if n.get('kind') == 'BinaryOperator' and n.get('opcode') in ('&&', '||'):
            L, R = kids(n)
            if self.cond_effectful(L):
                return True
            for x in walk(R):
                if x.get('kind') == 'CallExpr':
                    try:
                        if self.callee_name(x) in self.unit.fninfo:
                            return True
                    except Unsupported:
                        return True
                if x.get('kind') == 'CompoundAssignOperator' or (x.get('kind') == 'BinaryOperator' and x.get('opcode') == '=') \
                        or (x.get('kind') == 'UnaryOperator' and x.get('opcode') in ('++', '--')):
                    return True
            return False
        if n.get('kind') == 'UnaryOperator' and n.get('opcode') == '!':
            return self.cond_effectful(kids(n)[0])
        return False

    def branch(self, n, env, kt, kf):
        """if (n) kt() else kf(), splitting short-circuits whose right operand has effects"""
        n1 = strip(n)
        if self.cond_effectful(n1):
            if n1.get('kind') == 'BinaryOperator' and n1.get('opcode') == '&&':
                L, R = kids(n1)
                return self.branch(L, env, lambda: self.branch(R, env, kt, kf), kf)
            if n1.get('kind') == 'BinaryOperator' and n1.get('opcode') == '||':
                L, R = kids(n1)
                return self.branch(L, env, kt, lambda: self.branch(R, env, kt, kf))
            if n1.get('kind') == 'UnaryOperator' and n1.get('opcode') == '!':
                return self.branch(kids(n1)[0], env, kf, kt)
        out = []
        c = self.cond(n, env, out)
        if c == 'True':
            return out + kt()
        if c == 'False':
            return out + kf()
        a, b = kt(), kf()
        return out + ['if %s then' % c] + ['  ' + l for l in self.block(a)] + ['else'] + ['  ' + l for l in self.block(b)]

    def if_stmt(self, s, env, k):
        ks = kids(s)
        C, A = ks[0], ks[1]
        B = ks[2] if len(ks) > 2 else None
        a_ex = may_exit(A)
        b_ex = may_exit(B) if B is not None else False
        a_fall = falls(A)
        b_fall = falls(B) if B is not None else True
        dead = lambda e: ['none /- unreachable -/']
        if not self.cond_effectful(C) and not a_ex and not b_ex and self.simple_branch(A) and self.simple_branch(B):
            out = []
            self.guarded_if(s, env, out)
            return out + k(env)
        rest = k(env)
        k = lambda e: list(rest)
        if not self.cond_effectful(C) and not a_ex and not b_ex and len(rest) > 2:
            # pure state update: merge the variables both arms may assign
            w = self.written_roots(A) | (self.written_roots(B) if B is not None else set())
            mvars = [v for (i, v) in env.items() if i in w]
            if mvars:
                return self.merge_if(C, A, B, env, k, mvars)
        if not a_fall and a_ex:
            return self.branch(C, env, lambda: self.stmt(A, env, dead),
                               lambda: (self.stmt(B, env, k) if B is not None else k(env)))
        if B is not None and not b_fall and b_ex:
            return self.branch(C, env, lambda: self.stmt(A, env, k), lambda: self.stmt(B, env, dead))
        # general case: the continuation is duplicated into both arms
        if len(rest) > 60:
            raise Unsupported('irregular control flow (a large continuation would have to be duplicated)')
        return self.branch(C, env, lambda: self.stmt(A, env, lambda e: list(rest)),
                           lambda: (self.stmt(B, env, lambda e: list(rest)) if B is not None else list(rest)))

    # ----- `if` whose arms only assign: flat, guarded translation (the arms' bindings are emitted one after the
    #       other; every write becomes `x := if <path condition> then <new> else x`, every check is guarded)
    def simple_branch(self, n):
        if n is None:
            return True
        k = n.get('kind')
        if k == 'CompoundStmt':
            return all(self.simple_branch(c) for c in kids(n))
        if k == 'NullStmt':
            return True
        if k == 'IfStmt':
            ks = kids(n)
            return not self.cond_effectful(ks[0]) and all(self.simple_branch(c) for c in ks[1:])
        if k.endswith('Stmt'):
            return False
        for x in walk(n):
            if x.get('kind') == 'CallExpr':
                try:
                    cn = self.callee_name(x)
                except Unsupported:
                    return False
                if cn in self.unit.fninfo:
                    return False
            if x.get('kind') == 'UnaryOperator' and x.get('opcode') in ('++', '--'):
                t = self.tu.ty(x['type'])
                if t[0] == 'ptr':
                    return False
        return True

    def guarded_stmt(self, n, env, out):
        k = n.get('kind')
        if k == 'CompoundStmt':
            for c in kids(n):
                self.guarded_stmt(c, env, out)
        elif k == 'NullStmt':
            pass
        elif k == 'IfStmt':
            self.guarded_if(n, env, out)
        else:
            self.ex(n, env, out, False)

    def guarded_if(self, s, env, out):
        ks = kids(s)
        C, A = ks[0], ks[1]
        B = ks[2] if len(ks) > 2 else None
        c = self.cond(C, env, out)
        if c == 'True':
            return self.guarded_stmt(A, env, out)
        if c == 'False':
            return self.guarded_stmt(B, env, out) if B is not None else None
        cv = self.fresh('c')
        out.append('let %s : Bool := decide (%s)' % (cv, c))
        if len(self.guard) != self.gw_depth:
            raise Unsupported('internal: merged if under a short-circuit')
        for (arm, val) in ((A, 'true'), (B, 'false')):
            if arm is None:
                continue
            self.guard.append('%s = %s' % (cv, val))
            self.gw_depth += 1
            try:
                self.guarded_stmt(arm, env, out)
            finally:
                self.guard.pop()
                self.gw_depth -= 1

    def merge_if(self, C, A, B, env, k, mvars):
        out = []
        c = self.cond(C, env, out)
        MARK = '@@MERGE@@'
        la = self.stmt(A, env, lambda e: [MARK])
        lb = self.stmt(B, env, lambda e: [MARK]) if B is not None else [MARK]
        fails = any(re.search(r'\bnone\b', l) for l in la + lb)
        tup = mvars[0].name if len(mvars) == 1 else '(' + ', '.join(v.name for v in mvars) + ')'
        tty = ' × '.join(lean_ty(v.ty) for v in mvars)
        fin = ('some ' + tup) if fails else tup
        la = [l.replace(MARK, fin) for l in la]
        lb = [l.replace(MARK, fin) for l in lb]
        ite = ['if %s then' % c] + ['  ' + l for l in self.block(la)] + ['else'] + ['  ' + l for l in self.block(lb)]
        if len(la) == 1 and len(lb) == 1:
            ite = ['if %s then %s else %s' % (c, la[0], lb[0])]
        single = len(mvars) == 1
        p = mvars[0].name if single else self.fresh('p')
        if fails:
            q = self.fresh('p') if single else p
            out += ['match (' + ite[0]] + ['  ' + l for l in ite[1:-1]] + (['  ' + ite[-1] + ') with'] if len(ite) > 1 else [])
            if len(ite) == 1:
                out[-1] = 'match (%s) with' % ite[0]
            out += ['| none => none', '| some %s =>' % q]
            p = q
            if single:
                out.append('let %s : %s := %s' % (mvars[0].name, tty, q))
        else:
            if len(ite) == 1:
                out.append('let %s : %s := %s' % (p, tty, ite[0]))
            else:
                out += ['let %s : %s :=' % (p, tty)] + ['  ' + l for l in ite]
        if not single:
            n = len(mvars)
            for j, v in enumerate(mvars):
                out.append('let %s : %s := %s' % (v.name, lean_ty(v.ty), p + '.2' * j + ('.1' if j < n - 1 else '')))
        return out + k(env)

    def loop_stmt(self, s, env, k):
        kind = s['kind']
        ks = kids(s)
        out = []
        if kind == 'WhileStmt':
            C, body, inc = ks[0], ks[1], None
        else:
            # ForStmt: init, condvar, cond, inc, body
            init, _cv, C, inc, body = ks
            if init and init.get('kind'):
                # the init statement runs in the enclosing scope
                return self.stmt(init, env, lambda e: self.loop_stmt(
                    {'kind': 'ForStmt', 'inner': [{}, {}, C, inc, body]}, e, lambda e2: k(env if init.get('kind') != 'DeclStmt' else e2)))
            if not C or not C.get('kind'):
                raise Unsupported('for loop without a condition')
            if not inc or not inc.get('kind'):
                inc = None
        if self.in_loop():
            raise Unsupported('nested loop')
        self.info.fuel = True
        self.nloop += 1
        lname_ = '%s_loop%d' % (self.name, self.nloop)
        pieces = [C, body] + ([inc] if inc else [])
        w = set()
        for pce in pieces:
            w |= self.written_roots(pce)
        locs, globs, envs, _ = [], [], [], False
        for pce in pieces:
            l2, g2, e2, _f = self.scan_refs(pce, env)
            locs += [x for x in l2 if x not in locs]
            globs += [x for x in g2 if x not in globs]
            envs += [x for x in e2 if x not in envs]
        state = [env[i] for i in env if i in w and i in locs and env[i].kind != 'opaque']
        ro = [env[i] for i in env if i in locs and i not in w and env[i].kind != 'opaque']
        for v in list(state) + list(ro):
            if v.kind == 'sptr' and v.extra is not None and v.extra not in ro and v.extra not in state:
                ro.append(v.extra)          # `*p` reads the string p points into
        for v in state:
            if v.kind == 'str':
                raise Unsupported('string parameter `%s` re-assigned in a loop (copy it into a local pointer)' % v.cname)
        gparams = []
        for g in globs:
            if isinstance(g, tuple):
                self.use_global_ent(g[1])
                gparams.append(g[1])
            else:
                v = self.use_global(g)
                gparams.append((v.code, v.ty))
        eparams = []
        for e in envs:
            v = self.use_env(e)
            eparams.append((v.code, v.ty))
        sty = ' × '.join(lean_ty(v.ty) for v in state) if state else 'Unit'
        stup = (state[0].name if len(state) == 1 else '(' + ', '.join(v.name for v in state) + ')') if state else '()'
        fixed = ['(fuel : Nat)'] + ['(%s : %s)' % (n_, lean_ty(t)) for (n_, t) in gparams + eparams] + \
                ['(%s : %s)' % (v.name, lean_ty(v.ty)) for v in ro]
        fixed_args = ['fuel'] + [n_ for (n_, t) in gparams + eparams] + [v.name for v in ro]
        reccall = ' '.join([lname_] + fixed_args + ["k'"] + [v.name for v in state])
        exit_ = ['some ' + stup]
        self.loopstack.append({
            'brk': lambda e: list(exit_),
            'cont': (lambda e: (self.stmt(inc, e, lambda e2: [reccall]) if inc else [reccall])),
        })
        try:
            def after_body(e):
                if inc:
                    return self.stmt(inc, e, lambda e2: [reccall])
                return [reccall]
            blines = self.branch(C, env, lambda: self.stmt(body, env, after_body), lambda: list(exit_))
        finally:
            self.loopstack.pop()
        sig = 'def %s %s : Nat → %sOption (%s)' % (lname_, ' '.join(fixed), ''.join(lean_ty(v.ty) + ' → ' for v in state), sty)
        aux = ['/-- loop %d of `%s` (state: %s).' % (self.nloop, self.name, ', '.join(v.cname for v in state) or '-'),
               '    OBLIGATION (fuel suffices): for the arguments in the declared C ranges there is a bound `b` with',
               '    `∀ k ≥ b, %s … k … ≠ none`; it is discharged by the bridge theorem, which proves `= some _`. -/' % lname_,
               sig,
               '  | 0' + ''.join(', _' for _ in state) + ' => none',
               "  | k' + 1" + ''.join(', ' + v.name for v in state) + ' =>']
        aux += ['    ' + l for l in blines]
        self.aux.append('\n'.join(aux))
        call = ' '.join([lname_] + fixed_args + ['fuel'] + [v.name for v in state])
        out.append('match %s with' % call)
        out.append('| none => none')
        if len(state) <= 1:
            out.append('| some %s =>' % (state[0].name if state else '_'))
        else:
            p = self.fresh('p')
            out.append('| some %s =>' % p)
            n = len(state)
            for j, v in enumerate(state):
                out.append('let %s : %s := %s' % (v.name, lean_ty(v.ty), p + '.2' * j + ('.1' if j < n - 1 else '')))
        return out + k(env)

    # ---------- whole function
    def prefetch_callees(self):
        """translate (as auxiliaries) the same-file functions this one calls, before its own body is analysed"""
        if self.fragkind:
            ci, fr = self.locate_fragment()
            root = kids(fr)[ci] if self.fragkind == 'cond' else fr
        else:
            root = self.body()
        for x in walk(root):
            cn = call_name(x)
            if cn and cn in self.tu.funcs and cn not in self.unit.fninfo and cn != self.node['name'] \
                    and cn not in self.effects and cn not in self.noreturn:
                try:
                    self.unit.translate_aux(cn, self)
                except Unsupported:
                    pass        # reported when (if) the call is really translated

    def translate(self):
        global NORETURN
        self.prefetch_callees()
        NORETURN = set(self.noreturn)
        info = self.signature()
        info.has_ev = self.has_ev

        def fallthrough(e):
            if info.ret != ('void',):
                return ['none /- control reaches the end of a non-void function -/']
            return [self.result_code(e, None)]
        if self.fragkind == 'cond':
            lines = []
            c = self.cond(self.fragroot, dict(self.env), lines)
            lines.append('some (decide (%s))' % c)
        elif self.fragkind == 'body':
            # `continue` ends the fragment normally; `break` would need a flag: refused
            self.loopstack.append({'kind': 'switch', 'brk': None, 'cont': fallthrough})
            try:
                lines = self.stmt(self.fragroot, dict(self.env), fallthrough)
            finally:
                self.loopstack.pop()
        elif self.fragkind == 'stmt':
            lines = self.stmt(self.fragroot, dict(self.env), fallthrough)
        else:
            lines = self.stmts(kids(self.body()), dict(self.env), fallthrough)
        if self.has_ev:
            lines = ['let ev_ : List Ev := []'] + lines
        info.errno = self.errno
        rparts = ([] if info.ret == ('void',) else [lean_ty(info.ret)]) + [lean_ty(info.params[i].ty) for i in info.inout] + \
                 (['Int'] if self.spec.get('errno') == 'result' else []) + (['List Ev'] if self.has_ev else [])
        rty = ' × '.join(rparts) if rparts else 'Unit'
        if self.fragkind == 'cond':
            rty = 'Bool'
        if self.errno == 'w' and self.spec.get('errno') != 'result':
            raise Unsupported('errno is assigned: declare "errno": "result" in the registry')
        params = (['(fuel : Nat)'] if info.fuel else []) + \
                 ['(%s : %s)' % (n_, lean_ty(t)) for (n_, t) in info.globals + info.envin] + \
                 (['(errno_ : Int)'] if self.errno else []) + \
                 ['(%s : %s)' % (v.name, lean_ty(v.ty)) for v in info.params]
        csig = self.c_signature()
        if self.fragkind:
            what = {'cond': 'the condition of the statement', 'stmt': 'the statement', 'body': 'the body of the loop'}[self.fragkind]
            doc = ['/-- C: %s of `%s` whose first line matches /%s/' % (what, self.node['name'], self.spec['at'].replace('-/', '- /')),
                   '    free variables are parameters (`a[i]` is one record `a_i`), assigned ones are results']
        else:
            doc = ['/-- C: `%s`' % csig]
        if self.has_ev:
            doc.append('    declared effects (recorded in the last result, in order): %s' % ', '.join(self.effects + self.noreturn))
        if self.spec.get('skip'):
            doc.append('    statements left out (declared irrelevant to the decision): those beginning with %s' % ', '.join(self.spec['skip']))
        if info.inout and not self.fragkind:
            doc.append('    result: (%s)' % ', '.join((['return value'] if info.ret != ('void',) else []) +
                                                      ['*%s afterwards' % info.params[i].cname if info.params[i].kind == 'iptr'
                                                       else '*%s afterwards' % info.params[i].cname for i in info.inout]))
        if info.globals:
            doc.append('    globals read (parameters): %s' % ', '.join(g[0] for g in info.globals))
        if info.envin:
            doc.append('    environment inputs (parameters): %s' % ', '.join(e[0][4:] + '()' for e in info.envin))
        for nt in self.notes:
            doc.append('    ' + nt)
        doc[-1] += ' -/'
        text = '\n\n'.join(self.aux + ['\n'.join(doc + ['def %s %s : Option (%s) :=' % (self.name, ' '.join(params), rty)] +
                                                 ['  ' + l for l in lines])])
        return text

    def c_signature(self):
        ft = self.node['type']['qualType']
        ret = ft[:ft.index('(')].strip()
        ps = []
        for p in kids(self.node):
            if p.get('kind') == 'ParmVarDecl':
                ps.append('%s %s' % (p['type']['qualType'], p.get('name', '')))
        return '%s %s(%s)' % (ret, self.name, ', '.join(ps))


# ------------------------------------------------------------------ units
class Unit:
    def __init__(self, name, spec, repo):
        self.name, self.spec, self.repo = name, spec, repo
        self.fninfo = {}
        self.used_fields = {}
        self.failed = []
        self.sigs = {}
        self.pending_aux = []      # texts of auxiliary definitions translated on demand (emitted before their caller)
        self.aux_busy = set()
        self.aux_failed = {}

    def translate_aux(self, cn, caller):
        """a function of the same file that a registered target calls: translated like a registered one, marked
        @[simp] so that the bridge proofs see through it (extracting a helper / inlining it is then invisible)"""
        global NORETURN
        if cn in self.aux_failed:
            raise Unsupported('call of `%s`, which is outside the subset: %s' % (cn, self.aux_failed[cn]))
        if cn in self.aux_busy:
            raise Unsupported('recursive call of `%s`' % cn)
        node = self.tu.funcs[cn]
        called = set(call_name(x) for x in walk(node) if x.get('kind') == 'CallExpr')
        spec = {'name': cn, 'assume': list(caller.spec.get('assume', [])),
                'effects': [e for e in caller.effects if e in called],
                'noreturn': [e for e in caller.noreturn if e in called]}
        self.aux_busy.add(cn)
        saved = set(NORETURN)
        try:
            tr = FnTr(self.tu, self, node, spec)
            text = tr.translate()
        except Unsupported as e:
            self.aux_failed[cn] = str(e)
            raise Unsupported('call of `%s`, which is outside the subset: %s' % (cn, e))
        finally:
            self.aux_busy.discard(cn)
            NORETURN = saved
        self.fninfo[cn] = tr.info
        self.pending_aux.append(text.replace('\ndef %s ' % cn, '\n@[simp] def %s ' % cn, 1)
                                .replace(' -/\n@[simp] def', '\n    AUXILIARY (not registered: called by a registered target, translated on demand) -/\n@[simp] def', 1))
        return tr.info

    def generate(self):
        tu = TU(self.repo, self.spec['file'])
        self.tu = tu
        texts = []
        for f in self.spec['functions']:
            fname = f['name']
            node = tu.funcs.get(f.get('in', fname))
            try:
                if node is None:
                    raise Unsupported('no definition of `%s` in %s' % (f.get('in', fname), self.spec['file']))
                if 'in' not in f and fname in self.fninfo:
                    raise Unsupported('`%s` was already translated as an auxiliary of an earlier target: register it before its callers' % fname)
                tr = FnTr(tu, self, node, f)
                text = tr.translate()
                self.fninfo[fname] = tr.info
                texts.extend(self.pending_aux)
                self.pending_aux = []
                texts.append(text)
                # the Lean signature the bridge theorem is stated for (recorded in the registry by --record-sigs)
                m = re.search(r'^def %s (.*?) :=$' % re.escape(fname), text, re.M)
                sig = m.group(1) if m else ''
                self.sigs[fname] = sig
                if f.get('sig') and sig != f['sig']:
                    self.failed.append((fname, 'signature changed: parameters/result `%s` -> `%s` (the bridge theorem is stated '
                                        'for the recorded signature; a bridge cannot follow a changed interface automatically: '
                                        'restate it, then `c2lean.py --record-sigs`)' % (f['sig'], sig)))
            except Unsupported as e:
                texts.extend(self.pending_aux)
                self.pending_aux = []
                self.failed.append((fname, str(e)))
                texts.append('-- TRANSLATION FAILED for `%s`: %s' % (fname, e))
        structs = []
        for rid, fields in self.used_fields.items():
            rec = tu.records[rid]
            sname = lname(rec.get('name') or 'anon')
            order = [f['name'] for f in kids(rec) if f.get('kind') == 'FieldDecl' and f.get('name') in fields]
            lines = ['/-- the fields of C `struct %s` that the translated functions use' % (rec.get('name') or '(anonymous)'),
                     '    (unsigned: Nat below 2^width, signed: Int, `char *`: List Char, `unsigned char *`: List Nat) -/',
                     'structure %s where' % sname]
            for fn_ in order:
                ft = tu.field(rid, fn_)
                cm = {'u': 'unsigned %d bit' % ft[1], 's': 'signed %d bit' % ft[1]}.get(ft[0], 'read-only buffer') if len(ft) > 1 else \
                    ('NUL-terminated string' if ft == ('str',) else 'byte buffer')
                lines.append('  %s : %s   -- %s' % (lname(fn_), lean_ty(ft), cm))
            lines.append('  deriving Repr, DecidableEq, Inhabited')
            structs.append('\n'.join(lines))
        hdr = ['-- GENERATED by tools/c2lean.py from %s of the checked tree. DO NOT EDIT.' % self.spec['file'],
               '-- functions: %s' % ', '.join(f['name'] for f in self.spec['functions']),
               '-- semantics: tools/c2lean.md (`none` = undefined behaviour or fuel exhausted)',
               'import PdshVerif.C2Lean.Prelude'] + (['import PdshVerif.Base.CInt'] if getattr(self, 'need_cint', False) else []) + ['', 'set_option linter.unusedVariables false', '',
               'namespace PdshVerif.Gen.Fn.%s' % self.name, 'open PdshVerif.C2Lean', '', '']
        body = '\n\n'.join(structs + texts)
        return '\n'.join(hdr) + body + '\n\nend PdshVerif.Gen.Fn.%s\n' % self.name


def load_targets(path):
    with open(path) as f:
        return json.load(f)


SIGS = {}      # unit -> {target: Lean signature} of the last regen()


def regen(repo, targets_path, outdir, units=None, write=True):
    """returns (changed_files, failures[(unit, fn, why)], texts{unit: text})"""
    targets = load_targets(targets_path)
    changed, failures, texts = [], [], {}
    for uname, spec in targets['units'].items():
        if units and uname not in units:
            continue
        u = Unit(uname, spec, repo)
        try:
            text = u.generate()
        except Unsupported as e:
            failures.append((uname, '*', str(e)))
            text = '-- TRANSLATION FAILED for unit %s: %s\nnamespace PdshVerif.Gen.Fn.%s\nend PdshVerif.Gen.Fn.%s\n' % (uname, e, uname, uname)
        for (fn_, why) in u.failed:
            failures.append((uname, fn_, why))
        SIGS[uname] = dict(u.sigs)
        texts[uname] = text
        path = os.path.join(outdir, 'Fn%s.lean' % uname)
        old = None
        if os.path.exists(path):
            with open(path) as f:
                old = f.read()
        if old != text:
            changed.append(path)
            if write:
                tmp = path + '.tmp.%d' % os.getpid()
                with open(tmp, 'w') as f:
                    f.write(text)
                os.replace(tmp, path)
    return changed, failures, texts


def main():
    ap = argparse.ArgumentParser()
    ap.add_argument('--repo', default=os.environ.get('VERIF_REPO', '/repo'))
    ap.add_argument('--targets', default=os.path.join(HERE, 'c2lean_targets.json'))
    ap.add_argument('--out', default=os.path.join(ROOT, 'lean', 'PdshVerif', 'Gen'))
    ap.add_argument('--unit', action='append')
    ap.add_argument('--check', action='store_true', help='do not write; exit 2 if a file would change')
    ap.add_argument('--stdout', action='store_true')
    ap.add_argument('--record-sigs', action='store_true', help='store the current Lean signatures in the registry ("sig")')
    a = ap.parse_args()
    changed, failures, texts = regen(a.repo, a.targets, a.out, a.unit, write=not (a.check or a.stdout))
    if a.record_sigs:
        raw = open(a.targets).read()
        reg = json.loads(raw)
        for uname, sigs in SIGS.items():
            for f in reg['units'][uname]['functions']:
                if f['name'] in sigs:
                    f['sig'] = sigs[f['name']]
        out = ['{', ' "comment": %s,' % json.dumps(reg['comment'], ensure_ascii=False), ' "units": {']
        us = list(reg['units'].items())
        for ui, (un, spec) in enumerate(us):
            out += ['  %s: {' % json.dumps(un), '   "file": %s,' % json.dumps(spec['file']),
                    '   "bridge_module": %s,' % json.dumps(spec['bridge_module']), '   "functions": [']
            fs = spec['functions']
            out += ['    %s%s' % (json.dumps(f, ensure_ascii=False), ',' if i < len(fs) - 1 else '') for i, f in enumerate(fs)]
            out += ['   ]', '  }%s' % (',' if ui < len(us) - 1 else '')]
        out += [' }', '}']
        with open(a.targets, 'w') as fh:
            fh.write('\n'.join(out) + '\n')
        failures = [x for x in failures if not x[2].startswith('signature changed')]
    if a.stdout:
        for u, t in texts.items():
            sys.stdout.write(t)
    for (u, f, why) in failures:
        print('FAIL %s %s: %s' % (u, f, why), file=sys.stderr)
    for c in changed:
        print(('would change ' if a.check or a.stdout else 'wrote ') + c, file=sys.stderr)
    if failures:
        return 1
    if a.check and changed:
        return 2
    return 0


if __name__ == '__main__':
    sys.exit(main())
