#!/bin/sh
# usage: confirm_seeded.sh <scratch-worktree> <candidate-dir>
# Confirms, in the scratch worktree (never in /repo), that a candidate seeded change
#  (a) applies and compiles, (b) leaves `make check` unchanged w.r.t. the pristine worktree,
#  (c) its demo passes without and fails with the change.  Prints a one-line verdict.
W="$1"; C="$2"
cd "$W" || exit 2
git checkout -q -- . || exit 2
res() { grep -E "^(PASS|FAIL|XFAIL|XPASS|SKIP|ERROR|ok|not ok)" "$1" | sed 's/ # TODO.*//' | sort; }
if [ ! -f "$W/.baseline.results" ]; then
  make -j8 >/dev/null 2>&1
  make check > "$W/.baseline.log" 2>&1
  res "$W/.baseline.log" > "$W/.baseline.results"
fi
rundemo() {  # build+run the demo against the worktree's current source; echo exit code
  ( cd "$C" && sed "s#/tmp/[A-Za-z0-9_-]*-[a-z]\b#$W#g; s#/tmp/mut-[A-Za-z0-9_-]*#$W#g" build.sh > .build.sh && sh .build.sh >/dev/null 2>&1 )
  if [ -x "$C/demo" ]; then ( cd "$C" && timeout 120 ./demo >/dev/null 2>&1; echo $? ); elif [ -f "$C/demo.sh" ]; then ( cd "$C" && timeout 300 bash demo.sh "$W" >/dev/null 2>&1; echo $? ); else echo nodemo; fi
}
D0=$(rundemo)
git apply "$C/patch.diff" || { echo "VERDICT $C: patch does not apply"; exit 1; }
if ! make -j8 > "$W/.build.log" 2>&1; then git checkout -q -- .; echo "VERDICT $C: does not compile"; exit 1; fi
D1=$(rundemo)
make check > "$W/.check.log" 2>&1
res "$W/.check.log" > "$W/.check.results"
if diff -q "$W/.baseline.results" "$W/.check.results" >/dev/null; then MC=unchanged; else MC=DIFFERS; fi
git checkout -q -- .
make -j8 >/dev/null 2>&1
rm -f "$C/demo" "$C/.build.sh"
echo "VERDICT $C: demo_without=$D0 demo_with=$D1 make_check=$MC"
