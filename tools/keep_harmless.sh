#!/bin/bash
# usage: keep_harmless.sh <tag>  -- confirm every harmless candidate of /tmp/mutout-<tag> in /tmp/mutw-<tag>
# (applies, compiles, `make check` unchanged), keep it under /verif/harmless/<id>/, remove worktree and outputs.
t=$1; W=/tmp/mutw-$t
res() { grep -E "^(PASS|FAIL|XFAIL|XPASS|SKIP|ERROR|ok|not ok)" "$1" | sed 's/ # TODO.*//' | sort; }
cd $W || exit 2
git checkout -q -- .
if [ ! -f $W/.baseline.results ]; then make -j8 >/dev/null 2>&1; make check > $W/.baseline.log 2>&1; res $W/.baseline.log > $W/.baseline.results; fi
for c in /tmp/mutout-$t/C[0-9][0-9]-H[0-9]; do
  [ -d "$c" ] || continue
  id=$(basename $c)
  git apply $c/patch.diff || { echo "VERDICT $id: patch does not apply"; continue; }
  if ! make -j8 > $W/.build.log 2>&1; then git checkout -q -- .; echo "VERDICT $id: does not compile"; continue; fi
  make check > $W/.check.log 2>&1; res $W/.check.log > $W/.check.results
  if diff -q $W/.baseline.results $W/.check.results >/dev/null; then MC=unchanged; else MC=DIFFERS; fi
  git checkout -q -- .
  echo "VERDICT $id: make_check=$MC"
  [ $MC = unchanged ] || continue
  d=/verif/harmless/$id; mkdir -p $d; cp $c/patch.diff $c/meta.json $d/
done
make -j8 >/dev/null 2>&1
git -C /repo worktree remove --force $W; rm -rf /tmp/mutout-$t
