#!/usr/bin/env python3
"""
Self-test of the C -> Lean translator and its bridge theorems.

  (i)   regenerate Gen/Fn*.lean from the tree under check (VERIF_REPO, default /repo), build every
        Bridge module and Props/Bridge.lean, scan for forbidden tokens, `#print axioms` on every theorem
        of Props/Bridge.lean (allowed: propext, Classical.choice, Quot.sound);
  (ii)  BEHAVIOURAL mutations of the translated C functions, each applied to a scratch copy of the sources:
        the regenerated Lean must differ and the bridge module must FAIL to build (or the function must
        become untranslatable, which the integration reports as P-BROKEN as well);
  (iii) HARMLESS rewrites (renamed local, swapped independent statements, `a > b` <-> `b < a`, extracted
        temporary ...): the bridge module must still BUILD although the regenerated Lean differs.

Prints a table; exit status 0 iff every row is as expected.  Options: --only ID[,ID..]  --skip-base
The committed Gen/Fn*.lean files are restored (re-generated from the tree under check) at the end.
"""
import fcntl, os, re, shutil, subprocess, sys, tempfile, time, argparse

HERE = os.path.dirname(os.path.abspath(__file__))
ROOT = os.path.dirname(HERE)
sys.path.insert(0, HERE)
sys.path.insert(0, ROOT)
import c2lean  # noqa: E402

REPO = os.environ.get("VERIF_REPO", "/repo")
LEAN = os.path.join(ROOT, "lean")
GEN = os.path.join(LEAN, "PdshVerif", "Gen")
TARGETS = os.path.join(HERE, "c2lean_targets.json")
ALLOWED = {"propext", "Classical.choice", "Quot.sound"}
FORBIDDEN = re.compile(r"\bsorry\b|\badmit\b|^\s*axiom\s|native_decide|bv_decide|implemented_by|"
                       r"\bunsafe\s|maxHeartbeats\s+0\b|\bopaque\s|@\[extern|\bpartial\s+def\b", re.M)

HL, CB, DS, MO, RC = "src/common/hostlist.c", "src/pdsh/cbuf.c", "src/pdsh/dsh.c", "src/pdsh/mod.c", "src/pdsh/rcmd.c"
OP, WC, PS, PC = "src/pdsh/opt.c", "src/pdsh/wcoll.c", "src/pdsh/pcp_server.c", "src/common/pipecmd.c"

# (id, unit, file, function, description, old text, new text)      old must occur exactly once in the function
MUTATIONS = [
    ("M01", "Hostlist", HL, "_zero_padded", "wrong constant: digit count starts at 0", "int n = 1;", "int n = 0;"),
    ("M02", "Hostlist", HL, "_zero_padded", "wrong constant: divides by 8", "num /= 10L", "num /= 8L"),
    ("M03", "Hostlist", HL, "_zero_padded", "wrong comparison: pads one too few", "width > n ? width - n : 0", "width > n ? width - n - 1 : 0"),
    ("M04", "Hostlist", HL, "_width_equiv", "&& becomes ||", "if (npad != nmpad && mpad != mnpad)", "if (npad != nmpad || mpad != mnpad)"),
    ("M05", "Hostlist", HL, "_width_equiv", "wrong width adjusted", "*wm = *wn;", "*wn = *wm;"),
    ("M06", "Hostlist", HL, "hostrange_count", "off by one", "return hr->hi - hr->lo + 1;", "return hr->hi - hr->lo;"),
    ("M07", "Hostlist", HL, "hostrange_empty", "< becomes <=", "(hr->hi < hr->lo)", "(hr->hi <= hr->lo)"),
    ("M08", "Hostlist", HL, "hostrange_prefix_cmp", "swapped operands", "h2->singlehost - h1->singlehost", "h1->singlehost - h2->singlehost"),
    ("M09", "Hostlist", HL, "hostrange_within_range", "swapped results of ?:", "h1->singlehost || h2->singlehost ? 0 : 1", "h1->singlehost || h2->singlehost ? 1 : 0"),
    ("M10", "Hostlist", HL, "hostrange_cmp", "the D26 defect returns: difference cut to int",
     "(h1->lo > h2->lo) - (h1->lo < h2->lo) : h1->width - h2->width", "h1->lo - h2->lo : h1->width - h2->width"),
    ("M11", "Hostlist", HL, "hostrange_join", "perfect join misses by one", "h1->hi == h2->lo - 1", "h1->hi == h2->lo"),
    ("M12", "Hostlist", HL, "hostrange_join", "duplicate count off by one", "duplicated = h1->hi - h2->lo + 1;", "duplicated = h1->hi - h2->lo;"),
    ("M13", "Hostlist", HL, "hostrange_join", "dropped branch: no overlap case", "} else if (h1->hi >= h2->lo) {", "} else if (0) {"),
    ("M14", "Cbuf", CB, "cbuf_dropper", "wraps at size instead of size+1", "(cb->i_out + len) % (cb->size + 1)", "(cb->i_out + len) % (cb->size)"),
    ("M15", "Cbuf", CB, "cbuf_dropper", "drop accounting off by one", "cb->used -= len;", "cb->used -= len - 1;"),
    ("M16", "Dsh", DS, "_thd_connect_timeout", "< becomes <=", "th->start + connect_timeout < time (NULL)", "th->start + connect_timeout <= time (NULL)"),
    ("M17", "Dsh", DS, "_thd_command_timeout", "0 no longer means unlimited", "(command_timeout > 0)", "(command_timeout >= 0)"),
    ("M18", "Mod", MO, "_dir_permission_error", "sticky bit no longer excuses world-writable",
     "if ((st->st_mode & S_IWOTH) && !(st->st_mode & S_ISVTX))", "if ((st->st_mode & S_IWOTH))"),
    ("M19", "Mod", MO, "_dir_permission_error", "world-writable directories accepted (wrong mask)",
     "(st->st_mode & S_IWOTH) &&", "(st->st_mode & S_IWGRP) &&"),
    ("M20", "Mod", MO, "_dir_permission_error", "owner test dropped for the alternative uid", "&& (st->st_uid != alt_uid))", "&& (st->st_uid != alt_uid || 1))"),
    ("M21", "Rcmd", RC, "find_host", "inverted match", "strcmp (x->hostname, hostname) == 0", "strcmp (x->hostname, hostname) != 0"),
    ("M23", "Hostlist", HL, "host_prefix_end", ">= becomes >: index 0 never tested", "while (idx >= 0 && isdigit", "while (idx > 0 && isdigit"),
    ("M24", "Hostlist", HL, "host_prefix_end", "off by one start", "int idx = strlen(hostname) - 1;", "int idx = strlen(hostname);"),
    ("M25", "Cbuf", CB, "cbuf_find_unread_line", "byte count of the last line off by one", "m = n;", "m = n - 1;"),
    ("M26", "Cbuf", CB, "cbuf_find_unread_line", "|| becomes &&: scan does not stop at the line limit",
     "if ((chars == 0) || (lines == 0)) {", "if ((chars == 0) && (lines == 0)) {"),
    ("M27", "Cbuf", CB, "cbuf_find_unread_line", "all-or-none test dropped", "if (lines > 0) {\n        return(0);", "if (0) {\n        return(0);"),
    # ---- round 2b: fragments (edited inside their enclosing function), switch, effects, strtol
    ("M30", "Dsh", DS, "_wdog", "connecting slots tested against the COMMAND time-out", "case DSH_RCMD:\n                if (_thd_connect_timeout (&t[i]))", "case DSH_RCMD:\n                if (_thd_command_timeout (&t[i]))"),
    ("M31", "Dsh", DS, "_wdog", "wrong signal", "pthread_kill(t[i].thread, SIGALRM);\n                break;\n            case DSH_READING:", "pthread_kill(t[i].thread, SIGTERM);\n                break;\n            case DSH_READING:"),
    ("M32", "Dsh", DS, "_fwd_signal", "signals forwarded to connecting slots", "if (t[i].state == DSH_READING)", "if (t[i].state == DSH_RCMD)"),
    ("M33", "Dsh", DS, "_cancel_pending_threads", "connecting slots no longer canceled", "if ((t[i].state == DSH_NEW) || (t[i].state == DSH_RCMD)) {", "if ((t[i].state == DSH_NEW)) {"),
    ("M34", "Dsh", DS, "dsh", "-S: RC_FAILED replaces a larger code (finding D8 returns)", "&& rc < RC_FAILED)", "&& rc != RC_FAILED)"),
    ("M35", "Dsh", DS, "dsh", "-S: canceled targets no longer count as failed", "(t[i].state == DSH_FAILED || t[i].state == DSH_CANCELED)", "(t[i].state == DSH_FAILED)"),
    ("M36", "Dsh", DS, "_handle_sigint", "> becomes >=: a second ^C after exactly INTR_TIME no longer aborts", "time(NULL) - *last_intrp > INTR_TIME", "time(NULL) - *last_intrp >= INTR_TIME"),
    ("M37", "Dsh", DS, "_handle_sigint", "batch mode no longer forwards SIGINT", "if (sigint_terminates) {\n        _fwd_signal(SIGINT);", "if (sigint_terminates) {"),
    ("M38", "Dsh", DS, "_handle_sigtstp", "swapped branches", "raise (SIGSTOP);\n    else\n        _cancel_pending_threads ();", "_cancel_pending_threads ();\n    else\n        raise (SIGSTOP);"),
    ("M39", "Dsh", DS, "_list_slowthreads", "connecting threads no longer listed", "case DSH_RCMD:\n            ttl = t[i].start", "case DSH_CANCELED + 7:\n            ttl = t[i].start"),
    ("M40", "Mod", MO, "_mod_load_dynamic_modules", "group-writable tested instead of world-writable", "if (st.st_mode & S_IWOTH) {", "if (st.st_mode & S_IWGRP) {"),
    ("M41", "Mod", MO, "_mod_load_dynamic_modules", "owner of the pdsh binary no longer trusted", "&& (st.st_uid != pdsh_owner)) {", "&& (st.st_uid != pdsh_owner || 1)) {"),
    ("M42", "Mod", MO, "_mod_load_dynamic_modules", "directories accepted as modules", "if (!S_ISREG(st.st_mode))", "if (!S_ISREG(st.st_mode) && !S_ISDIR(st.st_mode))"),
    ("M43", "Hostlist", HL, "_parse_single_range", "> becomes >=: a single host `n5` is refused", "if (range->lo > range->hi)", "if (range->lo >= range->hi)"),
    ("M44", "Hostlist", HL, "_parse_single_range", "size test off by one", "range->hi - range->lo >= MAX_RANGE", "range->hi - range->lo > MAX_RANGE"),
    ("M45", "Hostlist", HL, "_parse_single_range", "ULONG_MAX accepted again (finding D15 returns)", "range->hi == ULONG_MAX || ", ""),
    ("M46", "Hostlist", HL, "hostrange_hn_within", "upper bound not tested", "&& (hn->num <= hr->hi)\n", "\n"),
    ("M47", "Opt", OP, "string_to_int", "trailing garbage accepted", "(p == val) || (*p != '\\0') ||", "(p == val) ||"),
    ("M48", "Opt", OP, "string_to_int", "range test dropped: silent truncation (finding D5 returns)", "|| (n < INT_MIN) || (n > INT_MAX))", ")"),
    ("M49", "Opt", OP, "string_to_int", "empty text accepted as 0", "if (errno || (p == val) ||", "if (errno ||"),
    ("M50", "Wcoll", WC, "wcoll_ctx_read_stream", "piece length instead of newline (seeded C01-4 / C10-9)", "if (strchr (buf, '\\n') == NULL)", "if (strlen (buf) == LINEBUFSIZE - 1)"),
    ("M51", "PcpServer", PS, "_sink", "names with a slash accepted (seeded C12-10)", "if (strchr (cp, '/') != NULL || strcmp (cp, \"..\") == 0)", "if (strcmp (cp, \"..\") == 0)"),
    ("M52", "PcpServer", PS, "_sink", "`..` accepted", "|| strcmp (cp, \"..\") == 0)", "|| strcmp (cp, \".\") == 0)"),
    ("M53", "PcpServer", PS, "_sink", "digit 8 accepted in a mode", "if (*cp < '0' || *cp > '7')", "if (*cp < '0' || *cp > '8')"),
    ("M54", "PcpServer", PS, "_sink", "EOF no longer ends the transfer (seeded C12-3 / C12-5)", "if (j <= 0) {", "if (j < 0) {"),
    ("M22", "Hostlist", HL, "_zero_padded", "leaves the subset: calls printf", "int n = 1;", "int n = 1; printf(\"x\");"),
]

HARMLESS = [
    ("H01", "Hostlist", HL, "_zero_padded", "renamed local n -> digits", r"\bn\b", "digits"),      # regex over the function
    ("H02", "Hostlist", HL, "_zero_padded", "a > b  <->  b < a", "width > n ? width - n : 0", "n < width ? width - n : 0"),
    ("H03", "Hostlist", HL, "_zero_padded", "equivalent boundary: >= instead of >", "width > n ? width - n : 0", "width >= n ? width - n : 0"),
    ("H04", "Hostlist", HL, "_width_equiv", "swapped independent statements",
     "npad = _zero_padded(n, *wn);\n    nmpad = _zero_padded(n, *wm);", "nmpad = _zero_padded(n, *wm);\n    npad = _zero_padded(n, *wn);"),
    ("H05", "Hostlist", HL, "hostrange_count", "extracted temporary",
     "return hr->hi - hr->lo + 1;", "{ unsigned long d = hr->hi - hr->lo; return d + 1; }"),
    ("H06", "Hostlist", HL, "hostrange_empty", "a < b  <->  b > a", "(hr->hi < hr->lo)", "(hr->lo > hr->hi)"),
    ("H07", "Hostlist", HL, "hostrange_join", "a >= b  <->  b <= a", "h1->hi >= h2->lo", "h2->lo <= h1->hi"),
    ("H08", "Cbuf", CB, "cbuf_dropper", "x -= y  ->  x = x - y", "cb->used -= len;", "cb->used = cb->used - len;"),
    ("H09", "Dsh", DS, "_thd_connect_timeout", "a < b  <->  b > a", "th->start + connect_timeout < time (NULL)", "time (NULL) > th->start + connect_timeout"),
    ("H10", "Mod", MO, "_dir_permission_error", "swapped operands of &&", "(st->st_uid != 0) && (st->st_uid != getuid())", "(st->st_uid != getuid()) && (st->st_uid != 0)"),
    ("H11", "Rcmd", RC, "find_host", "0 == x  instead of  x == 0", "strcmp (x->hostname, hostname) == 0", "0 == strcmp (x->hostname, hostname)"),
    # equal prefixes imply equal `singlehost` bits, so || and && agree where the test is reached: found by the bridge itself
    ("H13", "Hostlist", HL, "hostrange_within_range", "|| -> && (equivalent after prefix_cmp == 0)", "h1->singlehost || h2->singlehost ? 0 : 1", "h1->singlehost && h2->singlehost ? 0 : 1"),
    ("H14", "Hostlist", HL, "host_prefix_end", "idx-- -> --idx", "idx--;", "--idx;"),
    ("H15", "Cbuf", CB, "cbuf_find_unread_line", "++n -> n++", "++n;", "n++;"),
    ("H16", "Cbuf", CB, "cbuf_find_unread_line", "a != b  <->  b != a", "while (i != cb->i_in) {", "while (cb->i_in != i) {"),
    ("H20", "Dsh", DS, "_fwd_signal", "a == b  <->  b == a", "if (t[i].state == DSH_READING)", "if (DSH_READING == t[i].state)"),
    ("H21", "Dsh", DS, "_cancel_pending_threads", "swapped operands of ||, ++n -> n++", "if ((t[i].state == DSH_NEW) || (t[i].state == DSH_RCMD)) {\n            t[i].state = DSH_CANCELED;\n            ++n;",
     "if ((t[i].state == DSH_RCMD) || (t[i].state == DSH_NEW)) {\n            n++;\n            t[i].state = DSH_CANCELED;"),
    ("H22", "Dsh", DS, "dsh", "a < b  <->  b > a", "&& rc < RC_FAILED)", "&& RC_FAILED > rc)"),
    ("H23", "Dsh", DS, "_handle_sigtstp", "if/else -> negated if/else", "if (time (NULL) - last_intr > INTR_TIME)\n        raise (SIGSTOP);\n    else\n        _cancel_pending_threads ();",
     "if (!(time (NULL) - last_intr > INTR_TIME))\n        _cancel_pending_threads ();\n    else\n        raise (SIGSTOP);"),
    ("H24", "Mod", MO, "_mod_load_dynamic_modules", "reordered owner tests", "if (  (st.st_uid != 0) && (st.st_uid != getuid())\n           && (st.st_uid != pdsh_owner)) {",
     "if (  (st.st_uid != pdsh_owner) && (st.st_uid != 0)\n           && (st.st_uid != getuid())) {"),
    ("H25", "Hostlist", HL, "_parse_single_range", "a > b  <->  b < a", "if (range->lo > range->hi)", "if (range->hi < range->lo)"),
    ("H26", "Opt", OP, "string_to_int", "reordered tests", "if (errno || (p == val) || (*p != '\\0') ||", "if ((p == val) || errno || (*p != '\\0') ||"),
    ("H27", "Wcoll", WC, "wcoll_ctx_read_stream", "== NULL -> !", "if (strchr (buf, '\\n') == NULL)", "if (!strchr (buf, '\\n'))"),
    ("H28", "PcpServer", PS, "_sink", "swapped operands of ||", "if (strchr (cp, '/') != NULL || strcmp (cp, \"..\") == 0)", "if (strcmp (cp, \"..\") == 0 || strchr (cp, '/') != NULL)"),
    ("H29", "PcpServer", PS, "_sink", "j <= 0  ->  j < 1", "if (j <= 0) {", "if (j < 1) {"),
    ("H12", "Dsh", DS, "_thd_command_timeout", "nested ifs merged into one condition",
     "if ((command_timeout > 0) && (th->connect != ((time_t) -1))) {\n        if (th->connect + command_timeout < time (NULL))\n            return (1);\n    }",
     "if ((command_timeout > 0) && (th->connect != ((time_t) -1)) && (th->connect + command_timeout < time (NULL)))\n        return (1);"),
]


def func_span(text, fname):
    """(start, end) of the definition of fname: from its name at the start of a definition to the closing brace"""
    for m in re.finditer(r"^[A-Za-z_][^\n;{}()]*\b%s\s*\([^;{]*\)\s*\{" % re.escape(fname), text, re.M):
        i = m.end() - 1
        depth = 0
        for j in range(i, len(text)):
            if text[j] == '{':
                depth += 1
            elif text[j] == '}':
                depth -= 1
                if depth == 0:
                    return m.start(), j + 1
    # definitions whose return type is on its own line
    for m in re.finditer(r"^%s\s*\([^;{]*\)\s*\{" % re.escape(fname), text, re.M):
        i = m.end() - 1
        depth = 0
        for j in range(i, len(text)):
            if text[j] == '{':
                depth += 1
            elif text[j] == '}':
                depth -= 1
                if depth == 0:
                    return m.start(), j + 1
    raise SystemExit("selftest: cannot find the definition of %s" % fname)


def apply_edit(text, fname, old, new, regex=False):
    a, b = func_span(text, fname)
    body = text[a:b]
    if regex:
        # only inside the braces (keep the parameter list)
        k = body.index('{')
        nb, cnt = re.subn(old, new, body[k:])
        if cnt == 0:
            raise SystemExit("selftest: pattern %r not found in %s" % (old, fname))
        body = body[:k] + nb
    else:
        if body.count(old) < 1:
            raise SystemExit("selftest: text %r not found in %s" % (old, fname))
        body = body.replace(old, new, 1)
    return text[:a] + body + text[b:]


def all_modules(reg, unit=None):
    out = []
    for u, sp in reg.items():
        if unit is not None and u != unit:
            continue
        for m in [sp["bridge_module"]] + [f["module"] for f in sp["functions"] if "module" in f]:
            if m not in out:
                out.append(m)
    return out


def lake_build(targets, timeout=1500):
    t0 = time.time()
    p = subprocess.run(["lake", "build"] + targets, cwd=LEAN, capture_output=True, text=True, timeout=timeout)
    errs = [l for l in (p.stdout + p.stderr).splitlines() if "error" in l]
    return p.returncode == 0, errs, time.time() - t0


def scratch_repo(tmp):
    dst = os.path.join(tmp, "repo")
    os.makedirs(os.path.join(dst, "src"))
    shutil.copy(os.path.join(REPO, "config.h"), dst)
    for d in ("src/pdsh", "src/common", "src/modules"):
        os.makedirs(os.path.join(dst, d), exist_ok=True)
        for f in os.listdir(os.path.join(REPO, d)):
            if f.endswith((".c", ".h")):
                shutil.copy(os.path.join(REPO, d, f), os.path.join(dst, d, f))
    return dst


def base_check():
    reg = c2lean.load_targets(TARGETS)["units"]
    changed, failures, _ = c2lean.regen(REPO, TARGETS, GEN)
    ok = True
    for (u, f, why) in failures:
        print("  FAIL translate %s.%s: %s" % (u, f, why))
        ok = False
    if changed:
        print("  note: %d Gen/Fn*.lean file(s) differed from the tree under check and were rewritten" % len(changed))
    mods = all_modules(reg) + ["PdshVerif.Props.Bridge"]
    good, errs, dt = lake_build(mods)
    print("  lake build %s: %s (%.0f s)" % (" ".join(m.split(".")[-1] for m in mods), "ok" if good else "FAILED", dt))
    for e in errs[:10]:
        print("    " + e)
    ok = ok and good
    # forbidden tokens
    sys.path.insert(0, ROOT)
    from vlib.common import strip_lean_comments
    bad = []
    for sub in ("Bridge", "C2Lean", "Gen", "Props"):
        d = os.path.join(LEAN, "PdshVerif", sub)
        for f in sorted(os.listdir(d)):
            if f.endswith(".lean") and (sub not in ("Gen", "Props") or f.startswith("Fn") or f == "Bridge.lean"):
                src = strip_lean_comments(open(os.path.join(d, f)).read())
                for m in FORBIDDEN.finditer(src):
                    bad.append("%s/%s: %s" % (sub, f, m.group(0).strip()))
    print("  forbidden tokens: %s" % ("none" if not bad else "; ".join(bad)))
    ok = ok and not bad
    # axioms
    src = strip_lean_comments(open(os.path.join(LEAN, "PdshVerif", "Props", "Bridge.lean")).read())
    ns, names = [], []
    for line in src.splitlines():
        m = re.match(r"\s*namespace\s+(\S+)", line)
        if m:
            ns.append(m.group(1))
        m = re.match(r"\s*end\s+(\S+)", line)
        if m and ns and ns[-1] == m.group(1):
            ns.pop()
        m = re.match(r"\s*theorem\s+(\S+)", line)
        if m:
            names.append(".".join(ns + [m.group(1)]))
    tmp = tempfile.mkdtemp(prefix="c2lean-audit-", dir=os.environ.get("TMPDIR", "/var/tmp"))
    try:
        af = os.path.join(tmp, "Audit.lean")
        with open(af, "w") as f:
            f.write("import PdshVerif.Props.Bridge\n" + "".join("#print axioms %s\n" % n for n in names))
        p = subprocess.run(["lake", "env", "lean", af], cwd=LEAN, capture_output=True, text=True, timeout=600)
        txt = re.sub(r"\s*\n\s+", " ", p.stdout + p.stderr)
    finally:
        shutil.rmtree(tmp, ignore_errors=True)
    nbad = 0
    for n in names:
        m = re.search(r"'%s' depends on axioms: \[([^\]]*)\]" % re.escape(n), txt)
        ax = set(a.strip() for a in m.group(1).split(",")) if m else set()
        if not m and not re.search(r"'%s' does not depend on any axioms" % re.escape(n), txt):
            print("    axioms: theorem %s not found" % n)
            nbad += 1
        elif not ax <= ALLOWED:
            print("    axioms: %s depends on %s" % (n, sorted(ax)))
            nbad += 1
    print("  #print axioms on %d theorems of Props/Bridge.lean: %s" % (len(names), "all within {propext, Classical.choice, Quot.sound}" if not nbad else "%d BAD" % nbad))
    return ok and nbad == 0 and len(names) > 0


def run_case(case, repo, pristine, expect_break, regex=False):
    cid, unit, cfile, fname, what, old, new = case
    reg = c2lean.load_targets(TARGETS)["units"]
    path = os.path.join(repo, cfile)
    with open(path, "w") as f:
        f.write(apply_edit(pristine[cfile], fname, old, new, regex))
    gen_path = os.path.join(GEN, "Fn%s.lean" % unit)
    before = open(gen_path).read()
    try:
        changed, failures, _ = c2lean.regen(repo, TARGETS, GEN, [unit])
        differs = bool(changed)
        untrans = [f for (_, f, _) in failures]
        builds, errs, dt = lake_build(all_modules(reg, unit))
    finally:
        with open(path, "w") as f:
            f.write(pristine[cfile])
        with open(gen_path, "w") as f:
            f.write(before)
    if expect_break:
        good = (not builds) or bool(untrans)
        obs = ("untranslatable" if untrans else ("bridge FAILS" if not builds else "bridge still builds"))
    else:
        good = builds and not untrans
        obs = ("untranslatable" if untrans else ("bridge builds" if builds else "bridge FAILS"))
    first = ""
    if not builds and errs:
        m = re.search(r"(\w+\.lean:\d+)", errs[0])
        first = m.group(1) if m else ""
    print("%-4s %-9s %-24s %-52s lean %-9s %-20s %-14s %4.0fs %s" % (
        cid, unit, fname, what[:52], "differs" if differs else "same", obs, first, dt, "ok" if good else "UNEXPECTED"))
    sys.stdout.flush()
    return good


# harmless patches a bridge cannot survive by construction
ACCEPTED = {"C07-H4": "changes the INTERFACE of the translated functions (the clock becomes a parameter); reported as 'signature changed'"}


def sweep(root, ids, expect_break):
    """apply every <root>/<id>/patch.diff to a scratch copy; for the units whose C file it touches: regenerate, and
    when the generated Lean differs, rebuild the bridge.  Prints one row per (patch, unit)."""
    reg = c2lean.load_targets(TARGETS)["units"]
    allok, rows = True, []
    for cid in ids:
        pf = os.path.join(root, cid, "patch.diff")
        if not os.path.exists(pf):
            continue
        diff = open(pf).read()
        touched = set(re.findall(r"^\+\+\+ b/(\S+)", diff, re.M))
        units = [u for u, sp in reg.items() if sp["file"] in touched]
        if not units:
            continue
        tmp = tempfile.mkdtemp(prefix="c2lean-sweep-", dir=os.environ.get("TMPDIR", "/var/tmp"))
        try:
            repo = scratch_repo(tmp)
            p = subprocess.run(["patch", "-s", "-p1", "-i", pf], cwd=repo, capture_output=True, text=True)
            if p.returncode != 0:
                print("%-8s patch does not apply to the tree under check" % cid)
                continue
            for unit in units:
                gen_path = os.path.join(GEN, "Fn%s.lean" % unit)
                before = open(gen_path).read()
                try:
                    changed, failures, _ = c2lean.regen(repo, TARGETS, GEN, [unit])
                    # only the targets a check depends on ("props" not empty) count; the others are noted
                    wired = [f for f in reg[unit]["functions"] if f.get("props")]
                    unw = [x for x in failures if x[1] not in [f["name"] for f in wired]]
                    failures = [x for x in failures if x[1] in [f["name"] for f in wired]]
                    wmods = []
                    for f in wired:
                        m = f.get("module", reg[unit]["bridge_module"])
                        if m not in wmods:
                            wmods.append(m)
                    if not changed and not failures:
                        obs, bad = "generated Lean unchanged", False
                    elif not wmods:
                        obs, bad = "no wired target in this unit", False
                    else:
                        builds, errs, dt = lake_build(wmods)
                        if failures:
                            obs, bad = "P-BROKEN (translation): %s: %s" % (failures[0][1], failures[0][2][:70]), True
                        elif not builds:
                            m = re.search(r"(\w+\.lean:\d+)", errs[0]) if errs else None
                            obs, bad = "P-BROKEN (bridge fails%s)" % (" at " + m.group(1) if m else ""), True
                        else:
                            obs, bad = "generated Lean differs, bridge holds", False
                finally:
                    with open(gen_path, "w") as f:
                        f.write(before)
                if unw:
                    obs += "   [unwired target %s no longer translates]" % unw[0][1]
                good = True if expect_break is None else (bad == expect_break)
                if not good and cid in ACCEPTED:
                    obs, good = obs + "   (accepted: %s)" % ACCEPTED[cid], True
                print("%-8s %-10s %s%s" % (cid, unit, obs, "" if good else "   UNEXPECTED"))
                sys.stdout.flush()
                rows.append((cid, unit, bad))
                allok = allok and good
        finally:
            shutil.rmtree(tmp, ignore_errors=True)
    return allok, rows


def main():
    ap = argparse.ArgumentParser()
    ap.add_argument("--only")
    ap.add_argument("--skip-base", action="store_true")
    ap.add_argument("--seeded", action="store_true", help="sweep <root>/seeded/*/patch.diff: which seeded changes does a bridge catch")
    ap.add_argument("--harmless", action="store_true", help="sweep harmless/*/patch.diff: the bridges must hold")
    a = ap.parse_args()
    if a.seeded or a.harmless:
        lock = open(os.path.join(LEAN, ".lock"), "w")
        fcntl.flock(lock, fcntl.LOCK_EX)
        ok = True
        try:
            for (flag, sub, exp) in ((a.seeded, "seeded", None), (a.harmless, "harmless", False)):
                if not flag:
                    continue
                root = os.path.join(ROOT, sub)
                ids = sorted(d for d in os.listdir(root) if os.path.isdir(os.path.join(root, d)))
                if a.only:
                    ids = [i for i in ids if i in a.only.split(",")]
                print("sweep of %s/*/patch.diff (%d patches; only those touching a translated file are listed)" % (sub, len(ids)))
                good, rows = sweep(root, ids, exp)
                ok = ok and good
                caught = sorted(set(c for (c, u, bad) in rows if bad))
                print("%s: %d patches touch a translated file, %d make a bridge fail: %s" % (sub, len(set(c for c, _, _ in rows)), len(caught), " ".join(caught)))
        finally:
            c2lean.regen(REPO, TARGETS, GEN)
            reg = c2lean.load_targets(TARGETS)["units"]
            lake_build(all_modules(reg))
        return 0 if ok else 1
    only = set(a.only.split(",")) if a.only else None
    allok = True
    lock = open(os.path.join(LEAN, ".lock"), "w")
    fcntl.flock(lock, fcntl.LOCK_EX)
    if not a.skip_base:
        print("(i) tree under check: %s" % REPO)
        allok = base_check() and allok
    tmp = tempfile.mkdtemp(prefix="c2lean-selftest-", dir=os.environ.get("TMPDIR", "/var/tmp"))
    try:
        repo = scratch_repo(tmp)
        pristine = {f: open(os.path.join(repo, f)).read() for f in (HL, CB, DS, MO, RC, OP, WC, PS, PC)}
        print("(ii) behavioural mutations: the bridge must fail")
        nm = 0
        for case in MUTATIONS:
            if only and case[0] not in only:
                continue
            nm += 1
            allok = run_case(case, repo, pristine, True) and allok
        print("(iii) harmless rewrites: the bridge must still build")
        nh = 0
        for case in HARMLESS:
            if only and case[0] not in only:
                continue
            nh += 1
            allok = run_case(case, repo, pristine, False, regex=(case[0] == "H01")) and allok
    finally:
        shutil.rmtree(tmp, ignore_errors=True)
        c2lean.regen(REPO, TARGETS, GEN)
        reg = c2lean.load_targets(TARGETS)["units"]
        lake_build(all_modules(reg))
    print("selftest: %d mutations, %d harmless rewrites: %s" % (nm, nh, "ALL AS EXPECTED" if allok else "SOME UNEXPECTED"))
    return 0 if allok else 1


if __name__ == "__main__":
    sys.exit(main())
