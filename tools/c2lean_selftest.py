#!/usr/bin/env python3
"""
Self-test of the C -> Lean translator and its bridge theorems.

  (i)   regenerate Gen/Fn*.lean from the tree under check (VERIF_REPO, default /repo), build every
        Bridge module and Props/Bridge.lean, scan for forbidden tokens, `#print axioms` on every theorem
        of Props/Bridge.lean (allowed: propext, Classical.choice, Quot.sound);
  (ii)  BEHAVIOURAL mutations of the translated C functions, each applied to a scratch copy of the sources:
        the regenerated Lean must differ and the bridge module must FAIL to build (or the function must
        become untranslatable, which the integration reports as P-BROKEN as well);
  (iii) HARMLESS rewrites (renamed local, swapped independent statements, `a > b` <-> `b < a`, extracted
        temporary ...): the bridge module must still BUILD although the regenerated Lean differs.

Prints a table; exit status 0 iff every row is as expected.  Options: --only ID[,ID..]  --skip-base
The committed Gen/Fn*.lean files are restored (re-generated from the tree under check) at the end.
"""
import fcntl, os, re, shutil, subprocess, sys, tempfile, time, argparse

HERE = os.path.dirname(os.path.abspath(__file__))
ROOT = os.path.dirname(HERE)
sys.path.insert(0, HERE)
sys.path.insert(0, ROOT)
import c2lean  # noqa: E402

REPO = os.environ.get("VERIF_REPO", "/repo")
LEAN = os.path.join(ROOT, "lean")
GEN = os.path.join(LEAN, "PdshVerif", "Gen")
TARGETS = os.path.join(HERE, "c2lean_targets.json")
ALLOWED = {"propext", "Classical.choice", "Quot.sound"}
FORBIDDEN = re.compile(r"\bsorry\b|\badmit\b|^\s*axiom\s|native_decide|bv_decide|implemented_by|"
                       r"\bunsafe\s|maxHeartbeats\s+0\b|\bopaque\s|@\[extern|\bpartial\s+def\b", re.M)

HL, CB, DS, MO, RC = "src/common/hostlist.c", "src/pdsh/cbuf.c", "src/pdsh/dsh.c", "src/pdsh/mod.c", "src/pdsh/rcmd.c"

# (id, unit, file, function, description, old text, new text)      old must occur exactly once in the function
MUTATIONS = [
    ("M01", "Hostlist", HL, "_zero_padded", "wrong constant: digit count starts at 0", "int n = 1;", "int n = 0;"),
    ("M02", "Hostlist", HL, "_zero_padded", "wrong constant: divides by 8", "num /= 10L", "num /= 8L"),
    ("M03", "Hostlist", HL, "_zero_padded", "wrong comparison: pads one too few", "width > n ? width - n : 0", "width > n ? width - n - 1 : 0"),
    ("M04", "Hostlist", HL, "_width_equiv", "&& becomes ||", "if (npad != nmpad && mpad != mnpad)", "if (npad != nmpad || mpad != mnpad)"),
    ("M05", "Hostlist", HL, "_width_equiv", "wrong width adjusted", "*wm = *wn;", "*wn = *wm;"),
    ("M06", "Hostlist", HL, "hostrange_count", "off by one", "return hr->hi - hr->lo + 1;", "return hr->hi - hr->lo;"),
    ("M07", "Hostlist", HL, "hostrange_empty", "< becomes <=", "(hr->hi < hr->lo)", "(hr->hi <= hr->lo)"),
    ("M08", "Hostlist", HL, "hostrange_prefix_cmp", "swapped operands", "h2->singlehost - h1->singlehost", "h1->singlehost - h2->singlehost"),
    ("M09", "Hostlist", HL, "hostrange_within_range", "swapped results of ?:", "h1->singlehost || h2->singlehost ? 0 : 1", "h1->singlehost || h2->singlehost ? 1 : 0"),
    ("M10", "Hostlist", HL, "hostrange_cmp", "the D26 defect returns: difference cut to int",
     "(h1->lo > h2->lo) - (h1->lo < h2->lo) : h1->width - h2->width", "h1->lo - h2->lo : h1->width - h2->width"),
    ("M11", "Hostlist", HL, "hostrange_join", "perfect join misses by one", "h1->hi == h2->lo - 1", "h1->hi == h2->lo"),
    ("M12", "Hostlist", HL, "hostrange_join", "duplicate count off by one", "duplicated = h1->hi - h2->lo + 1;", "duplicated = h1->hi - h2->lo;"),
    ("M13", "Hostlist", HL, "hostrange_join", "dropped branch: no overlap case", "} else if (h1->hi >= h2->lo) {", "} else if (0) {"),
    ("M14", "Cbuf", CB, "cbuf_dropper", "wraps at size instead of size+1", "(cb->i_out + len) % (cb->size + 1)", "(cb->i_out + len) % (cb->size)"),
    ("M15", "Cbuf", CB, "cbuf_dropper", "drop accounting off by one", "cb->used -= len;", "cb->used -= len - 1;"),
    ("M16", "Dsh", DS, "_thd_connect_timeout", "< becomes <=", "th->start + connect_timeout < time (NULL)", "th->start + connect_timeout <= time (NULL)"),
    ("M17", "Dsh", DS, "_thd_command_timeout", "0 no longer means unlimited", "(command_timeout > 0)", "(command_timeout >= 0)"),
    ("M18", "Mod", MO, "_dir_permission_error", "sticky bit no longer excuses world-writable",
     "if ((st->st_mode & S_IWOTH) && !(st->st_mode & S_ISVTX))", "if ((st->st_mode & S_IWOTH))"),
    ("M19", "Mod", MO, "_dir_permission_error", "world-writable directories accepted (wrong mask)",
     "(st->st_mode & S_IWOTH) &&", "(st->st_mode & S_IWGRP) &&"),
    ("M20", "Mod", MO, "_dir_permission_error", "owner test dropped for the alternative uid", "&& (st->st_uid != alt_uid))", "&& (st->st_uid != alt_uid || 1))"),
    ("M21", "Rcmd", RC, "find_host", "inverted match", "strcmp (x->hostname, hostname) == 0", "strcmp (x->hostname, hostname) != 0"),
    ("M23", "Hostlist", HL, "host_prefix_end", ">= becomes >: index 0 never tested", "while (idx >= 0 && isdigit", "while (idx > 0 && isdigit"),
    ("M24", "Hostlist", HL, "host_prefix_end", "off by one start", "int idx = strlen(hostname) - 1;", "int idx = strlen(hostname);"),
    ("M25", "Cbuf", CB, "cbuf_find_unread_line", "byte count of the last line off by one", "m = n;", "m = n - 1;"),
    ("M26", "Cbuf", CB, "cbuf_find_unread_line", "|| becomes &&: scan does not stop at the line limit",
     "if ((chars == 0) || (lines == 0)) {", "if ((chars == 0) && (lines == 0)) {"),
    ("M27", "Cbuf", CB, "cbuf_find_unread_line", "all-or-none test dropped", "if (lines > 0) {\n        return(0);", "if (0) {\n        return(0);"),
    ("M22", "Hostlist", HL, "_zero_padded", "leaves the subset: calls printf", "int n = 1;", "int n = 1; printf(\"x\");"),
]

HARMLESS = [
    ("H01", "Hostlist", HL, "_zero_padded", "renamed local n -> digits", r"\bn\b", "digits"),      # regex over the function
    ("H02", "Hostlist", HL, "_zero_padded", "a > b  <->  b < a", "width > n ? width - n : 0", "n < width ? width - n : 0"),
    ("H03", "Hostlist", HL, "_zero_padded", "equivalent boundary: >= instead of >", "width > n ? width - n : 0", "width >= n ? width - n : 0"),
    ("H04", "Hostlist", HL, "_width_equiv", "swapped independent statements",
     "npad = _zero_padded(n, *wn);\n    nmpad = _zero_padded(n, *wm);", "nmpad = _zero_padded(n, *wm);\n    npad = _zero_padded(n, *wn);"),
    ("H05", "Hostlist", HL, "hostrange_count", "extracted temporary",
     "return hr->hi - hr->lo + 1;", "{ unsigned long d = hr->hi - hr->lo; return d + 1; }"),
    ("H06", "Hostlist", HL, "hostrange_empty", "a < b  <->  b > a", "(hr->hi < hr->lo)", "(hr->lo > hr->hi)"),
    ("H07", "Hostlist", HL, "hostrange_join", "a >= b  <->  b <= a", "h1->hi >= h2->lo", "h2->lo <= h1->hi"),
    ("H08", "Cbuf", CB, "cbuf_dropper", "x -= y  ->  x = x - y", "cb->used -= len;", "cb->used = cb->used - len;"),
    ("H09", "Dsh", DS, "_thd_connect_timeout", "a < b  <->  b > a", "th->start + connect_timeout < time (NULL)", "time (NULL) > th->start + connect_timeout"),
    ("H10", "Mod", MO, "_dir_permission_error", "swapped operands of &&", "(st->st_uid != 0) && (st->st_uid != getuid())", "(st->st_uid != getuid()) && (st->st_uid != 0)"),
    ("H11", "Rcmd", RC, "find_host", "0 == x  instead of  x == 0", "strcmp (x->hostname, hostname) == 0", "0 == strcmp (x->hostname, hostname)"),
    # equal prefixes imply equal `singlehost` bits, so || and && agree where the test is reached: found by the bridge itself
    ("H13", "Hostlist", HL, "hostrange_within_range", "|| -> && (equivalent after prefix_cmp == 0)", "h1->singlehost || h2->singlehost ? 0 : 1", "h1->singlehost && h2->singlehost ? 0 : 1"),
    ("H14", "Hostlist", HL, "host_prefix_end", "idx-- -> --idx", "idx--;", "--idx;"),
    ("H15", "Cbuf", CB, "cbuf_find_unread_line", "++n -> n++", "++n;", "n++;"),
    ("H16", "Cbuf", CB, "cbuf_find_unread_line", "a != b  <->  b != a", "while (i != cb->i_in) {", "while (cb->i_in != i) {"),
    ("H12", "Dsh", DS, "_thd_command_timeout", "nested ifs merged into one condition",
     "if ((command_timeout > 0) && (th->connect != ((time_t) -1))) {\n        if (th->connect + command_timeout < time (NULL))\n            return (1);\n    }",
     "if ((command_timeout > 0) && (th->connect != ((time_t) -1)) && (th->connect + command_timeout < time (NULL)))\n        return (1);"),
]


def func_span(text, fname):
    """(start, end) of the definition of fname: from its name at the start of a definition to the closing brace"""
    for m in re.finditer(r"^[A-Za-z_][^\n;{}()]*\b%s\s*\([^;{]*\)\s*\{" % re.escape(fname), text, re.M):
        i = m.end() - 1
        depth = 0
        for j in range(i, len(text)):
            if text[j] == '{':
                depth += 1
            elif text[j] == '}':
                depth -= 1
                if depth == 0:
                    return m.start(), j + 1
    # definitions whose return type is on its own line
    for m in re.finditer(r"^%s\s*\([^;{]*\)\s*\{" % re.escape(fname), text, re.M):
        i = m.end() - 1
        depth = 0
        for j in range(i, len(text)):
            if text[j] == '{':
                depth += 1
            elif text[j] == '}':
                depth -= 1
                if depth == 0:
                    return m.start(), j + 1
    raise SystemExit("selftest: cannot find the definition of %s" % fname)


def apply_edit(text, fname, old, new, regex=False):
    a, b = func_span(text, fname)
    body = text[a:b]
    if regex:
        # only inside the braces (keep the parameter list)
        k = body.index('{')
        nb, cnt = re.subn(old, new, body[k:])
        if cnt == 0:
            raise SystemExit("selftest: pattern %r not found in %s" % (old, fname))
        body = body[:k] + nb
    else:
        if body.count(old) < 1:
            raise SystemExit("selftest: text %r not found in %s" % (old, fname))
        body = body.replace(old, new, 1)
    return text[:a] + body + text[b:]


def lake_build(targets, timeout=1500):
    t0 = time.time()
    p = subprocess.run(["lake", "build"] + targets, cwd=LEAN, capture_output=True, text=True, timeout=timeout)
    errs = [l for l in (p.stdout + p.stderr).splitlines() if "error" in l]
    return p.returncode == 0, errs, time.time() - t0


def scratch_repo(tmp):
    dst = os.path.join(tmp, "repo")
    os.makedirs(os.path.join(dst, "src"))
    shutil.copy(os.path.join(REPO, "config.h"), dst)
    for d in ("src/pdsh", "src/common", "src/modules"):
        os.makedirs(os.path.join(dst, d), exist_ok=True)
        for f in os.listdir(os.path.join(REPO, d)):
            if f.endswith((".c", ".h")):
                shutil.copy(os.path.join(REPO, d, f), os.path.join(dst, d, f))
    return dst


def base_check():
    reg = c2lean.load_targets(TARGETS)["units"]
    changed, failures, _ = c2lean.regen(REPO, TARGETS, GEN)
    ok = True
    for (u, f, why) in failures:
        print("  FAIL translate %s.%s: %s" % (u, f, why))
        ok = False
    if changed:
        print("  note: %d Gen/Fn*.lean file(s) differed from the tree under check and were rewritten" % len(changed))
    mods = [s["bridge_module"] for s in reg.values()] + ["PdshVerif.Props.Bridge"]
    good, errs, dt = lake_build(mods)
    print("  lake build %s: %s (%.0f s)" % (" ".join(m.split(".")[-1] for m in mods), "ok" if good else "FAILED", dt))
    for e in errs[:10]:
        print("    " + e)
    ok = ok and good
    # forbidden tokens
    sys.path.insert(0, ROOT)
    from vlib.common import strip_lean_comments
    bad = []
    for sub in ("Bridge", "C2Lean", "Gen", "Props"):
        d = os.path.join(LEAN, "PdshVerif", sub)
        for f in sorted(os.listdir(d)):
            if f.endswith(".lean") and (sub not in ("Gen", "Props") or f.startswith("Fn") or f == "Bridge.lean"):
                src = strip_lean_comments(open(os.path.join(d, f)).read())
                for m in FORBIDDEN.finditer(src):
                    bad.append("%s/%s: %s" % (sub, f, m.group(0).strip()))
    print("  forbidden tokens: %s" % ("none" if not bad else "; ".join(bad)))
    ok = ok and not bad
    # axioms
    src = strip_lean_comments(open(os.path.join(LEAN, "PdshVerif", "Props", "Bridge.lean")).read())
    ns, names = [], []
    for line in src.splitlines():
        m = re.match(r"\s*namespace\s+(\S+)", line)
        if m:
            ns.append(m.group(1))
        m = re.match(r"\s*end\s+(\S+)", line)
        if m and ns and ns[-1] == m.group(1):
            ns.pop()
        m = re.match(r"\s*theorem\s+(\S+)", line)
        if m:
            names.append(".".join(ns + [m.group(1)]))
    tmp = tempfile.mkdtemp(prefix="c2lean-audit-", dir=os.environ.get("TMPDIR", "/var/tmp"))
    try:
        af = os.path.join(tmp, "Audit.lean")
        with open(af, "w") as f:
            f.write("import PdshVerif.Props.Bridge\n" + "".join("#print axioms %s\n" % n for n in names))
        p = subprocess.run(["lake", "env", "lean", af], cwd=LEAN, capture_output=True, text=True, timeout=600)
        txt = re.sub(r"\s*\n\s+", " ", p.stdout + p.stderr)
    finally:
        shutil.rmtree(tmp, ignore_errors=True)
    nbad = 0
    for n in names:
        m = re.search(r"'%s' depends on axioms: \[([^\]]*)\]" % re.escape(n), txt)
        ax = set(a.strip() for a in m.group(1).split(",")) if m else set()
        if not m and not re.search(r"'%s' does not depend on any axioms" % re.escape(n), txt):
            print("    axioms: theorem %s not found" % n)
            nbad += 1
        elif not ax <= ALLOWED:
            print("    axioms: %s depends on %s" % (n, sorted(ax)))
            nbad += 1
    print("  #print axioms on %d theorems of Props/Bridge.lean: %s" % (len(names), "all within {propext, Classical.choice, Quot.sound}" if not nbad else "%d BAD" % nbad))
    return ok and nbad == 0 and len(names) > 0


def run_case(case, repo, pristine, expect_break, regex=False):
    cid, unit, cfile, fname, what, old, new = case
    reg = c2lean.load_targets(TARGETS)["units"]
    path = os.path.join(repo, cfile)
    with open(path, "w") as f:
        f.write(apply_edit(pristine[cfile], fname, old, new, regex))
    gen_path = os.path.join(GEN, "Fn%s.lean" % unit)
    before = open(gen_path).read()
    try:
        changed, failures, _ = c2lean.regen(repo, TARGETS, GEN, [unit])
        differs = bool(changed)
        untrans = [f for (_, f, _) in failures]
        builds, errs, dt = lake_build([reg[unit]["bridge_module"]])
    finally:
        with open(path, "w") as f:
            f.write(pristine[cfile])
        with open(gen_path, "w") as f:
            f.write(before)
    if expect_break:
        good = (not builds) or bool(untrans)
        obs = ("untranslatable" if untrans else ("bridge FAILS" if not builds else "bridge still builds"))
    else:
        good = builds and not untrans
        obs = ("untranslatable" if untrans else ("bridge builds" if builds else "bridge FAILS"))
    first = ""
    if not builds and errs:
        m = re.search(r"(\w+\.lean:\d+)", errs[0])
        first = m.group(1) if m else ""
    print("%-4s %-9s %-24s %-52s lean %-9s %-20s %-14s %4.0fs %s" % (
        cid, unit, fname, what[:52], "differs" if differs else "same", obs, first, dt, "ok" if good else "UNEXPECTED"))
    sys.stdout.flush()
    return good


def main():
    ap = argparse.ArgumentParser()
    ap.add_argument("--only")
    ap.add_argument("--skip-base", action="store_true")
    a = ap.parse_args()
    only = set(a.only.split(",")) if a.only else None
    allok = True
    lock = open(os.path.join(LEAN, ".lock"), "w")
    fcntl.flock(lock, fcntl.LOCK_EX)
    if not a.skip_base:
        print("(i) tree under check: %s" % REPO)
        allok = base_check() and allok
    tmp = tempfile.mkdtemp(prefix="c2lean-selftest-", dir=os.environ.get("TMPDIR", "/var/tmp"))
    try:
        repo = scratch_repo(tmp)
        pristine = {f: open(os.path.join(repo, f)).read() for f in (HL, CB, DS, MO, RC)}
        print("(ii) behavioural mutations: the bridge must fail")
        nm = 0
        for case in MUTATIONS:
            if only and case[0] not in only:
                continue
            nm += 1
            allok = run_case(case, repo, pristine, True) and allok
        print("(iii) harmless rewrites: the bridge must still build")
        nh = 0
        for case in HARMLESS:
            if only and case[0] not in only:
                continue
            nh += 1
            allok = run_case(case, repo, pristine, False, regex=(case[0] == "H01")) and allok
    finally:
        shutil.rmtree(tmp, ignore_errors=True)
        c2lean.regen(REPO, TARGETS, GEN)
        reg = c2lean.load_targets(TARGETS)["units"]
        lake_build([s["bridge_module"] for s in reg.values()])
    print("selftest: %d mutations, %d harmless rewrites: %s" % (nm, nh, "ALL AS EXPECTED" if allok else "SOME UNEXPECTED"))
    return 0 if allok else 1


if __name__ == "__main__":
    sys.exit(main())
