#!/bin/bash
# usage: keep_seeded.sh <tag>   -- confirm every candidate of /tmp/mutout-<tag> in /tmp/mutw-<tag>, keep the
# confirmed ones under /verif/seeded/<id>/, then remove the scratch worktree and the candidate directory.
t=$1
for c in /tmp/mutout-$t/C[0-9][0-9]-[0-9] /tmp/mutout-$t/C[0-9][0-9]-[0-9][0-9]; do
  [ -d "$c" ] || continue
  v=$(/verif/tools/confirm_seeded.sh /tmp/mutw-$t $c 2>&1 | tail -1); echo "$v"
  case "$v" in *"demo_without=0 demo_with="[1-9]*" make_check=unchanged"*|*"demo_without=0 demo_with=1"[0-9]*" make_check=unchanged"*) ;; *) echo "  NOT KEPT: $c"; continue;; esac
  id=$(basename $c); d=/verif/seeded/$id; mkdir -p $d; cp $c/patch.diff $d/
  for f in demo.sh demo.c build.sh; do [ -f $c/$f ] && cp $c/$f $d/; done
  python3 - "$c" "$d" "$v" <<'PY'
import json,sys
c,d,v=sys.argv[1:4]
m=json.load(open(c+'/meta.json'))
m['confirmed_by_coordinator']={'worktree':'scratch git worktree of /repo HEAD (repaired tree) under /tmp, removed afterwards','ran':'tools/confirm_seeded.sh: git apply, make, demo before/after, make check vs pristine','verdict':v.split(': ',1)[-1]}
m['origin']='independent sub-agent given only the property text and a scratch worktree'
json.dump(m,open(d+'/meta.json','w'),indent=1)
PY
done
git -C /repo worktree remove --force /tmp/mutw-$t; rm -rf /tmp/mutout-$t
