#!/usr/bin/env python3
"""Writes /verif/MANIFEST.json from the table below (kept valid at all times)."""
import json
import os

V = os.path.dirname(os.path.dirname(os.path.abspath(__file__)))
TB_UNUSED = ("Lean 4.33 kernel; axioms propext/Classical.choice/Quot.sound at most (audited per theorem on every run, "
      "no sorry/admit/native_decide/bv_decide/own axioms); the hand-written Lean model is tied to the C code by "
      "differential execution of the real sources built from /repo's working tree on every run plus constants "
      "regenerated from /repo (Gen/Consts.lean); harness C code, generators, gcc, ASan/UBSan are trusted")

NOT_YET = {}


def load_claimed():
    """every checks/cNN.py that defines MANIFEST = dict(engine, technique, text, design_ref, note[, category])"""
    import importlib
    import sys
    sys.path.insert(0, V)
    out = {}
    for f in sorted(os.listdir(os.path.join(V, "checks"))):
        if f.startswith("c") and f.endswith(".py"):
            m = importlib.import_module("checks." + f[:-3])
            if hasattr(m, "MANIFEST"):
                out[f[:-3].upper()] = m.MANIFEST
    return out


CLAIMED = load_claimed()


def main():
    props = [json.loads(l) for l in open(os.path.join(V, "properties.jsonl"))]
    checks = []
    for p in props:
        pid = p["id"]
        if pid not in CLAIMED:
            continue
        c = CLAIMED[pid]
        checks.append({
            "property_id": pid,
            "quick_cmd": "./check.py %s --tier quick" % pid,
            "thorough_cmd": "./check.py %s --tier thorough" % pid,
            "evidence_file": "evidence/%s.json" % pid,
            "replay_cmd_template": "./check.py %s --replay {path}" % pid,
            "engine": c["engine"],
            "level_claimed": {"category": c.get("category", "proof"), "text": c["text"], "design_ref": c["design_ref"]},
            "level_note": c["note"],
            "technique": c["technique"],
        })
    na = [{"property_id": p["id"],
           "reason": NOT_YET.get(p["id"], "no check registered yet in this revision: the Lean model, theorems and "
                                          "correspondence harness planned in DESIGN.md section 5 are still being built; "
                                          "the technique applies (no property is given up on)")}
          for p in props if p["id"] not in CLAIMED]
    man = {
        "version": 1,
        "setup_cmd": "./setup.sh",
        "hooks": {"guard": "CHAOS_PDSH_VERIF",
                  "enable": "none needed: harnesses #include or link the unmodified sources of /repo and reach static "
                            "state through accessor code appended in the harness translation unit, -Wl,--wrap and "
                            "LD_PRELOAD; no hook commit exists in /repo",
                  "baseline_off_cmd": "./tools/baseline_off.sh",
                  "source_commits": [],
                  "add_only": True},
        "engines": [
            {"name": "lean", "path": "lean/", "serves_properties": sorted(CLAIMED),
             "kind_free_text": "Lake library PdshVerif (models, specs, theorems) + compiled driver pdshmodel"},
        ] + [
            {"name": e, "path": "harness/", "serves_properties": sorted(k for k, c in CLAIMED.items() if c["engine"] == e),
             "kind_free_text": "correspondence harness (see checks/ and harness/)"}
            for e in sorted(set(c["engine"] for c in CLAIMED.values()))
        ],
        "checks": checks,
        "not_applicable": na,
        "notes": "Technique family: machine-checked proof in Lean 4 about hand-written models + checked "
                 "correspondence (differential execution) + regenerated constants. See DESIGN.md.",
    }
    with open(os.path.join(V, "MANIFEST.json"), "w") as f:
        json.dump(man, f, indent=1)


if __name__ == "__main__":
    main()
