#!/bin/bash
# usage: fix_commit.sh "<commit message starting with fix:>"
# /repo must carry the (unstaged) repair.  Builds a scratch copy, runs the project's own suite
# unedited, requires every BASELINE stable_pass test to pass, then commits in /repo and rebuilds it.
set -e
MSG="$1"
case "$MSG" in fix:*) ;; *) echo "message must start with fix:"; exit 2;; esac
T=$(mktemp -d /var/tmp/pdsh-fix-XXXXXX)
trap 'rm -rf "$T"' EXIT
cp -a /repo "$T/repo"; cd "$T/repo"
make clean >/dev/null 2>&1 || true; rm -f src/pdsh/testconfig.c
make -j8 >/dev/null 2>&1 || { echo "BUILD FAILED"; exit 1; }
make check > "$T/check.log" 2>&1 || true
python3 - "$T/check.log" <<'PY'
import json,re,sys
base=set(json.load(open('/root/.vp/BASELINE.json'))['stable_pass'])
log=open(sys.argv[1],errors='replace').read()
passed=set()
cur=None
for l in log.splitlines():
    m=re.match(r'^(PASS|ok):?\s+(t\d+-[\w-]+\.sh)\s+(\d+)\s+-?\s*(.*)$',l)
    if m:
        passed.add("%s %s - %s"%(m.group(2),m.group(3),m.group(4).strip()))
        passed.add(m.group(4).strip())
    m=re.match(r'^PASS:\s+(t\d+-[\w-]+)(\.sh)?\s*$',l)
    if m: passed.add(m.group(1))
bad=set(re.findall(r'^(?:FAIL|ERROR):\s+(t\d+-[\w-]+)\.sh', log, re.M))
for b in list(base):
    # file-level entries (e.g. "t0001-basic"): pass when no test of that file failed or errored
    if re.fullmatch(r't\d+-[\w-]+', b) and b not in bad and any(x.startswith(b + ".sh ") for x in passed):
        passed.add(b)
missing=[b for b in base if b not in passed]
print("baseline tests: %d, missing from pass set: %d"%(len(base),len(missing)))
for m in missing[:20]: print("  MISSING:",m)
sys.exit(1 if missing else 0)
PY
cd /repo
git commit -qam "$MSG"
make -j8 >/dev/null 2>&1 || true
git log --oneline | head -1
