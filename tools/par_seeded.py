#!/usr/bin/env python3
"""Run the seeded (and harmless) changes in parallel: K private copies of /verif (own lean build, own generated
constants, own evidence) under /var/tmp, each running tools/run_seeded.py on a share of the changes; results are
merged back into seeded/results.json (+RESULTS.md).  usage: tools/par_seeded.py [-k 8] [--seeds 2,3] [--only ...]"""
import argparse, json, os, subprocess, shutil, sys
V = os.path.dirname(os.path.dirname(os.path.abspath(__file__)))
def main():
    ap = argparse.ArgumentParser(); ap.add_argument("-k", type=int, default=8); ap.add_argument("--seeds", default="2,3")
    ap.add_argument("--only", nargs="*"); ap.add_argument("--tier", default="quick"); ap.add_argument("--tag", default="par"); ap.add_argument("--harmless", action="store_true"); a = ap.parse_args()
    kind = "harmless" if a.harmless else "seeded"; script = "run_harmless.py" if a.harmless else "run_seeded.py"
    ids = sorted(d for d in os.listdir(os.path.join(V, kind)) if os.path.exists(os.path.join(V, kind, d, "patch.diff")))
    if a.only: ids = [i for i in ids if i in a.only]
    # spread the changes of one property over the workers (they take about the same time)
    shares = [ids[i::a.k] for i in range(a.k)]
    procs = []
    for i, sh_ in enumerate(shares):
        if not sh_: continue
        C = "/var/tmp/verif-%s-%d" % (a.tag, i)
        subprocess.run("rm -rf %s && rsync -a --exclude .claude --exclude replays %s/ %s/" % (C, V, C), shell=True, check=True)
        cmd = "cd %s && python3 tools/%s --tier %s --seeds %s --only %s > %s/par.log 2>&1" % (C, script, a.tier, a.seeds, " ".join(sh_), C)
        procs.append((C, subprocess.Popen(cmd, shell=True), sh_))
    for C, p, _ in procs: p.wait()
    rj = os.path.join(V, kind, "results.json"); allr = json.load(open(rj)) if os.path.exists(rj) else {}
    for C, _, share in procs:
        r = json.load(open(os.path.join(C, kind, "results.json")))
        for k, v in r.items():
            # only what THIS worker ran: its copy of results.json also holds stale rows of the other shares
            if any(k.endswith("|%s|%s" % (s, a.tier)) for s in a.seeds.split(",")) and k.split("|")[0] in share: allr[k] = v
        shutil.copy(os.path.join(C, "par.log"), os.path.join("/var/tmp", os.path.basename(C) + ".log"))
        shutil.rmtree(C, ignore_errors=True)
    json.dump(allr, open(rj, "w"), indent=1, sort_keys=True)
    if a.harmless:
        print("harmless results merged:", {k: v["result"] for k, v in allr.items() if v["result"] != "silent"}); return
    with open(os.path.join(V, "seeded", "RESULTS.md"), "w") as f:
        f.write("# Seeded changes vs checks (latest run of each change/check/seed/tier)\n\n| seeded change | check | seed | tier | result | first report | s | /repo HEAD |\n|---|---|---|---|---|---|---|---|\n")
        for k in sorted(allr):
            r = allr[k]
            f.write("| %s | %s | %s | %s | %s | %s | %s | %s |\n" % tuple(str(r.get(x, "")).replace("|", "\\|") for x in ("change", "check", "seed", "tier", "result", "first_report", "s", "repo_head")))
    bad = [k for k, v in allr.items() if v["result"] not in ("caught with replay",) and any(k.endswith("|%s|%s" % (s, a.tier)) for s in a.seeds.split(","))]
    print("not caught with replay:", bad)
if __name__ == "__main__":
    main()
