#!/usr/bin/env python3
"""Mutation self-test of the C09 / C17 checks (development aid, not part of any check).

usage: python3 vlib/mutants_c09_c17.py <C09|C17> <name>[+<name>...] ...
Applies the named textual mutation(s) to a scratch copy of /repo under /var/tmp, runs
`VERIF_REPO=<copy> ./check.py <PROP> --tier quick`, prints the verdict and deletes the copy.
Names starting with fix_ are the proposed repairs (expected verdict: exit 0), everything else is a
bug that the check is expected to report (exit 1).  fix_d10, fix_d11 and fix_pers were written against
the pinned tree and are in /repo since dbb06b7 / 8deccea / 59829e8 (their patterns no longer match);
the proposed repair of F17-TIE is findings/C17.patch (apply it to a scratch copy with `patch -p1`)."""
import os, subprocess, sys, shutil

W = os.path.dirname(os.path.dirname(os.path.abspath(__file__)))
M = {
    # ---- C17
    "root_env": ("src/pdsh/main.c", "          getuid() == 0 ||\n", ""),
    "no_iwoth": ("src/pdsh/mod.c", "        if (st.st_mode & S_IWOTH) {", "        if (0) {"),
    "no_file_owner": ("src/pdsh/mod.c", "        if (  (st.st_uid != 0) && (st.st_uid != getuid())\n           && (st.st_uid != pdsh_owner)) {",
                      "        if (0) {"),
    "sticky_dropped": ("src/pdsh/mod.c", "    if ((st->st_mode & S_IWOTH) && !(st->st_mode & S_ISVTX))", "    if ((st->st_mode & S_IWOTH))"),
    "dir_ww_ok": ("src/pdsh/mod.c", "    if ((st->st_mode & S_IWOTH) && !(st->st_mode & S_ISVTX))\n        return DIR_WORLD_WRITABLE;", ""),
    "dup_ge": ("src/pdsh/mod.c", "        if (mod->priority > prev->priority)", "        if (mod->priority >= prev->priority)"),
    "dup_lower_wins": ("src/pdsh/mod.c", "        if (mod->priority > prev->priority)", "        if (mod->priority < prev->priority)"),
    "cmp_reverse": ("src/pdsh/mod.c", "    return (y->priority - x->priority);", "    return (x->priority - y->priority);"),
    "cmp_noname": ("src/pdsh/mod.c", "        return strcmp (x->pmod->name, y->pmod->name);", "        return 0;"),
    "partial_reg": ("src/pdsh/opt.c", "            return false;\n        }\n    }\n\n    for (p = opt_table", "            continue;\n        }\n    }\n\n    for (p = opt_table"),
    "init_order": ("src/pdsh/mod.c", "    _mod_initialize_modules_by_name (opt->misc_modules, module_list);\n\n    /*\n     *  Initialize remaining modules in modules_list:\n     */\n    list_for_each (module_list, (ListForF) _mod_init_list_safe, NULL);",
                   "    list_for_each (module_list, (ListForF) _mod_init_list_safe, NULL);\n    _mod_initialize_modules_by_name (opt->misc_modules, module_list);"),
    "sort_unstable": ("src/common/list.c", "                while (f((*pp)->data, (*ppPos)->data) >= 0)", "                while (f((*pp)->data, (*ppPos)->data) > 0)"),
    "init_fail_active": ("src/pdsh/mod.c", "            mod->pmod->type, mod->pmod->name);\n        return -1;\n    }\n\n    mod->initialized = 1;", "            mod->pmod->type, mod->pmod->name);\n    }\n\n    mod->initialized = 1;"),
    "path_first_only": ("src/pdsh/mod.c", "    } while ( !((st.st_ino == rootino) && (st.st_dev == rootdev)) );", "    } while (0);"),
    "reg_ignores_pers": ("src/pdsh/opt.c", "        if (p->personality & personality) {\n            xstrcatchar(&pdsh_options, p->opt);", "        if (1) {\n            xstrcatchar(&pdsh_options, p->opt);"),
    "inactive_handles": ("src/pdsh/mod.c", "    while ((mod = _mod_next_active (module_itr))) {\n        if ((p = _mod_find_opt(mod, c))) {", "    while ((mod = list_next (module_itr))) {\n        if ((p = _mod_find_opt(mod, c))) {"),
    "setuid_env": ("src/pdsh/main.c", "          getuid() != geteuid())", "          0)"),
    "noreg_check": ("src/pdsh/mod.c", "        if (!S_ISREG(st.st_mode))\n            continue;", ""),
    "forced_any_type": ("src/pdsh/mod.c", "    if (strcmp (mod->pmod->type, \"misc\") != 0)\n        return 0;", ""),
    "owner_is_me_only": ("src/pdsh/mod.c", "    if (  (st->st_uid != 0) && (st->st_uid != getuid())\n       && (st->st_uid != alt_uid))", "    if (  (st->st_uid != 0) && (st->st_uid != getuid()))"),
    # ---- C17, classes added in round 2
    "cmp_notype": ("src/pdsh/mod.c", "    return strcmp (x->pmod->type, y->pmod->type);", "    return 0;"),
    "dup_bigger_file": ("src/pdsh/mod.c", "                && strcmp (mod->filename, prev->filename) < 0))", "                && strcmp (mod->filename, prev->filename) > 0))"),
    "match_name_only": ("src/pdsh/mod.c", "    if (  (strcmp(m->pmod->type, type) == 0)\n       && (strcmp(m->pmod->name, name) == 0) )", "    if (  (type != NULL)\n       && (strcmp(m->pmod->name, name) == 0) )"),
    "isloaded_off": ("src/pdsh/mod.c", "    if (list_find_first(module_list, (ListFindF) _cmp_filenames, filename))\n        return 1;", ""),
    "empty_ok": ("src/pdsh/mod.c", "    if (count == 0)\n        errx(\"%p: no modules found\\n\");", ""),
    "opendir_ignored": ("src/pdsh/mod.c", "    if (!(dirp = opendir(dir)))\n        return -1;", "    if (!(dirp = opendir(dir)))\n        return 0;"),
    "gw_refused": ("src/pdsh/mod.c", "    if ((st->st_mode & S_IWOTH) && !(st->st_mode & S_ISVTX))", "    if ((st->st_mode & (S_IWOTH|S_IWGRP)) && !(st->st_mode & S_ISVTX))"),
    "file_sticky_excuses": ("src/pdsh/mod.c", "        if (st.st_mode & S_IWOTH) {", "        if ((st.st_mode & S_IWOTH) && !(st.st_mode & S_ISVTX)) {"),
    "root_dir_unchecked": ("src/pdsh/mod.c", "    } while ( !((st.st_ino == rootino) && (st.st_dev == rootdev)) );", "        if (stat(dirbuf, &st) == 0 && (st.st_ino == rootino) && (st.st_dev == rootdev)) break;\n    } while (1);"),
    "misc_first_only": ("src/pdsh/mod.c", "    list_for_each (l, (ListForF) _mod_initialize_by_name, m);", "    if (list_count (l) > 0) _mod_initialize_by_name (list_peek (l), m);"),
    # ---- C09
    "user_len_unchecked": ("src/pdsh/opt.c", "            if (user && strlen (user) > login_name_max_len ())", "            if (0)"),
    "user_len_off_by_one": ("src/pdsh/opt.c", "    if (strlen (src) > maxlen)", "    if (strlen (src) >= maxlen)"),
    "fmt_u_h": ("src/common/pipecmd.c", "                case 'u':\n                    xstrcat (&str, e->username);", "                case 'u':\n                    xstrcat (&str, e->target);"),
    "fmt_pct_drop": ("src/common/pipecmd.c", "                case '%':\n                    xstrcatchar (&str, '%');\n                    break;", "                case '%':\n                    break;"),
    "fmt_unknown_drop": ("src/common/pipecmd.c", "                default:\n                    xstrcatchar (&str, '%');\n                    xstrcatchar (&str, *p);", "                default:\n                    xstrcatchar (&str, *p);"),
    "fmt_rank1": ("src/common/pipecmd.c", "snprintf (buf, sizeof (buf) - 1, \"%d\", e->rank);", "snprintf (buf, sizeof (buf) - 1, \"%d\", e->rank + 1);"),
    "fmt_args_off": ("src/common/pipecmd.c", "    for (i = 1; i < n+1; i++)", "    for (i = 1; i < n; i++)"),
    "fmt_rescan": ("src/common/pipecmd.c", "                case 'n':", "                case 'N':"),
    "reg_last_wins": ("src/pdsh/rcmd.c", "        if (list_find_first (host_info_list, (ListFindF) find_host, host))\n            continue;", ""),
    "reg_prepend": ("src/pdsh/rcmd.c", "        list_append (host_info_list, n);", "        list_prepend (host_info_list, n);"),
    "user_ignored": ("src/pdsh/rcmd.c", "    if (rcmd->ruser)\n        remuser = rcmd->ruser;", ""),
    "rank_plus": ("src/pdsh/dsh.c", "    th->nodeid = i;", "    th->nodeid = i + 1;"),
    "env_over_R": ("src/pdsh/opt.c", "        case 'R':\n            opt->rcmd_name = Strdup(optarg);", "        case 'R':\n            if (!opt->rcmd_name) opt->rcmd_name = Strdup(optarg);"),
    "split_at_user": ("src/pdsh/opt.c", "    if (p && (*(p+1) != ':')) {", "    if (p && q && (*(p+1) != ':')) {"),
    "rank_list_rev": ("src/pdsh/rcmd.c", "    while ((name = rcmd_rank[i++]) && !mod)", "    while ((name = rcmd_rank[i++]))\n      if (mod_get_module (\"rcmd\", name))"),
    "cmd_join": ("src/pdsh/opt.c", "                xstrcat(&opt->cmd, \" \");", "                xstrcat(&opt->cmd, \"  \");"),
    "l_ignored_for_registered": ("src/pdsh/rcmd.c", "    if (n != NULL && n->username)\n        rcmd->ruser = n->username;", "    if (n != NULL)\n        rcmd->ruser = n->username ? n->username : \"root\";"),
    "fix_pers": ("src/pdsh/mod.c", """    if ((prev = mod_get_module (mod->pmod->type, mod->pmod->name))) {""", """    if (!(mod->pmod->personality & pdsh_personality()))
        return -1;
    if ((prev = mod_get_module (mod->pmod->type, mod->pmod->name))) {"""),
    "fix_tie": ("src/pdsh/mod.c", """        return strcmp (x->pmod->name, y->pmod->name);""", """        {
            int c = strcmp (x->pmod->name, y->pmod->name);
            return c ? c : strcmp (x->pmod->type, y->pmod->type);
        }"""),
    "rsh_swap": ("src/modules/xrcmd.c", "    if (write(s, locuser, strlen(locuser) + 1) < 0\n       || write(s, remuser, strlen(remuser) + 1) < 0", "    if (write(s, remuser, strlen(remuser) + 1) < 0\n       || write(s, locuser, strlen(locuser) + 1) < 0"),
    "rsh_port_nonul": ("src/modules/xrcmd.c", "        if (write(s, num, strlen(num) + 1) != strlen(num) + 1) {", "        if (write(s, num, strlen(num)) != strlen(num)) {"),
    # xrcmd's connection set-up (harness/xrcmd_harness.c + scripted peer with busy ports)
    "xr_port_before_bind": ("src/modules/xrcmd.c", "        listen(s2, 1);\n        snprintf(num, sizeof(num), \"%d\", lport);", "        snprintf(num, sizeof(num), \"%d\", lport + 1);\n        listen(s2, 1);"),
    "xr_no_decrement": ("src/modules/xrcmd.c", "        if (errno == EADDRINUSE) {\n            lport--;\n            continue;", "        if (errno == EADDRINUSE) {\n            continue;"),
    "xr_backoff_lt": ("src/modules/xrcmd.c", "errno == ECONNREFUSED && timo <= 16", "errno == ECONNREFUSED && timo < 16"),
    "xr_any_source_port": ("src/modules/xrcmd.c", "            from.sin_port >= IPPORT_RESERVED ||\n", ""),
    "xr_leak_s2": ("src/modules/xrcmd.c", "            err(\"%p: %S: rcmd: xpoll: protocol failure in circuit setup\\n\", ahost);\n          (void) close(s2);", "            err(\"%p: %S: rcmd: xpoll: protocol failure in circuit setup\\n\", ahost);"),
    "xr_plain_no_nul": ("src/modules/xrcmd.c", "        if (write(s, \"\", 1) != 1) {", "        if (write(s, \"\", 0) != 0) {"),
    "xr_law1": ("src/modules/xrcmd.c", "        listen(s2, 1);\n        snprintf(num, sizeof(num), \"%d\", lport);", "        snprintf(num, sizeof(num), \"%d\", lport);"),
    "xr_law2": ("src/modules/xrcmd.c", "        errno = 0;\n        xpfds[0].fd = s;", "        listen(s2, 1);      /* xr_law1+xr_law2: listen only after the port was announced */\n        errno = 0;\n        xpfds[0].fd = s;"),
    "xr_write_before_connect": ("src/modules/xrcmd.c", "        rv = connect(s, (struct sockaddr *) &sin, sizeof(sin));", "        if (write(s, locuser, 0) < 0) { }\n        rv = connect(s, (struct sockaddr *) &sin, sizeof(sin));"),
    "xr_reply_any": ("src/modules/xrcmd.c", "    if (c != 0) {\n        /* retrieve error string", "    if (c != 0 && c != 1) {\n        /* retrieve error string"),
    # harmless rewrites (expected verdict: exit 0, no VIOLATION)
    "fix_hl_perm_reorder": ("src/pdsh/mod.c", """    if (  (st->st_uid != 0) && (st->st_uid != getuid())
       && (st->st_uid != alt_uid))
        return DIR_BAD_OWNER;
    if ((st->st_mode & S_IWOTH) && !(st->st_mode & S_ISVTX))
        return DIR_WORLD_WRITABLE;""", """    if ((st->st_mode & S_IWOTH) && !(st->st_mode & S_ISVTX))
        return DIR_WORLD_WRITABLE;
    if (st->st_uid != 0 && st->st_uid != getuid() && st->st_uid != alt_uid)
        return DIR_BAD_OWNER;"""),
    "fix_hl_one_write": ("src/modules/xrcmd.c", """    if (write(s, locuser, strlen(locuser) + 1) < 0
       || write(s, remuser, strlen(remuser) + 1) < 0
       || write(s, cmd, strlen(cmd) + 1) < 0) {""", """    {
        size_t n1 = strlen(locuser) + 1, n2 = strlen(remuser) + 1, n3 = strlen(cmd) + 1;
        char *req = malloc(n1 + n2 + n3);
        memcpy(req, locuser, n1); memcpy(req + n1, remuser, n2); memcpy(req + n1 + n2, cmd, n3);
        rv = write(s, req, n1 + n2 + n3);
        free(req);
    }
    if (rv < 0) {"""),
    # repairs
    "fix_d10": ("src/common/pipecmd.c", "            p++;\n            switch (*p) {", "            p++;\n            if (*p == '\\0') {\n                xstrcatchar (&str, '%');\n                break;\n            }\n            switch (*p) {"),
    "fix_d11": ("src/common/pipecmd.c", "    char *str = NULL;\n\n    p = arg;", "    char *str = Strdup (\"\");\n\n    p = arg;"),
}


def main():
    prop = sys.argv[1]
    for name in sys.argv[2:]:
        dst = "/var/tmp/mutrepo_%s_%d" % (prop, os.getpid())
        shutil.rmtree(dst, ignore_errors=True)
        subprocess.run(["cp", "-a", "/repo", dst], check=True)
        skip = False
        for part in name.split("+"):
            path, old, new = M[part]
            f = os.path.join(dst, path)
            s = open(f).read()
            if s.count(old) != 1:
                print("MUTANT %s: pattern occurs %d times" % (part, s.count(old)))
                skip = True
                break
            open(f, "w").write(s.replace(old, new))
        if skip:
            shutil.rmtree(dst, ignore_errors=True)
            continue
        env = dict(os.environ, VERIF_REPO=dst)
        p = subprocess.run(["./check.py", prop, "--tier", "quick"], cwd=W, env=env, stdout=subprocess.PIPE,
                           stderr=subprocess.STDOUT)
        out = p.stdout.decode("utf-8", "replace")
        lines = [l for l in out.splitlines() if "VIOLATION" in l or "violation:" in l or "broken:" in l]
        print("=== MUTANT %s: exit %d" % (name, p.returncode))
        for l in lines[:4]:
            print("   ", l[:330])
        shutil.rmtree(dst, ignore_errors=True)


main()
