"""C20 on real threads and real signals (harness/sigthread_harness.c = the real dsh.c with a gated transport and a
settable clock).  The driver knows the phase of every target (it opens the gates) and the clock (it sets it), and sends
SIGINT / SIGTSTP with kill(2): no scenario depends on how fast anything runs.  Every wait is for an event (a transport
event, a line on stderr, the end of the process) with a generous limit; a limit that expires is retried once.

What this part decides that the controlled scheduler cannot: the signals are really blocked in every thread of pdsh but
taken by the signals thread (`_mask_signals`, the sigwait set: otherwise the process dies of SIGINT or stops on SIGTSTP
by the default disposition), a lone ^Z really stops the process, an abort really ends it with a non-zero status while
workers sit in poll(), and the shutdown (pthread_cancel + join) really lets dsh() return."""
import os
import re
import select
import signal
import subprocess
import time

from vlib.common import HARNESS, REPO

SRCS = ["src/pdsh/cbuf.c", "src/common/hostlist.c", "src/common/list.c", "src/common/err.c", "src/common/xmalloc.c",
        "src/common/xstring.c", "src/common/xpoll.c", "src/common/fd.c"]
LIMIT = 25.0
C0 = 1000000
# what the harness process finds when it starts (sigthread_harness.c <inherited>): "" = default dispositions, nothing
# blocked; i/z = SIGINT/SIGTSTP ignored, I/Z = blocked.  Set by run() around the scenarios that are repeated under each.
INHERIT = ""
# the clock the harness process is started at (sigthread_harness.c <clock at start>); set by run() around the scenarios
# that are repeated at extreme values of time_t.  The property does not depend on it: only the DIFFERENCE between two
# interrupts matters (Props/C20.lean: decision_depends_on_difference_only)
CLOCK = C0
INHERITED = {"ign-both": "iz", "blk-both": "IZ", "ign-int": "i", "ign-tstp": "z", "ign+blk": "izIZ"}


def build(ctx):
    exe = os.path.join(ctx.scratch, "sigthread_harness")
    ok = ctx.cc(exe, [os.path.join(HARNESS, "sigthread_harness.c")] + [os.path.join(REPO, f) for f in SRCS],
                san=False, assertions=False)
    return exe if ok else None


class Timeout(Exception):
    """the awaited event did not happen: within the limit (a real time-out), or because the process ended first"""
    def __init__(self, msg, ended=False):
        Exception.__init__(self, msg)
        self.ended = ended


class Run:
    def __init__(self, exe, fanout, n, batch=0, S=0):
        er, ew = os.pipe()
        cr, cw = os.pipe()
        self.p = subprocess.Popen([exe, str(ew), str(cr), str(fanout), str(n), str(batch), str(S), INHERIT or "-", str(CLOCK)],
                                  stdin=subprocess.DEVNULL, stdout=subprocess.PIPE, stderr=subprocess.PIPE,
                                  pass_fds=(ew, cr), env={"PATH": "/usr/bin:/bin"})
        os.close(ew)
        os.close(cr)
        self.er, self.cw = er, cw
        self.ofd, self.efd = self.p.stdout.fileno(), self.p.stderr.fileno()
        self.buf = {er: b"", self.ofd: b"", self.efd: b""}
        self.open = set(self.buf)
        self.events, self.log = [], []
        self.status = None
        self.stopped = 0

    def cmd(self, *toks):
        for t in toks:
            self.log.append("> " + t)
            try:
                os.write(self.cw, (t + "\n").encode())
            except OSError:
                pass

    def kill(self, sig):
        self.log.append("kill %s" % signal.Signals(sig).name)
        os.kill(self.p.pid, sig)

    def _pump(self, wait):
        fds = list(self.open)
        if not fds:
            time.sleep(min(wait, 0.01))
            return
        r, _, _ = select.select(fds, [], [], wait)
        for fd in r:
            d = os.read(fd, 65536)
            if not d:
                self.open.discard(fd)
                continue
            self.buf[fd] += d
            if fd == self.er:
                while b"\n" in self.buf[fd]:
                    line, self.buf[fd] = self.buf[fd].split(b"\n", 1)
                    self.events.append(line.decode())
                    self.log.append("< " + line.decode())

    def stderr(self):
        return self.buf[self.efd].decode("utf-8", "replace")

    def stdout(self):
        return self.buf[self.ofd].decode("utf-8", "replace")

    def until(self, pred, what):
        """pump until pred() holds; the process ending or stopping is noticed too"""
        t0 = time.time()
        while True:
            if pred():
                return True
            if self.status is None:
                pid, st = os.waitpid(self.p.pid, os.WNOHANG | os.WUNTRACED)
                if pid:
                    if os.WIFSTOPPED(st):
                        self.stopped += 1
                        self.log.append("process stopped by signal %d" % os.WSTOPSIG(st))
                    else:
                        self.status = st
                        self.p.returncode = os.waitstatus_to_exitcode(st)
                        self._pump(0.2)
                        self._pump(0.05)
                        self.log.append("process ended: %s" % self.p.returncode)
                    if pred():
                        return True
                    if self.status is not None:
                        raise Timeout("%s: the process ended first (%s: %s)" % (
                            what, "killed by signal %d" % -self.p.returncode if self.p.returncode < 0 else
                            "exit status %d" % self.p.returncode, self.stderr()[-160:].replace("\n", " | ")), ended=True)
            if time.time() - t0 > LIMIT:
                raise Timeout("%s: not within %d s" % (what, LIMIT))
            self._pump(0.02)

    def event(self, e):
        return self.until(lambda: e in self.events, "transport event " + e)

    def err_has(self, rx, count=1):
        return self.until(lambda: len(re.findall(rx, self.stderr())) >= count, "stderr line /%s/ x%d" % (rx, count))

    def ended(self):
        return self.until(lambda: self.status is not None, "end of the process")

    def stops(self, k):
        return self.until(lambda: self.stopped >= k, "the process stopping")

    def close(self):
        if self.status is None:
            try:
                self.p.kill()
                os.kill(self.p.pid, signal.SIGCONT)
            except OSError:
                pass
            try:
                self.p.wait(timeout=5)
            except Exception:
                pass
        for fd in (self.er, self.cw):
            try:
                os.close(fd)
            except OSError:
                pass
        self.p.stdout.close()
        self.p.stderr.close()


def fail(name, e):
    return ("real-threads:%s:%s" % ("ended-early" if e.ended else "timeout", name), str(e))


LISTED = r": (h\d+): (command in progress|connecting)"


def listed(r, skip=0):
    return re.findall(LISTED, r.stderr())[skip:]


def setup3(exe, batch=0, S=0):
    """fanout 2, three targets: h0 running, h1 connecting, h2 not started"""
    r = Run(exe, 2, 3, batch, S)
    r.event("C0")
    r.cmd("c0")
    r.event("R0")
    r.event("C1")
    # h0 is READING only after _update_connect_state; its first output line is relayed from inside the read loop
    r.until(lambda: "h0: o0" in r.stdout(), "h0's first line on stdout")
    return r


def finish3(r, canceled=()):
    """let everything that may still run complete; -> exit status"""
    r.cmd("c1", "e0")
    if 1 not in canceled:
        r.event("R1")
        r.cmd("e1")
    if 2 not in canceled:
        r.event("C2")
        r.cmd("c2")
        r.event("R2")
        r.cmd("e2")
    r.ended()
    return r.p.returncode


def sc_single(exe):
    r = setup3(exe)
    try:
        r.kill(signal.SIGINT)
        r.until(lambda: r.status is not None or len(listed(r)) >= 2, "the answer to the single ^C")
        if r.status is not None:
            return [("real-threads:single-int-aborted", "a single ^C (the first of the run, clock %d, no -b) was taken for the "
                     "second one: exit status %s, forwarded %s, stderr %r" %
                     (CLOCK, r.p.returncode, [e for e in r.events if e.startswith("F")], r.stderr()[-120:]))], r
        out = []
        if sorted(listed(r)) != [("h0", "command in progress"), ("h1", "connecting")]:
            out.append(("real-threads:listing", "single ^C with h0 running, h1 connecting, h2 not started listed %s" % listed(r)))
        rc = finish3(r)
        if rc != 0:
            out.append(("real-threads:single-int-rc", "single ^C: exit status %s (stderr %r)" % (rc, r.stderr()[-200:])))
        if any(e.startswith("F") for e in r.events):
            out.append(("real-threads:single-int-forwarded", "single ^C: a signal was forwarded: %s" % [e for e in r.events if e.startswith("F")]))
        want = sorted("h%d: o%d" % (i, i) for i in range(3))
        if sorted(r.stdout().split("\n")[:-1]) != want:
            out.append(("real-threads:single-int-output", "single ^C: stdout %r" % r.stdout()))
        return out, r
    except Timeout as e:
        return [fail("single", e)], r


def sc_double(exe, gap):
    """^C, `gap` seconds on the clock, ^C: abort for gap <= 1, a second report for gap >= 2"""
    r = setup3(exe)
    try:
        r.kill(signal.SIGINT)
        r.err_has(LISTED, 2)
        if gap:
            r.cmd("t%d" % (CLOCK + gap))
            r.event("T%d" % (CLOCK + gap))
        r.kill(signal.SIGINT)
        out = []
        if gap <= 1:
            r.until(lambda: r.status is not None or len(listed(r)) >= 4, "the abort")
            if r.status is None:
                return [("real-threads:no-abort", "^C ^C %d s apart (within one second): the second interrupt was answered "
                         "with another listing instead of forwarding SIGINT and exiting" % gap)], r
            if r.p.returncode in (0, None) or r.p.returncode < 0:
                out.append(("real-threads:abort-status", "^C ^C %d s apart: exit status %s" % (gap, r.p.returncode)))
            if "F0 2" not in r.events:
                out.append(("real-threads:not-forwarded", "^C ^C %d s apart: no SIGINT forwarded to the running h0 (%s)" %
                            (gap, [e for e in r.events if e.startswith("F")])))
            if any(e.startswith("F") and e != "F0 2" for e in r.events):
                out.append(("real-threads:forwarded-to-idle", "^C ^C: forwarded %s" % [e for e in r.events if e.startswith("F")]))
        else:
            r.err_has(LISTED, 4)
            rc = finish3(r)
            if rc != 0 or any(e.startswith("F") for e in r.events):
                out.append(("real-threads:abort-on-harmless", "^C, %d s, ^C: exit status %s, forwarded %s" %
                            (gap, rc, [e for e in r.events if e.startswith("F")])))
        return out, r
    except Timeout as e:
        return [fail("double-gap%d" % gap, e)], r


def sc_cancel(exe, gap, S=0):
    """^C, `gap` seconds, ^Z: cancel for gap <= 1 (h1 connecting and h2 not started are canceled, h0 completes), stop for gap >= 2"""
    r = setup3(exe, S=S)
    try:
        r.kill(signal.SIGINT)
        r.err_has(LISTED, 2)
        if gap:
            r.cmd("t%d" % (CLOCK + gap))
            r.event("T%d" % (CLOCK + gap))
        r.kill(signal.SIGTSTP)
        out = []
        if gap <= 1:
            r.until(lambda: re.search(r"Canceled \d+ pending threads", r.stderr()) or r.stopped, "`Canceled n pending threads`")
            m = re.search(r"Canceled (\d+) pending threads", r.stderr())
            if not m:
                return [("real-threads:stopped", "^Z %d s after ^C stopped the process instead of canceling the pending hosts "
                         "(SIGTSTP not blocked in every thread, not in the sigwait set, or the window misjudged)" % gap)], r
            if m.group(1) != "2":
                out.append(("real-threads:cancel-count", "^C ^Z with h1 connecting and h2 not started: Canceled %s" % m.group(1)))
            rc = finish3(r, canceled=(1, 2))
            if "C2" in r.events:
                out.append(("real-threads:canceled-started", "^C ^Z: the canceled h2 was connected"))
            if "h0: o0" not in r.stdout() or "o1" in r.stdout() or "o2" in r.stdout():
                out.append(("real-threads:cancel-output", "^C ^Z: stdout %r" % r.stdout()))
            if r.stopped:
                out.append(("real-threads:stopped", "^Z right after ^C stopped the process"))
            want = 1 if S else 0            # -S: canceled hosts make the run fail (F08-CANCELED repaired)
            if (rc != 0) != (want != 0):
                out.append(("real-threads:cancel-rc", "^C ^Z%s: exit status %s" % (" with -S" if S else "", rc)))
        else:
            r.until(lambda: r.stopped >= 1 or re.search(r"Canceled \d+ pending", r.stderr()), "the process stopping")
            if re.search(r"Canceled \d+ pending", r.stderr()):
                return [("real-threads:cancel-without-interrupt", "^Z %d s after ^C (more than INTR_TIME) canceled the pending "
                         "hosts instead of stopping pdsh" % gap)], r
            os.kill(r.p.pid, signal.SIGCONT)
            rc = finish3(r)
            if rc != 0:
                out.append(("real-threads:stop-rc", "^Z %d s after ^C, continued: exit status %s" % (gap, rc)))
        return out, r
    except Timeout as e:
        return [fail("cancel-gap%d" % gap, e)], r


def sc_lone_tstp(exe):
    r = setup3(exe)
    try:
        r.kill(signal.SIGTSTP)
        r.until(lambda: r.stopped >= 1 or re.search(r"Canceled \d+ pending", r.stderr()), "the process stopping")
        if not r.stopped:
            return [("real-threads:lone-tstp", "lone ^Z (no ^C before it) canceled the pending hosts instead of stopping pdsh: "
                     "stderr %r" % r.stderr()[-200:])], r
        out = []
        os.kill(r.p.pid, signal.SIGCONT)
        rc = finish3(r)
        if rc != 0 or re.search(r"Canceled", r.stderr()):
            out.append(("real-threads:lone-tstp", "lone ^Z: exit status %s stderr %r" % (rc, r.stderr()[-200:])))
        return out, r
    except Timeout as e:
        return [fail("lone-tstp", e)], r


def sc_batch(exe):
    r = setup3(exe, batch=1)
    try:
        r.kill(signal.SIGINT)
        r.ended()
        out = []
        if r.p.returncode in (0, None) or r.p.returncode < 0:
            out.append(("real-threads:batch-status", "-b ^C: exit status %s" % r.p.returncode))
        if "F0 2" not in r.events or any(e.startswith("F") and e != "F0 2" for e in r.events):
            out.append(("real-threads:batch-forward", "-b ^C with only h0 running: forwarded %s" % [e for e in r.events if e.startswith("F")]))
        if listed(r):
            out.append(("real-threads:batch-listed", "-b ^C was answered with a listing"))
        return out, r
    except Timeout as e:
        return [fail("batch", e)], r


def sc_early(exe, batch):
    """^C before the first connection has returned (h0, h1 connecting)"""
    r = Run(exe, 2, 3, batch, 0)
    try:
        r.event("C0")
        r.event("C1")
        r.kill(signal.SIGINT)
        out = []
        if batch:
            r.ended()
            if r.p.returncode in (0, None) or r.p.returncode < 0 or any(e.startswith("F") for e in r.events):
                out.append(("real-threads:early-batch", "-b ^C before the first connection: exit status %s forwarded %s" %
                            (r.p.returncode, [e for e in r.events if e.startswith("F")])))
        else:
            r.err_has(LISTED, 2)
            if sorted(listed(r)) != [("h0", "connecting"), ("h1", "connecting")]:
                out.append(("real-threads:listing", "^C with h0, h1 connecting listed %s" % listed(r)))
            r.cmd("c0")
            r.event("R0")
            rc = finish3(r)
            if rc != 0:
                out.append(("real-threads:early-rc", "^C before the first connection: exit status %s" % rc))
        return out, r
    except Timeout as e:
        return [fail("early-b%d" % batch, e)], r


def sc_late(exe):
    """every command done, then ^C during / after the drain: pdsh must end (status 0, or killed by the SIGINT that dsh()
    unblocks again on its way out), never hang or crash"""
    r = setup3(exe)
    try:
        rc0 = None
        r.cmd("c1", "e0")
        r.event("R1")
        r.cmd("e1")
        r.event("C2")
        r.cmd("c2")
        r.event("R2")
        r.cmd("e2")
        r.event("D2")
        r.kill(signal.SIGINT)
        r.ended()
        rc0 = r.p.returncode
        out = []
        if rc0 not in (0, 1, -signal.SIGINT):
            out.append(("real-threads:late-int", "^C after the last completion: the process ended with %s (stderr %r)" %
                        (rc0, r.stderr()[-200:])))
        return out, r
    except Timeout as e:
        return [fail("late", e)], r


def sc_epoch(exe):
    """pdsh started at clock CLOCK <= INTR_TIME (the first two seconds of 1970): last_intr starts at 0, so the first ^C is
    `within one second of the last one` by the letter of the code and of the model (the decision is a function of
    now - last_intr alone, last_intr = 0 initially): abort.  Pinned so that the initial value and the comparison stay
    what the model says they are; not a situation of practical interest."""
    r = setup3(exe)
    try:
        r.kill(signal.SIGINT)
        r.until(lambda: r.status is not None or len(listed(r)) >= 2, "the answer to the first ^C at clock %d" % CLOCK)
        if r.status is None:
            finish3(r)
            return [("real-threads:epoch-initial-stamp", "first ^C at clock %d (last_intr initially 0, INTR_TIME 1): the model "
                     "decides by now - last_intr > INTR_TIME alone = abort; the code listed" % CLOCK)], r
        out = []
        if r.p.returncode in (0, None) or r.p.returncode < 0 or "F0 2" not in r.events:
            out.append(("real-threads:abort-status", "first ^C at clock %d: exit status %s, forwarded %s" %
                        (CLOCK, r.p.returncode, [e for e in r.events if e.startswith("F")])))
        return out, r
    except Timeout as e:
        return [fail("epoch", e)], r


SCENARIOS = [("single", lambda x: sc_single(x)), ("double-gap0", lambda x: sc_double(x, 0)), ("double-gap1", lambda x: sc_double(x, 1)),
             ("double-gap2", lambda x: sc_double(x, 2)), ("cancel-gap0", lambda x: sc_cancel(x, 0)),
             ("cancel-gap1", lambda x: sc_cancel(x, 1)), ("cancel-gap2", lambda x: sc_cancel(x, 2)),
             ("cancel-S", lambda x: sc_cancel(x, 0, S=1)),
             # the clock set BACK between the two signals (the signed difference is negative = within INTR_TIME; an unsigned
             # one would be huge; the model's truncated subtraction gives 0: Dsh/SignalsClock.lean c_test_any_order)
             ("double-back5", lambda x: sc_double(x, -5)), ("cancel-back5", lambda x: sc_cancel(x, -5)), ("lone-tstp", sc_lone_tstp), ("batch", sc_batch),
             ("early", lambda x: sc_early(x, 0)), ("early-batch", lambda x: sc_early(x, 1)), ("late", sc_late)]


def attempt(fn, exe, name):
    try:
        res, r = fn(exe)
    except Timeout as e:        # while the scenario was being set up (before any signal was sent)
        return [fail(name + ":setup", e)], None
    r.close()
    return res, r


# the property does not depend on what pdsh inherits: the same scenarios under each inherited state of SIGINT/SIGTSTP
# (batch and interactive; ^C, ^C^C, ^C^Z, lone ^Z)
# the clock as an input at extreme values: the same scenarios with pdsh started at each of these values of time(NULL)
# (time_t is 64 bits wide here).  Pairs (first stamp, second stamp) straddle 2^31 and 2^32 with gap 1 (= INTR_TIME:
# abort / cancel) and gap 2 (report / stop): 2^31-2 -> 2^31, 2^31-1 -> 2^31, 2^32-2 -> 2^32, 2^32-1 -> 2^32.  A first ^C /
# a lone ^Z is compared with last_intr = 0, i.e. the difference is the full value of the clock.
FULL = ["single", "double-gap1", "double-gap2", "cancel-gap1", "cancel-gap2", "lone-tstp"]
AT_CLOCK = [(2 ** 31 - 2, FULL), (2 ** 31 - 1, FULL), (2 ** 31, FULL), (2 ** 31 + 1, ["single", "double-gap1", "lone-tstp"]),
            (2 ** 32 - 2, FULL), (2 ** 32 - 1, FULL), (2 ** 32, FULL), (2 ** 32 + 1, ["single", "double-gap1", "lone-tstp"]),
            (2 ** 33, ["single", "double-gap0", "double-gap2", "lone-tstp"]),
            (0, ["epoch"]), (1, ["epoch"]), (2, ["single", "double-gap1", "cancel-gap1", "lone-tstp"])]


UNDER = [("ign-both", ["batch", "single", "double-gap0", "cancel-gap0", "lone-tstp"]),
         ("blk-both", ["batch", "single", "double-gap1", "cancel-gap1", "lone-tstp"]),
         ("ign-int", ["batch", "early-batch"]), ("ign-tstp", ["cancel-gap0"]), ("ign+blk", ["batch", "cancel-gap0"])]
SPELL = {"i": "SIGINT ignored", "z": "SIGTSTP ignored", "I": "SIGINT blocked", "Z": "SIGTSTP blocked"}


def run(ctx):
    """-> (offenders [(signature, what, case)], number of scenarios run, {scenario: outcome})"""
    global INHERIT, CLOCK
    exe = build(ctx)
    if not exe:
        return [], 0, {}
    offs, dist = [], {}
    slow = 0
    byname = dict(SCENARIOS + [("epoch", sc_epoch)])
    todo = [("", name, C0) for name, _ in SCENARIOS] + [(d, name, C0) for d, names in UNDER for name in names] + \
           [("", name, c) for c, names in AT_CLOCK for name in names]
    for disp, name, clock in todo:
        fn = byname[name]
        key = name if not disp else "%s@%s" % (name, disp)
        if clock != C0:
            key += "@clock=%d" % clock
        if slow >= 2:
            dist[key] = "skipped (two scenarios already ran into the limit)"
            continue
        INHERIT = INHERITED[disp] if disp else ""
        CLOCK = clock
        try:
            res, r = attempt(fn, exe, name)
            if any(sig.startswith("real-threads:timeout") for sig, _ in res):
                slow += 1
                ctx.log("real threads, scenario %s: %s; retried once" % (key, res[0][1]))
                res, r = attempt(fn, exe, name)
        finally:
            INHERIT = ""
            CLOCK = C0
        how = ""
        if clock != C0:
            how = " [pdsh started with time(NULL) = %d%s: only the difference between the instants of two interrupts " \
                  "matters, whatever the value of the clock]" % (clock, " = 2^%d%+d" % (
                      (31, clock - 2 ** 31) if abs(clock - 2 ** 31) < 9 else (32, clock - 2 ** 32) if abs(clock - 2 ** 32) < 9
                      else (33, clock - 2 ** 33)) if clock > 9 else "")
            res = [(sig.replace("real-threads:", "real-threads:clock:", 1), what + how) for sig, what in res]
        if disp:
            how = " [pdsh started with %s: a signal that is ignored or blocked when pdsh starts must be handled like any " \
                  "other -- dsh() blocks it everywhere and takes it with sigwait()]" % ", ".join(SPELL[c] for c in INHERITED[disp])
            res = [(sig.replace("real-threads:", "real-threads:inherited-%s:" % disp, 1), what + how) for sig, what in res]
        dist[key] = "ok" if not res else ",".join(sig for sig, _ in res)
        for sig, what in res:
            offs.append((sig, what, {"harness": "harness/sigthread_harness.c (real dsh.c, real threads and signals, gated "
                                                "transport, settable clock)", "scenario": name,
                                     "inherited": INHERITED[disp] if disp else "", "clock_at_start": clock,
                                     "dialogue": r.log[-60:] if r else None, "stderr": r.stderr()[-600:] if r else None,
                                     "stdout": r.stdout()[-300:] if r else None, "exit": r.p.returncode if r else None}))
    return offs, len(todo), dist
