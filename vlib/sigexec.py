"""C20, forwarding at the module level: harness/execsig_harness.c runs the real src/modules/execcmd.c (through its exported
operations table, as rcmd.c does) and src/common/pipecmd.c on real children.  The abort paths of dsh.c forward SIGINT to
every READING target with whatever value rcmd->efd has (-1 without -s, -1 again after EOF on the command's stderr): the
module must deliver it to the command all the same.  Deterministic: an undelivered signal shows as a child that ends by
itself after 3 s with status 0."""
import os
import re
import subprocess

from vlib.common import HARNESS, REPO

SRCS = ["src/common/pipecmd.c", "src/common/err.c", "src/common/xmalloc.c", "src/common/xstring.c", "src/common/list.c",
        "src/common/split.c", "src/common/fd.c"]


def run(ctx):
    """-> (list of (signature, what, case), number of scenarios run) ; build problems are recorded in ctx.broken"""
    exe = os.path.join(ctx.scratch, "execsig_harness")
    ok = ctx.cc(exe, [os.path.join(HARNESS, "execsig_harness.c")] + [os.path.join(REPO, f) for f in SRCS],
                san=False, assertions=False)
    if not ok:
        return [], 0
    p = None
    for attempt in (1, 2):          # a time-out alone is retried once before it is reported
        try:
            p = subprocess.run([exe], stdout=subprocess.PIPE, stderr=subprocess.PIPE, timeout=60, stdin=subprocess.DEVNULL)
            break
        except subprocess.TimeoutExpired:
            ctx.log("execsig_harness did not end within 60 s (attempt %d)" % attempt)
    if p is None:
        return [("execsig:timeout", "execsig_harness did not end within 60 s, twice", {"harness": "execsig_harness"})], 0
    out = p.stdout.decode("utf-8", "replace")
    offs, n = [], 0
    for line in out.splitlines():
        m = re.match(r"(\S+) delivered=(\d) sigf=(-?\d+) wait=(-?\d+)", line)
        if not m:
            if line.strip():
                offs.append(("execsig:" + line.split()[0] + ":start-failed", "scenario could not be started: " + line,
                             {"harness": "execsig_harness", "line": line}))
            continue
        n += 1
        if m.group(2) != "1":
            offs.append(("execsig:not-delivered:" + m.group(1),
                         "exec module: SIGINT forwarded with efd as dsh.c keeps it (%s) did not reach the running command "
                         "(signal function returned %s, the command ended by itself: wait status %s)" %
                         (m.group(1), m.group(3), m.group(4)),
                         {"harness": "harness/execsig_harness.c (no arguments)", "scenario": m.group(1), "line": line}))
    if p.returncode != 0 or n != 3:
        offs.append(("execsig:crash", "execsig_harness rc=%s, %d of 3 scenarios reported: %s" %
                     (p.returncode, n, p.stderr.decode("utf-8", "replace")[-300:]), {"harness": "execsig_harness"}))
    return offs, n
