"""C20, forwarding at the module level: harness/execsig_harness.c runs the real src/modules/execcmd.c (through its exported
operations table, as rcmd.c does) and src/common/pipecmd.c on real children.  The abort paths of dsh.c forward SIGINT to
every READING target with whatever value rcmd->efd has (-1 without -s, -1 again after EOF on the command's stderr): the
module must deliver it to the command all the same.  Deterministic: an undelivered signal shows as a child that ends by
itself after 3 s with status 0.

The process side of "a host is READING right after fork()": the harness includes the real pipecmd.c with the libc calls of
its forked child numbered, and sends the signal through the module's signal function while the child is stopped before its
k-th call, for every k between fork() and exec (before/after the dup2()s, inside closeall(), before and after setsid(),
before execvp()), with and without a stderr descriptor; SIGINT/SIGTSTP blocked in the caller as dsh() leaves them.  The
command is harness/sig_helper.c, which reports by its exit status that its handler ran: the signal has to ARRIVE at the
command, not merely be sent."""
import os
import re
import subprocess

from vlib.common import HARNESS, REPO

SRCS = ["src/common/pipecmd.c", "src/common/err.c", "src/common/xmalloc.c", "src/common/xstring.c", "src/common/list.c",
        "src/common/split.c", "src/common/fd.c"]


POINTS = {}      # of the last run: call the child was stopped before -> number of scenarios


def run(ctx):
    """-> (list of (signature, what, case), number of scenarios run) ; build problems are recorded in ctx.broken"""
    exe = os.path.join(ctx.scratch, "execsig_harness")
    ok = ctx.cc(exe, [os.path.join(HARNESS, "execsig_harness.c")] + [os.path.join(REPO, f) for f in SRCS
                                                                     if not f.endswith("/pipecmd.c")],
                san=False, assertions=False)
    if not ok:
        return [], 0
    helper = os.path.join(ctx.scratch, "sig_helper")
    hp = subprocess.run(["gcc", "-O1", "-w", os.path.join(HARNESS, "sig_helper.c"), "-o", helper], stderr=subprocess.PIPE)
    if hp.returncode != 0:
        ctx.broken.append(("C-BROKEN", "harness build sig_helper", hp.stderr.decode("utf-8", "replace")[-1000:]))
        return [], 0
    p = None
    for attempt in (1, 2):          # a time-out alone is retried once before it is reported
        try:
            p = subprocess.run([exe, helper], stdout=subprocess.PIPE, stderr=subprocess.PIPE, timeout=60, stdin=subprocess.DEVNULL)
            break
        except subprocess.TimeoutExpired:
            ctx.log("execsig_harness did not end within 60 s (attempt %d)" % attempt)
    if p is None:
        return [("execsig:timeout", "execsig_harness did not end within 60 s, twice", {"harness": "execsig_harness"})], 0
    out = p.stdout.decode("utf-8", "replace")
    offs, n = [], 0
    points, calls = [], {}
    for line in out.splitlines():
        mc = re.match(r"calls(\S*) (-?\d+)$", line)
        if mc:
            calls[mc.group(1)] = int(mc.group(2))
            continue
        m = re.match(r"(\S+) delivered=(\d) sigf=(-?\d+) wait=(-?\d+)(?: self=(\d))?", line)
        if not m:
            if line.strip():
                offs.append(("execsig:" + line.split()[0] + ":start-failed", "scenario could not be started: " + line,
                             {"harness": "execsig_harness", "line": line}))
            continue
        n += 1
        pt = re.match(r"pt(\d+):([^:]+)(:s)?$", m.group(1))
        if pt:
            points.append(pt.group(2))
        if pt and m.group(5) == "1":
            offs.append(("execsig:hit-pdsh-itself:before-%s" % pt.group(2),
                         "exec module: SIGINT forwarded while the just-forked child of the command was stopped before its "
                         "call no. %s after fork(), %s(), was (also) sent to the sender: the child is still in the process "
                         "group of pdsh there, and a signal to `its group` goes to pdsh and to everything else in that group" %
                         (pt.group(1), pt.group(2)),
                         {"harness": "harness/execsig_harness.c <sig_helper>", "scenario": m.group(1), "line": line}))
        if m.group(2) != "1" and pt:
            # one offender per kind of call the child was about to make (closeall() alone has a point per descriptor)
            offs.append(("execsig:not-delivered:before-%s%s" % (pt.group(2), pt.group(3) or ""),
                         "exec module: SIGINT forwarded while the just-forked child of the command was stopped before its "
                         "call no. %s after fork(), %s()%s, never arrived at the command (signal function returned %s; the "
                         "command ran to its end: wait status %s).  The host is DSH_READING as soon as fork() has returned "
                         "in pdsh: an abort there prints `sending signal` and leaves the command running" %
                         (pt.group(1), pt.group(2), ", stderr descriptor requested" if pt.group(3) else "", m.group(3),
                          m.group(4)),
                         {"harness": "harness/execsig_harness.c <sig_helper>", "scenario": m.group(1), "line": line}))
        elif m.group(2) != "1" and m.group(1) == "ordinary-command":
            offs.append(("execsig:not-delivered:ordinary-command-inherits-blocked-mask",
                         "exec module: SIGINT forwarded to a command that does not touch its signal mask (`sleep 3`, started "
                         "while the caller blocks SIGINT/SIGTSTP/SIGCHLD as every thread of pdsh does) stays pending: the "
                         "command inherited the mask across fork and exec and never receives the interrupt (%s)" % line,
                         {"harness": "harness/execsig_harness.c <sig_helper>", "scenario": m.group(1), "line": line}))
        elif m.group(2) != "1":
            offs.append(("execsig:not-delivered:" + m.group(1),
                         "exec module: SIGINT forwarded with efd as dsh.c keeps it (%s) did not reach the running command "
                         "(signal function returned %s, the command ended by itself: wait status %s)" %
                         (m.group(1), m.group(3), m.group(4)),
                         {"harness": "harness/execsig_harness.c <sig_helper>", "scenario": m.group(1), "line": line}))
    seen = set()
    offs = [o for o in offs if not (o[0] in seen or seen.add(o[0]))]
    # the child of the real _pipecmd makes at least: the dup2()s, the close loop, the exec
    if p.returncode != 0 or n < 4 + 8 or len(calls) != 2 or min(calls.values()) < 4 or \
            len(points) != sum(calls.values()) or "ordinary-command " not in out:
        offs.append(("execsig:crash", "execsig_harness rc=%s, %d scenarios reported, calls counted %s: %s" %
                     (p.returncode, n, calls, p.stderr.decode("utf-8", "replace")[-300:]), {"harness": "execsig_harness"}))
    POINTS.clear()
    for x in points:
        POINTS[x] = POINTS.get(x, 0) + 1
    return offs, n
