"""Running many op sequences through an in-process harness / the model driver and
splitting the answers per sequence; crash attribution; ddmin shrinking."""
import subprocess


def run_batch(cmd, seqs, timeout=600, env=None):
    """seqs: list of lists of op lines.  Each op yields exactly one answer line.
    Returns list of (answers, crash) per sequence; crash = None or text (stderr tail).
    A crash (non-zero exit, sanitizer abort, timeout) is attributed to the sequence in
    which the output stops; the remaining sequences are re-run in a fresh process."""
    results = [None] * len(seqs)
    start = 0
    while start < len(seqs):
        chunk = seqs[start:]
        text = "".join(l + "\n" for s in chunk for l in s)
        try:
            p = subprocess.run(cmd, input=text.encode(), stdout=subprocess.PIPE,
                               stderr=subprocess.PIPE, timeout=timeout, env=env)
            rc, out, err = p.returncode, p.stdout, p.stderr
        except subprocess.TimeoutExpired as e:
            rc, out, err = -999, e.stdout or b"", b"TIMEOUT"
        lines = out.decode("utf-8", "replace").split("\n")
        if lines and lines[-1] == "":
            lines.pop()
        pos = 0
        done = True
        for k, s in enumerate(chunk):
            if pos + len(s) <= len(lines) and not (rc != 0 and pos + len(s) == len(lines) and k == len(chunk) - 1 and False):
                results[start + k] = (lines[pos:pos + len(s)], None)
                pos += len(s)
            else:
                # output stops inside this sequence
                results[start + k] = (lines[pos:], "rc=%s %s" % (rc, err.decode("utf-8", "replace")[-1500:]))
                start = start + k + 1
                done = False
                break
        if done:
            if rc != 0 and chunk:
                # crashed after the last answer (e.g. at destroy): attribute to the last sequence
                a, _ = results[len(seqs) - 1]
                results[len(seqs) - 1] = (a, "rc=%s %s" % (rc, err.decode("utf-8", "replace")[-1500:]))
            break
    return results


def ddmin(seq, fails, keep_head=1, max_tests=400):
    """Shrink op sequence `seq` (list) while `fails(seq)` stays true; first keep_head ops are kept."""
    head, body = seq[:keep_head], list(seq[keep_head:])
    tests = 0
    n = 2
    while len(body) >= 1 and tests < max_tests:
        chunk = max(1, len(body) // n)
        reduced = False
        i = 0
        while i < len(body):
            cand = body[:i] + body[i + chunk:]
            tests += 1
            if fails(head + cand):
                body = cand
                reduced = True
                n = max(n - 1, 2)
            else:
                i += chunk
            if tests >= max_tests:
                break
        if not reduced:
            if chunk == 1:
                break
            n = min(len(body), n * 2)
    return head + body
