"""Helpers shared by checks/c11.py and checks/c12.py (engine `pcp`): jail directories, snapshots,
canonical forms of replies and file systems, the line protocol of `pdshmodel pcp`, generators."""
import os
import re
import stat
import zlib

BUFSIZ = 8192          # only used to aim generators at block boundaries; the model takes PCP_BUFSIZ from /repo
OLD = 1000000000       # modification times of pre-existing entries: OLD + k


def hx(b):
    return b.hex() if b else "-"


def unhx(s):
    return b"" if s == "-" else bytes.fromhex(s)


_lcg = {}


def lcg_bytes(seed, n):
    """generated file contents; the same generator is Driver/PcpDrv.lean:genBytes"""
    key = (seed, n)
    if key not in _lcg:
        out = bytearray(n)
        x = seed
        for i in range(n):
            x = (x * 1103515245 + 12345) % 2147483648
            out[i] = (x >> 16) & 255
        if len(_lcg) > 4000:
            _lcg.clear()
        _lcg[key] = bytes(out)
    return _lcg[key]


class Ent:
    """one pre-existing entry of a jail: path (bytes, relative to the jail root, b'' = root)"""

    def __init__(self, path, kind, mode, mtime, data=b""):
        self.path, self.kind, self.mode, self.mtime, self.data = path, kind, mode, mtime, data

    def token(self):
        """FSENTRY of the `pdshmodel pcp` protocol; kind `l` (symbolic link): data = the link's target string"""
        c = "-" if self.kind == "d" else "h" + (self.data.hex() if self.data else "")
        if self.kind == "f" and not self.data:
            c = "h"
        return "%s:%s:%o:%d:%s" % (hx(self.path), self.kind, self.mode, self.mtime, c)


def build_jail(root, ents):
    """create the directory `root` holding the entries (parents listed before children)"""
    rb = os.fsencode(root)
    for e in ents:
        p = rb if e.path == b"" else rb + b"/" + e.path
        if e.kind == "d":
            os.makedirs(p, exist_ok=True)
        elif e.kind == "l":
            os.symlink(e.data, p)
        else:
            with open(p, "wb") as f:
                f.write(e.data)
    for e in reversed(ents):
        p = rb if e.path == b"" else rb + b"/" + e.path
        if e.kind == "l":
            os.utime(p, (e.mtime, e.mtime), follow_symlinks=False)
            continue
        os.chmod(p, e.mode)
        os.utime(p, (e.mtime, e.mtime))


def snapshot(root):
    """path (bytes relative to root, b'' = root) -> dict(kind, mode, sec, nsec, data)"""
    rb = os.fsencode(root)
    out = {}

    def add(p, rel):
        st = os.lstat(p)
        if stat.S_ISDIR(st.st_mode):
            out[rel] = dict(kind="d", mode=st.st_mode & 0o7777, sec=st.st_mtime_ns // 10**9,
                            nsec=st.st_mtime_ns % 10**9, data=None)
            for n in os.listdir(p):
                add(p + b"/" + n, n if rel == b"" else rel + b"/" + n)
        elif stat.S_ISREG(st.st_mode):
            with open(p, "rb") as f:
                d = f.read()
            out[rel] = dict(kind="f", mode=st.st_mode & 0o7777, sec=st.st_mtime_ns // 10**9,
                            nsec=st.st_mtime_ns % 10**9, data=d)
        elif stat.S_ISLNK(st.st_mode):
            out[rel] = dict(kind="l", mode=0o777, sec=st.st_mtime_ns // 10**9, nsec=st.st_mtime_ns % 10**9,
                            data=os.readlink(p))
        else:
            out[rel] = dict(kind="o", mode=st.st_mode & 0o7777, sec=0, nsec=0, data=None)
    add(rb, b"")
    return out


def lexnorm(cwd, s):
    """lexical normal form (python re-implementation, cross-checked with the model's `norm`)"""
    cur = [] if s[:1] == b"/" else [c for c in cwd.split(b"/") if c]
    for c in s.split(b"/"):
        if c == b"" or c == b".":
            continue
        if c == b"..":
            if cur:
                cur.pop()
        else:
            cur.append(c)
    return b"/".join(cur)


# ------------------------------------------------------------------------------------ replies
WHY = {b"unexpected <newline>": "newline", b"lost connection": "lost", b"mtime.sec not delimited": "mtimeSec",
       b"mtime.usec not delimited": "mtimeUsec", b"atime.sec not delimited": "atimeSec",
       b"atime.usec not delimited": "atimeUsec", b"expected control record": "expected", b"bad mode": "badMode",
       b"mode not delimited": "modeDelim", b"size not delimited": "sizeDelim"}


def classify(msg):
    """error record text -> small enum (texts themselves are never compared)"""
    if msg.startswith(b"protocol screwup: "):
        return "E:screwup:" + WHY.get(msg[18:], "badName")
    if msg == b"lost connection":
        return "E:respLost"
    if msg == b"invalid response received":
        return "E:respBad"
    if msg.startswith(b"can't truncate "):
        return "E:trunc"
    if msg.startswith(b"can't set times on "):
        return "E:times"
    if msg.endswith(b" not a directory"):
        return "E:notdir"
    if b": " in msg:
        return "E:path"
    return "E:read"


def canon_replies(raw):
    out, i = [], 0
    while i < len(raw):
        if raw[i] == 0:
            out.append("A")
            i += 1
        elif raw[i] == 1:
            j = raw.find(b"\n", i)
            if j < 0:
                out.append("E:unterminated")
                break
            out.append(classify(raw[i + 1:j]))
            i = j + 1
        else:
            out.append("X:%02x" % raw[i])
            i += 1
    return out


def fields(line):
    return dict(w.split("=", 1) for w in line.split() if "=" in w)


def retry_timeouts(answers, timed_out, skipped, rerun):
    """G2: a time-out alone is re-tried once before it is reported.  `answers` (a list, changed in place) holds one
    answer per case; `timed_out(a)` / `skipped(a)` classify an answer (the harness answers `skipped` for the rest of a
    batch after MAX_TIMEOUTS hanging cases); `rerun(indices)` runs those cases again -- fresh jail, fresh harness
    process -- and returns their answers.  The timed-out cases are re-run one by one until one of them hangs AGAIN
    (then the hang is real: the others keep their first answer); if none does, the time-outs were the machine's, and
    the skipped cases are run after all.  Returns the number of cases re-tried."""
    t = [i for i, a in enumerate(answers) if timed_out(a)]
    n, confirmed = 0, False
    for i in t:
        (a,) = rerun([i])
        n += 1
        answers[i] = a
        if timed_out(a):
            confirmed = True
            break
    if t and not confirmed:
        s = [i for i, a in enumerate(answers) if skipped(a)]
        if s:
            for i, a in zip(s, rerun(s)):
                answers[i] = a
    return n


def static_objects(repo, scratch, unit="pcp_server.c"):
    """compile pcp_server.c (or another unit of src/pdsh) of the tree under test and list (a) the objects of static storage duration it defines
    (nm types B b D d C: data, bss, common -- function-local statics appear as `name.N`), (b) the functions it calls.
    Returns (sorted names of (a) without the `.N` suffix, sorted names of (b)) or None when it does not compile."""
    import subprocess
    obj = os.path.join(scratch, unit.replace(".c", "_nm.o"))
    # -fno-pie: constant tables of pointers stay in .rodata (with PIE they move to .data.rel.ro and would look writable)
    p = subprocess.run(["gcc", "-c", "-w", "-O0", "-fno-pie", "-fno-pic", "-DHAVE_CONFIG_H", "-I" + repo, "-I" + repo + "/src/pdsh",
                        "-I" + repo + "/src/common", os.path.join(repo, "src/pdsh", unit), "-o", obj],
                       stdout=subprocess.PIPE, stderr=subprocess.PIPE)
    if p.returncode != 0:
        return None
    out = subprocess.run(["nm", obj], stdout=subprocess.PIPE).stdout.decode()
    os.unlink(obj)
    defs, calls = set(), set()
    for line in out.splitlines():
        w = line.split()
        if len(w) >= 2 and w[-2] in ("B", "b", "D", "d", "C", "c", "S", "s", "G", "g"):
            defs.add(w[-1].split(".")[0])
        elif len(w) == 2 and w[0] == "U":
            calls.add(w[1])
    return sorted(defs), sorted(calls)


# branches of the receiver automaton (tags of Driver/PcpDrv.lean covRun) taken by the model runs of this check run
BRANCHES = {}
EXPECTED_BRANCHES = (
    ["enter>start", "enter>done"] +
    ["re:A", "re:E:notdir", "re:E:path", "re:E:trunc", "re:E:times", "re:E:respLost", "re:E:respBad", "re:E:read"] +
    ["re:E:screwup:" + w for w in ("newline", "lost", "mtimeSec", "mtimeUsec", "atimeSec", "atimeUsec", "expected",
                                   "badMode", "modeDelim", "sizeDelim", "badName")] +
    ["rec:msg", "rec:stop", "rec:E-top", "rec:E-nested", "E:sets-times", "E:no-times", "rec:bad", "rec:T-bad", "rec:T",
     "rec:T-twice", "rec:name-rejected", "C:on-dir", "C:on-file", "C:new", "D:on-dir", "D:on-file", "D:new", "targ:dir",
     "targ:name", "ctl:with-times", "ctl:no-times", "depth:1", "depth:2", "depth:3", "depth:4", "size:<0", "size:0",
     "size:<buf", "size:<=cnt", "size:>cnt", "data:flush", "data:block", "data:end>resp", "line:buffer-full",
     "line>start", "line>data", "line>resp", "line>done", "start:newline", "resp:ok", "resp:bad", "wr:no", "wr:yes",
     "wr:displayed", "resp>start", "resp>done", "done:input-ignored", "eof:start", "eof:line", "eof:data", "eof:resp",
     "eof:done", "eof-depth:0", "eof-depth:1", "eof-depth:2", "eof-depth:3", "eof-depth:4"])


def branch_report(dist, exclude=()):
    """evidence: how many model runs took each branch of the receiver automaton; which were never taken"""
    dist["receiver_branches"] = dict(sorted(BRANCHES.items()))
    dist["receiver_branches_never_taken"] = [t for t in EXPECTED_BRANCHES if t not in BRANCHES and t not in exclude]
    dist["receiver_branches_unexpected"] = [t for t in BRANCHES if t not in EXPECTED_BRANCHES]


def parse_model(line):
    """answer of `pdshmodel pcp sink|rt`"""
    f = fields(line)
    if "replies" not in f:
        raise RuntimeError("model answer: " + line[:300])
    for t in f.get("cov", "-").split(","):
        if t != "-":
            BRANCHES[t] = BRANCHES.get(t, 0) + 1
    fs = {}
    if f["fs"] != "-":
        for e in f["fs"].split(","):
            p, k, m, t, c = e.split(":")
            fs[unhx(p)] = dict(kind=k, mode=int(m, 8), mtime=t, content=c)
    f["replies"] = [] if f["replies"] == "-" else f["replies"].split(",")
    f["touched"] = [] if f["touched"] == "-" else [unhx(x) for x in f["touched"].split(",")]
    f["fs"] = fs
    return f


def compare_fs(mfs, snap, t0):
    """model file system (initial + touched paths) vs snapshot of the real one"""
    diffs = []
    for path, m in mfs.items():
        r = snap.get(path)
        if m["kind"] == "x":
            if r is not None:
                diffs.append("%r: exists in reality, not in the model" % path)
            continue
        if r is None:
            diffs.append("%r: in the model (%s), missing in reality" % (path, m["kind"]))
            continue
        if r["kind"] != m["kind"]:
            diffs.append("%r: kind %s vs model %s" % (path, r["kind"], m["kind"]))
            continue
        if r["mode"] != m["mode"]:
            diffs.append("%r: mode %o vs model %o" % (path, r["mode"], m["mode"]))
        if m["kind"] == "f":
            c = "%d.%d" % (len(r["data"]), zlib.crc32(r["data"]) & 0xffffffff)
            if c != m["content"]:
                diffs.append("%r: content len.crc %s vs model %s" % (path, c, m["content"]))
        t = m["mtime"]
        if t == "?":
            if r["sec"] < t0 - 2:
                diffs.append("%r: mtime %d is old, model says set by the clock" % (path, r["sec"]))
        elif t != "!":
            sec, _, usec = t.partition(".")
            if r["sec"] != int(sec) or r["nsec"] != int(usec or 0) * 1000:
                diffs.append("%r: mtime %d.%09d vs model %s" % (path, r["sec"], r["nsec"], t))
    for path in snap:
        if path not in mfs:
            diffs.append("%r: exists in reality, unknown to the model" % path)
    return diffs


def changed_paths(before, snap, t0):
    """paths created, removed or modified: content/mode/kind; modification time of a file; modification
    time of a directory only when it was set to something that is not the current time (the kernel
    refreshes a directory's time whenever an entry is created in it)"""
    ch = []
    for path, r in snap.items():
        b = before.get(path)
        if b is None:
            ch.append(path)
        elif b.kind != r["kind"] or b.mode != r["mode"]:
            ch.append(path)
        elif r["kind"] in ("f", "l") and (r["data"] != b.data or r["sec"] != b.mtime or r["nsec"] != 0):
            ch.append(path)
        elif r["kind"] == "d" and (r["sec"] != b.mtime or r["nsec"] != 0) and r["sec"] < t0 - 2:
            ch.append(path)
    for path in before:
        if path not in snap:
            ch.append(path)
    return ch


# --------------------------------------------------------------------- record grammar (oracle)
_T = re.compile(rb"T\d* \d* \d* \d*", re.S)
_CD = re.compile(rb"([CD])([0-7]{4}) (\d*) ([^\0]*)", re.S)


def wrap64(x):
    return (x + 2**63) % 2**64 - 2**63


def records(stream):
    """Walk the stream as the rcp record grammar says, assuming every file-system operation succeeds.
    Yields ('ctl', letter, mode, size, name), ('T',), ('E',), ('msg',); returns the verdict through
    StopIteration.value: True = well formed up to the end of what a receiver reads."""
    i, n, depth = 0, len(stream), 1
    while True:
        if i >= n:
            return True
        if stream[i] == 10:
            return False
        limit = i + BUFSIZ - 1
        j = stream.find(b"\n", i + 1, limit)
        if j < 0:
            if n < limit:
                return False                      # input ends inside a record
            rec, i = stream[i:limit], limit
        else:
            rec, i = stream[i:j], j + 1
        if rec[0] == 1:
            yield ("msg",)
            continue
        if rec[0] == 2 or rec[0] == 69:
            yield ("E",)
            depth -= 1
            if depth == 0:
                return True
            continue
        c = rec.split(b"\0")[0]
        if c[:1] == b"T":
            if not _T.fullmatch(c):
                return False
            yield ("T",)
            continue
        m = _CD.fullmatch(c)
        if not m:
            return False
        size = wrap64(int(m.group(3) or b"0"))
        yield ("ctl", m.group(1), int(m.group(2), 8), size, m.group(4))
        if m.group(1) == b"D":
            depth += 1
            continue
        if size > 0:
            if i + size > n:
                return False                      # input ends inside the data
            i += size
        if i >= n or stream[i] != 0:
            return False                          # no / bad response byte
        i += 1


def analyse(stream):
    """(well_formed, list of control-record names seen before the first malformation)"""
    names = []
    g = records(stream)
    try:
        while True:
            r = next(g)
            if r[0] == "ctl":
                names.append(r[4])
    except StopIteration as e:
        return bool(e.value), names


def hostile_name(n):
    """the class of names the D13 finding is about"""
    return b"/" in n or n == b".."


# ---------------------------------------------------------------------------------------------------------------
# process pools: every case of C11/C12 is independent of every other (own jail, own forked receiver, one model line
# -> one answer line), so a batch is cut into contiguous pieces that run in up to POOL harness / model processes at a
# time; answers come back in the order of the cases, whatever the number of workers (deterministic).

def pool_size():
    try:
        n = len(os.sched_getaffinity(0))
    except AttributeError:
        n = os.cpu_count() or 1
    return max(1, min(int(os.environ.get("VERIF_PCP_POOL", "8")), n))


def _pieces(n, k, per=1):
    """cut range(n) into contiguous pieces: about `per` pieces per worker, so that one slow piece does not
    leave the other workers idle"""
    if n == 0:
        return []
    m = max(1, min(n, k * per))
    size = (n + m - 1) // m
    return [(a, min(a + size, n)) for a in range(0, n, size)]


def par_batch(cmd, seqs, timeout=1800, env=None):
    """vlib.seqrun.run_batch over a pool of harness processes"""
    from concurrent.futures import ThreadPoolExecutor
    from vlib.seqrun import run_batch
    k = pool_size()
    if k == 1 or len(seqs) < 8:
        return run_batch(cmd, seqs, timeout=timeout, env=env)
    # one piece per worker: every harness process answers `skipped` after MAX_TIMEOUTS hanging cases, so the time a
    # hanging receiver can cost is bounded per PROCESS -- few processes, small bound
    pcs = _pieces(len(seqs), k, per=1)
    with ThreadPoolExecutor(max_workers=k) as ex:
        parts = list(ex.map(lambda ab: run_batch(cmd, seqs[ab[0]:ab[1]], timeout=timeout, env=env), pcs))
    return [r for p in parts for r in p]


def par_model(ctx, engine, lines, timeout=1800):
    """ctx.model over a pool of model-driver processes; `lines` = list of protocol lines (no newline), one answer each"""
    from concurrent.futures import ThreadPoolExecutor
    k = pool_size()
    if k == 1 or len(lines) < 8:
        return ctx.model(engine, "".join(l + "\n" for l in lines), timeout=timeout)
    pcs = _pieces(len(lines), k, per=3)

    def one(ab):
        out = ctx.model(engine, "".join(l + "\n" for l in lines[ab[0]:ab[1]]), timeout=timeout)
        if len(out) != ab[1] - ab[0]:
            raise RuntimeError("model driver: %d answers for %d lines" % (len(out), ab[1] - ab[0]))
        return out
    with ThreadPoolExecutor(max_workers=k) as ex:
        parts = list(ex.map(one, pcs))
    return [r for p in parts for r in p]


_RM = []


def rm_bg(path):
    """remove a directory tree without waiting for it (thousands of jails, some nested a hundred levels deep: on a
    busy machine the removal takes longer than the runs); what is left when the check ends goes with ctx.scratch"""
    import subprocess
    if not os.path.lexists(path):
        return
    old = "%s.old%d" % (path, len(_RM))
    try:
        os.rename(path, old)
    except OSError:
        import shutil
        shutil.rmtree(path, ignore_errors=True)
        return
    _RM.append(subprocess.Popen(["rm", "-rf", old], stdout=subprocess.DEVNULL, stderr=subprocess.DEVNULL))
