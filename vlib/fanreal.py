"""C04, real part (supporting: real kernel, real threads, the exec transport of the scratch build): the number of remote
commands ALIVE at the same time never exceeds the fanout, also when hosts are given up on after the command
timeout.  Purely functional (counts, no wall-clock bounds): robust on a loaded machine.

Every command registers its pid in a directory, counts how many registered pids are alive (itself included) when it
starts, prints `alive=<k>` and then behaves as its host name says:
  q*   quick: exits at once
  s*   stubborn: ignores SIGTERM and lives 3 s (a command that survives being given up on)
  z*   closes stdin/stdout/stderr at once and lives 3 s (pdsh sees EOF; the teardown has to wait for it)
With `-u 1` the s* / z* hosts are overdue.  On a correct pdsh the slot of such a host is released only when its
command is gone (rcmd_destroy -> waitpid returns), so no later command ever sees more than `fanout` alive.
"""
import os
import subprocess
import time

HELPER = r"""#!/bin/sh
d=$1; h=$2
echo $$ > "$d/$h.pid"
k=0
for f in "$d"/*.pid; do
    p=$(cat "$f" 2>/dev/null) || continue
    [ -n "$p" ] && kill -0 "$p" 2>/dev/null && k=$((k+1))
done
echo "alive=$k"
case $h in
 s*) trap "" TERM; sleep 3 ;;
 z*) exec <&- >&- 2>&-; sleep 3 ;;
 *) : ;;
esac
rm -f "$d/$h.pid"
"""

RUNS = [
    # (fanout, hosts)
    (2, ["s0", "s1", "q2", "q3", "q4", "q5"]),
    (1, ["z0", "q1", "q2"]),
    (2, ["q0", "z1", "s2", "q3", "q4"]),
]


def run_part(ctx, cov, quick):
    summary = {"runs": [], "skipped": None}
    cov["real_exec_inflight"] = summary
    repo = ctx.repo_build()
    if not repo:
        return
    exe = os.path.join(repo, "src/pdsh/pdsh")
    helper = os.path.join(ctx.scratch, "c04alive.sh")
    with open(helper, "w") as f:
        f.write(HELPER)
    os.chmod(helper, 0o755)
    procs = []
    for idx, (fan, hosts) in enumerate(RUNS if not quick else RUNS[:2]):
        d = os.path.join(ctx.scratch, "alive%d" % idx)
        os.makedirs(d, exist_ok=True)
        argv = [exe, "-R", "exec", "-f", str(fan), "-u", "1", "-w", ",".join(hosts), helper, d, "%h"]
        procs.append((fan, hosts, argv, time.time(),
                      subprocess.Popen(argv, stdout=subprocess.PIPE, stderr=subprocess.PIPE, stdin=subprocess.DEVNULL,
                                       env={"PATH": "/usr/bin:/bin"}, cwd=ctx.scratch)))
    for fan, hosts, argv, t0, p in procs:
        try:
            out, err = p.communicate(timeout=90)
            rc = p.returncode
        except subprocess.TimeoutExpired:
            p.kill()
            out, err = p.communicate()
            rc = None
        out, err = out.decode("latin-1"), err.decode("latin-1")
        seen = {}
        for l in out.splitlines():
            if ": alive=" in l:
                h, k = l.split(": alive=")
                seen[h] = int(k)
        worst = max(seen.values()) if seen else 0
        summary["runs"].append({"fanout": fan, "hosts": hosts, "alive_seen": seen, "wall_s": round(time.time() - t0, 1),
                                "rc": rc})
        cov["evaluations"] += 1
        case = {"argv": argv[1:], "helper": HELPER, "stdout": out[-1200:], "stderr": err[-800:], "rc": rc,
                "how": "scratch build of pdsh, exec transport; each command counts the registered commands alive at its start"}
        if rc is None:
            ctx.offender("real:no-termination", "pdsh -R exec -f %d -u 1 did not end" % fan, case)
        elif set(seen) != set(hosts):
            ctx.offender("real:not-started", "pdsh -R exec -f %d -u 1: hosts %s never reported" %
                         (fan, sorted(set(hosts) - set(seen))), case)
        elif worst > fan:
            h = max(seen, key=seen.get)
            ctx.offender("real:inflight-exceeds-fanout", "pdsh -R exec -f %d -u 1: when %s started, %d remote commands "
                         "were alive (a host given up on after the command timeout released its slot before its command "
                         "was gone)" % (fan, h, worst), case)
    ctx.log("real exec in-flight part: %s" % [(r["fanout"], max(r["alive_seen"].values() or [0]), r["wall_s"])
                                               for r in summary["runs"]])
