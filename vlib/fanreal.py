"""C04, real part (supporting: real kernel, real threads, the exec transport of the scratch build): the number of remote
commands ALIVE at the same time never exceeds the fanout, also when hosts are given up on after the command
timeout.  Purely functional (counts, no wall-clock bounds): robust on a loaded machine.

Every command registers its pid in a directory, counts how many registered pids are alive (itself included) when it
starts, prints `alive=<k>` and then behaves as its host name says:
  q*   quick: exits at once
  s*   stubborn: ignores SIGTERM and lives 6 s (a command that survives being given up on -- by more than any
       short grace a transport might grant: it is given up on at ~2 s, so it outlives the SIGTERM by ~4 s)
  z*   closes stdin/stdout/stderr at once and lives 3 s (pdsh sees EOF; the teardown has to wait for it)
With `-u 1` the s* / z* hosts are overdue.  On a correct pdsh the slot of such a host is released only when its
command is gone (rcmd_destroy -> waitpid returns), so no later command ever sees more than `fanout` alive.
"""
import os
import subprocess
import time

HELPER = r"""#!/bin/sh
d=$1; h=$2
echo $$ > "$d/$h.pid"
k=0
for f in "$d"/*.pid; do
    p=$(cat "$f" 2>/dev/null) || continue
    [ -n "$p" ] && kill -0 "$p" 2>/dev/null && k=$((k+1))
done
echo "alive=$k"
case $h in
 s*) trap "" TERM; sleep 6 ;;
 z*) exec <&- >&- 2>&-; sleep 3 ;;
 *) : ;;
esac
rm -f "$d/$h.pid"
"""

RUNS = [
    # (fanout, hosts)
    (2, ["s0", "s1", "q2", "q3", "q4", "q5"]),
    (1, ["z0", "q1", "q2"]),
    (2, ["q0", "z1", "s2", "q3", "q4"]),
]


def run_part(ctx, cov, quick):
    summary = {"runs": [], "skipped": None}
    cov["real_exec_inflight"] = summary
    repo = ctx.repo_build()
    if not repo:
        return
    exe = os.path.join(repo, "src/pdsh/pdsh")
    helper = os.path.join(ctx.scratch, "c04alive.sh")
    with open(helper, "w") as f:
        f.write(HELPER)
    os.chmod(helper, 0o755)
    procs = []
    for idx, (fan, hosts) in enumerate(RUNS if not quick else RUNS[:2]):
        d = os.path.join(ctx.scratch, "alive%d" % idx)
        os.makedirs(d, exist_ok=True)
        argv = [exe, "-R", "exec", "-f", str(fan), "-u", "1", "-w", ",".join(hosts), helper, d, "%h"]
        procs.append((fan, hosts, argv, time.time(),
                      subprocess.Popen(argv, stdout=subprocess.PIPE, stderr=subprocess.PIPE, stdin=subprocess.DEVNULL,
                                       env={"PATH": "/usr/bin:/bin"}, cwd=ctx.scratch)))
    for fan, hosts, argv, t0, p in procs:
        try:
            out, err = p.communicate(timeout=90)
            rc = p.returncode
        except subprocess.TimeoutExpired:
            p.kill()
            p.communicate()
            # once more, alone, before anything is said about it (loaded machine)
            time.sleep(7)                   # the commands of the killed run live 6 s at most
            for fn in os.listdir(argv[-2]):
                os.unlink(os.path.join(argv[-2], fn))
            t0 = time.time()
            p = subprocess.Popen(argv, stdout=subprocess.PIPE, stderr=subprocess.PIPE, stdin=subprocess.DEVNULL,
                                 env={"PATH": "/usr/bin:/bin"}, cwd=ctx.scratch)
            try:
                out, err = p.communicate(timeout=120)
                rc = p.returncode
            except subprocess.TimeoutExpired:
                p.kill()
                out, err = p.communicate()
                rc = None
        out, err = out.decode("latin-1"), err.decode("latin-1")
        seen = {}
        for l in out.splitlines():
            if ": alive=" in l:
                h, k = l.split(": alive=")
                seen[h] = int(k)
        worst = max(seen.values()) if seen else 0
        summary["runs"].append({"fanout": fan, "hosts": hosts, "alive_seen": seen, "wall_s": round(time.time() - t0, 1),
                                "rc": rc})
        cov["evaluations"] += 1
        case = {"argv": argv[1:], "helper": HELPER, "stdout": out[-1200:], "stderr": err[-800:], "rc": rc,
                "how": "scratch build of pdsh, exec transport; each command counts the registered commands alive at its start"}
        if rc is None:
            ctx.offender("real:no-termination", "pdsh -R exec -f %d -u 1 did not end" % fan, case)
        elif set(seen) != set(hosts):
            ctx.offender("real:not-started", "pdsh -R exec -f %d -u 1: hosts %s never reported" %
                         (fan, sorted(set(hosts) - set(seen))), case)
        elif worst > fan:
            h = max(seen, key=seen.get)
            ctx.offender("real:inflight-exceeds-fanout", "pdsh -R exec -f %d -u 1: when %s started, %d remote commands "
                         "were alive (a host given up on after the command timeout released its slot before its command "
                         "was gone)" % (fan, h, worst), case)
    ctx.log("real exec in-flight part: %s" % [(r["fanout"], max(r["alive_seen"].values() or [0]), r["wall_s"])
                                               for r in summary["runs"]])


# ------------------------------------------------------------------------------------------------------------------
# C03, real part: pdsh started with stdin CLOSED (cron / daemon context, `pdsh ... <&-`).  Descriptor 0 is free, so the
# first connection of the run (and, at fanout 1, every connection) gets descriptor number 0: rcmd_connect() == 0 is a
# SUCCESS.  Every target must still get its command exactly once and have its complete output relayed, and pdsh must
# end.  Purely functional (counts; a generous hard limit only decides "does not end").
CLOSED_HELPER = r"""#!/bin/sh
h=$1; n=$2
i=0
while [ $i -lt $n ]; do echo "line-$h-$i-xxxxxxxxxxxxxxxxxxxxxxxxxxxxxxxxxxxxxxxxxxxxxxxxxxxxxxxxxxxxxxxxxxxxxxxxxxxxxxxx"; i=$((i+1)); done
echo "end-$h"
"""
CLOSED_RUNS = [
    # (fanout, hosts, lines per host)
    (1, ["a0", "a1", "a2"], 1),
    (3, ["b0", "b1", "b2", "b3"], 2),
    (1, ["c0", "c1"], 3000),          # ~300 kB per host: more than a socket buffer
]


def run_closed_one(ctx, exe, helper, run, limit=25):
    """one run; a run that does not end within the limit is tried once more, alone and with a longer limit, before
    anything is said about it (loaded machine)"""
    case, offs = _run_closed_once(ctx, exe, helper, run, limit)
    if case["rc"] is None and limit < 90:
        case, offs = _run_closed_once(ctx, exe, helper, run, 90)
        case["retried_after_timeout"] = True
    return case, offs


def _run_closed_once(ctx, exe, helper, run, limit):
    fan, hosts, nlines = run
    argv = [exe, "-R", "exec", "-f", str(fan), "-w", ",".join(hosts), helper, "%h", str(nlines)]
    t0 = time.time()
    p = subprocess.Popen(argv, stdout=subprocess.PIPE, stderr=subprocess.PIPE, env={"PATH": "/usr/bin:/bin"},
                         cwd=ctx.scratch, close_fds=True, preexec_fn=lambda: os.close(0))
    try:
        out, err = p.communicate(timeout=limit)
        rc = p.returncode
    except subprocess.TimeoutExpired:
        p.kill()
        out, err = p.communicate()
        rc = None
    out, err = out.decode("latin-1"), err.decode("latin-1")
    lines = out.splitlines()
    per = {h: (sum(1 for l in lines if l.startswith("%s: line-%s-" % (h, h))), lines.count("%s: end-%s" % (h, h)))
           for h in hosts}
    case = {"real_closed": [fan, hosts, nlines], "argv": argv[1:], "stdin": "closed (os.close(0) before exec)",
            "helper": CLOSED_HELPER, "rc": rc, "per_host(lines,end)": per, "stderr": err[-600:],
            "wall_s": round(time.time() - t0, 1),
            "how": "scratch build of pdsh, exec transport, started with descriptor 0 closed"}
    offs = []
    if rc is None:
        offs.append(("real:closed-stdin:no-termination", "pdsh -R exec -f %d started with stdin closed did not end within "
                     "%d s; relayed so far per host (lines, end marker): %s" % (fan, limit, per)))
    else:
        bad = {h: v for h, v in per.items() if v != (nlines, 1)}
        if bad:
            offs.append(("real:closed-stdin:output-lost", "pdsh -R exec -f %d started with stdin closed: each host prints "
                         "%d lines and an end marker; relayed (lines, end marker) %s; rc=%s stderr=%r" %
                         (fan, nlines, bad, rc, err[-200:])))
        elif rc != 0:
            offs.append(("real:closed-stdin:rc", "pdsh -R exec -f %d started with stdin closed: rc=%s stderr=%r" %
                         (fan, rc, err[-200:])))
    return case, offs


def run_closed_stdin(ctx, cov, only=None):
    summary = {"runs": []}
    cov["real_exec_stdin_closed"] = summary
    repo = ctx.repo_build()
    if not repo:
        return
    exe = os.path.join(repo, "src/pdsh/pdsh")
    helper = os.path.join(ctx.scratch, "c03closed.sh")
    with open(helper, "w") as f:
        f.write(CLOSED_HELPER)
    os.chmod(helper, 0o755)
    for run in ([tuple(only)] if only else CLOSED_RUNS):
        case, offs = run_closed_one(ctx, exe, helper, run)
        cov["evaluations"] += 1
        summary["runs"].append({"fanout": run[0], "hosts": run[1], "lines": run[2], "rc": case["rc"],
                                "wall_s": case["wall_s"], "ok": not offs})
        for sig, what in offs:
            ctx.offender(sig, what, case)
    ctx.log("real exec part, pdsh started with stdin closed (first connection gets descriptor 0): %s" %
            [(r["fanout"], r["lines"], r["rc"], r["wall_s"], r["ok"]) for r in summary["runs"]])
