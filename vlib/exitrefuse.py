"""C08 / C18: every refusal path of main() / opt.c / module loading / dsh()'s prologue on the REAL binary.

model:   Dsh/ExitRefuse.lean (`Refusal`, `Info`, their endings and statuses; `pdshmodel exit model <bits>`, ops `refusals`,
         `outcome NAME`), tied to the source by harness/consts/exitsites.c (Gen/Exitsites.lean) and the theorems
         C08.every_refusal_exits_1 / exit_sites_all_mapped / battery_agrees / every_refusal_probed
real:    one or more command lines per refusal path through the scratch-built pdsh / pdcp / rpdcp; the "remote command"
         leaves a trace file, so "before anything is contacted" is observable
oracle:  a refusal must exit 1 (property C08), with a diagnostic, and nothing may have been contacted (property C18)
"""
import os
import re
import shutil
import subprocess

from vlib.common import LEAN_DIR

U = "u" * 300


def real_cases(scratch, repo, have_testmods):
    """[(refusal | info name, label, dict(argv=[...], env={}, pers=, uid=, argv0=, cwd=, setup=callable))]
    `@T` in argv stands for the trace file the remote command would create"""
    ex = ["-R", "exec", "-w", "h0"]
    cmd = ["/usr/bin/touch" if os.path.exists("/usr/bin/touch") else "/bin/touch", "@T"]
    C = lambda name, label, argv, **kw: (name, label, dict(dict(argv=argv, env={}, pers="pdsh"), **kw))
    out = [
        C("envNumber", "FANOUT not a number", ex + cmd, env={"FANOUT": "x"}),
        C("envNumber", "PDSH_CONNECT_TIMEOUT with trailing text", ex + cmd, env={"PDSH_CONNECT_TIMEOUT": "1x"}),
        C("envNumber", "PDSH_COMMAND_TIMEOUT empty", ex + cmd, env={"PDSH_COMMAND_TIMEOUT": ""}),
        C("optNumber", "-f not a number", ex + ["-f", "x"] + cmd),
        C("optNumber", "-t with trailing text", ["-R", "rsh", "-w", "h0", "-t", "1x"] + cmd),
        C("optNumber", "-u empty", ex + ["-u", ""] + cmd),
        C("userTooLong", "-l over-long", ex + ["-l", U] + cmd),
        C("userTooLong", "user@ over-long", ["-R", "exec", "-w", U + "@h0"] + cmd),
        C("usage", "unknown option", ex + ["-J"] + cmd),
        C("usage", "-h", ex + ["-h"] + cmd),
        C("usage", "missing option argument", ["-S", "-k", "-R", "exec", "-w", "h0", "-f"]),
        C("usage", "option of the other personality", ex + ["-e", "/x"] + cmd),
        C("hostSpec", "malformed -w word", ["-R", "exec", "-w", "bob@exec:h0"] + cmd),
        C("hostSpec", "unknown transport in a -w word", ["-R", "exec", "-w", "nosuchrcmd:h0"] + cmd),
        # a target word that does not parse is refused, not dropped (the other word would run and the exit status be 0)
        C("hostSpec", "-w word that does not parse, next to a good one", ["-S", "-R", "exec", "-w", "h0,a[1"] + cmd),
        C("hostSpec", "-w word that only fails to parse after its first expansion (more than 10240 ranges)",
          ["-S", "-R", "exec", "-w", "h0,a[1-2]b[" + ",".join(str(2 * i) for i in range(10300)) + "]"] + cmd),
        C("wcollFile", "unreadable target file", ["-R", "exec", "-w", "^/nonexistent/file"] + cmd),
        C("unknownRcmd", "-R unknown", ["-w", "h0", "-R", "nosuchrcmd"] + cmd),
        C("unknownRcmd", "PDSH_RCMD_TYPE unknown", ["-w", "h0"] + cmd, env={"PDSH_RCMD_TYPE": "nosuchrcmd"}),
        C("progName", "program called something else", ex + cmd, argv0="frobnicate"),
        C("verify", "no targets", ["-S", "-R", "exec"] + cmd),
        C("verify", "no targets, -k", ["-k", "-R", "exec"] + cmd),
        C("verify", "negative command time-out", ex + ["-u", "-1"] + cmd),
        C("verify", "negative connect time-out", ["-R", "rsh", "-w", "h0", "-t", "-1"] + cmd),
        C("verify", "fanout 0", ex + ["-f", "0"] + cmd),
        C("verify", "exec refuses a connect time-out (module post-option check)", ex + ["-S", "-t", "3"] + cmd),
        C("verify", "copy without files", ["-w", "h0"], pers="pdcp"),
        C("verify", "copy with -y", ["-w", "h0", "-y", "/etc/passwd", "/tmp"], pers="pdcp"),
        C("verify", "copy of a directory without -r", ["-w", "h0", "/etc", "/tmp"], pers="pdcp"),
        C("verify", "reverse copy into a file", ["-w", "h0", "x", "/etc/passwd"], pers="rpdcp"),
        C("listModules", "-L", ["-L"]),
        C("version", "-V", ["-V"]),
        C("settings", "-q", ex + ["-q"] + cmd),
    ]
    # module loading (uid 1000: PDSH_MODULE_DIR is ignored for root)
    empty = os.path.join(scratch, "c08mods_empty")
    os.makedirs(empty, exist_ok=True)
    os.chmod(empty, 0o755)
    out.append(C("noModules", "module directory does not exist", ["-w", "h0"] + cmd,
                 env={"PDSH_MODULE_DIR": os.path.join(scratch, "c08mods_nonexistent")}, uid=1000))
    out.append(C("noModules", "module directory is empty", ["-w", "h0"] + cmd, env={"PDSH_MODULE_DIR": empty}, uid=1000))
    if have_testmods:
        moddir = os.path.join(repo, "tests/test-modules/.libs")
        # dsh(): no transport module at all -> rcmd_init fails
        only = os.path.join(scratch, "c08mods_misc_only")
        os.makedirs(only, exist_ok=True)
        for f in os.listdir(moddir):
            if f.startswith("a.so"):
                shutil.copy(os.path.join(moddir, f), os.path.join(only, f))
        os.chmod(only, 0o755)
        out.append(C("rcmdInit", "no transport module loaded", ["-w", "h0"] + cmd, env={"PDSH_MODULE_DIR": only}, uid=1000))
        # dsh(): the list of files to copy cannot be built
        w = os.path.join(scratch, "c08copylist")
        shutil.rmtree(w, ignore_errors=True)
        os.makedirs(os.path.join(w, "locked", "sub"))
        os.makedirs(os.path.join(w, "h0"))
        open(os.path.join(w, "locked", "sub", "f"), "w").write("x\n")
        subprocess.run(["chown", "-R", "1000:1000", w])
        os.chmod(os.path.join(w, "locked", "sub"), 0)
        out.append(C("copyList", "a source directory that cannot be read", ["-R", "pcptest", "-r", "-w", "h0", "locked", "dst"],
                     pers="pdcp", env={"PDSH_MODULE_DIR": moddir}, uid=1000, cwd=w))
    return out


def battery_models():
    """the outcomes the generated probe battery (Gen/Exitsites.lean) exercises"""
    try:
        src = open(os.path.join(LEAN_DIR, "PdshVerif", "Gen", "Exitsites.lean")).read()
    except OSError:
        return set(), None
    m = re.search(r"def XS_BATTERY[^\n]*:= \[(.*)\]\n", src)
    names = set(re.findall(r'\("[^"]*", "([^"]*)", "[^"]*", \d+\)', m.group(1))) if m else set()
    t = re.search(r"def XS_TOTAL : Nat := (\d+)", src)
    return names, (int(t.group(1)) if t else None)


def run_one(bins, scratch, idx, spec):
    trace = os.path.join(scratch, "c08refused_%d" % idx)
    if os.path.exists(trace):
        os.remove(trace)
    exe = bins[spec["pers"]]
    argv0 = spec.get("argv0") or exe
    argv = [argv0] + [trace if a == "@T" else a for a in spec["argv"]]
    env = dict({"PATH": "/usr/bin:/bin"}, **spec["env"])
    kw = {}
    if spec.get("uid") is not None:
        kw = dict(user=spec["uid"], group=spec["uid"], extra_groups=[])
    rc, err_ = None, "TIMEOUT"
    for attempt in (0, 1):          # a time-out alone is tried once more before it is reported
        try:
            p = subprocess.run(argv, executable=exe, stdin=subprocess.DEVNULL, stdout=subprocess.PIPE, stderr=subprocess.PIPE,
                               env=env, timeout=25, cwd=spec.get("cwd"), **kw)
            rc, err_ = p.returncode, p.stderr.decode("utf-8", "replace")[-300:]
            break
        except subprocess.TimeoutExpired:
            continue
    return rc, err_, os.path.exists(trace), argv


def run(ctx, repo, bits, dist, cov, distinct, only=None):
    d = os.path.join(repo, "src", "pdsh")
    for n in ("pdcp", "rpdcp"):
        if not os.path.lexists(os.path.join(d, n)):
            os.symlink("pdsh", os.path.join(d, n))
    bins = {n: os.path.join(d, n) for n in ("pdsh", "pdcp", "rpdcp")}
    os.chmod(ctx.scratch, 0o755)
    q = subprocess.run("make a.la pcptest.la >/dev/null 2>&1", shell=True, cwd=os.path.join(repo, "tests/test-modules"))
    have = q.returncode == 0 and os.path.exists(os.path.join(repo, "tests/test-modules/.libs/pcptest.so"))
    cases = real_cases(ctx.scratch, repo, have)
    if only is not None:
        cases = [c for c in cases if c[1] == only]
    names = ctx.model("exit", "refusals\n", args=["model", bits])[0].split(",")
    stat = dict(zip([c[0] for c in cases],
                    ctx.model("exit", "".join("outcome %s\n" % c[0] for c in cases), args=["model", bits])))
    dist.setdefault("refusal_paths", {})
    for idx, (name, label, spec) in enumerate(cases):
        rc, err_, contacted, argv = run_one(bins, ctx.scratch, idx, spec)
        cov["evaluations"] += 1
        dist["cli_refused"] = dist.get("cli_refused", 0) + 1
        dist["refusal_paths"][name] = dist["refusal_paths"].get(name, 0) + 1
        distinct.add(("refusal", label))
        short = [os.path.basename(a) if a.startswith("/") and len(a) > 40 else (a[:20] + "..." if len(a) > 60 else a) for a in argv]
        case = {"refusal": name, "refusal_label": label, "argv": short, "env": spec["env"], "exit": rc, "stderr": err_[-200:],
                "uid": spec.get("uid"), "contacted": contacted}
        if rc is None:
            ctx.offender("timeout", "pdsh did not finish within 25 s on a command line it must refuse (%s)" % label, case)
            continue
        if rc < 0:
            ctx.offender("crash", "pdsh killed by signal %d (%s)" % (-rc, label), case)
            continue
        m = stat.get(name, "unknown")
        if m != "status %d" % rc:
            ctx.disagreement("exit model (refusal paths) vs pdsh binary", "%s (%s): exit %d, model `%s`" % (name, label, rc, m), case)
        if name in names:       # a refusal (not an information-only ending): the property's clauses
            if rc != 1:
                ctx.offender("refused-not-1", "%s: %s: refused arguments must exit 1, got %d" % (spec["pers"], label, rc), case)
            elif not err_.strip():
                ctx.offender("refused-without-diagnostic", "%s: %s: refused (exit 1) without a diagnostic" % (spec["pers"], label), case)
            if contacted:
                ctx.offender("refused-but-contacted", "%s: %s: the command line was refused (exit %d) but the remote command "
                             "had already been run" % (spec["pers"], label, rc), case)
    if only is None:
        probed, total = battery_models()
        dist["exit_sites_total"] = total
        covered = {c[0] for c in cases} | probed
        missing = [n for n in names if n not in covered]
        unreal = [n for n in names if n not in {c[0] for c in cases}]
        dist["refusals_only_in_probe"] = unreal
        if missing:
            ctx.broken.append(("C-BROKEN", "generator coverage", "refusal paths of the model that no real run and no probe entry "
                               "exercises: %s" % missing))
