"""C20 supporting evidence: the real pdsh binary (scratch build of the tree being checked), `-R exec`, signalled with
SIGINT / SIGTSTP at chosen delays.  Wall-clock based, therefore lenient: a run whose timing cannot be trusted
(nothing had started when the signal arrived, everything had finished) is counted as inconclusive, not judged.

pdsh is started through a launcher that restores the default dispositions of SIGINT/SIGTSTP/SIGCHLD and an empty
signal mask (a non-interactive parent may have left SIGINT ignored); the command is harness/sig_helper.c, which
unblocks the signals it inherits blocked from pdsh and logs what happens to it."""
import concurrent.futures
import os
import re
import signal
import subprocess
import sys
import time

from vlib.common import HARNESS

LAUNCH = ("import os,signal,sys\n"
          "for s in (signal.SIGINT, signal.SIGTSTP, signal.SIGCHLD):\n"
          "    signal.signal(s, signal.SIG_DFL)\n"
          "signal.pthread_sigmask(signal.SIG_SETMASK, set())\n"
          "os.execv(sys.argv[1], sys.argv[1:])\n")
NH, FAN, SECS = 3, 2, 2.5


def build_helper(ctx):
    exe = os.path.join(ctx.scratch, "sig_helper")
    p = subprocess.run(["gcc", "-O1", "-w", os.path.join(HARNESS, "sig_helper.c"), "-o", exe], stderr=subprocess.PIPE)
    return exe if p.returncode == 0 else None


def run_one(pdsh, helper, scratch, idx, kind, delay, gap):
    """kind: batch-int | int | int-int | int-tstp.  -> observation dict"""
    log = os.path.join(scratch, "siglog-%d.txt" % idx)
    if os.path.exists(log):
        os.unlink(log)
    args = (["-b"] if kind == "batch-int" else []) + ["-R", "exec", "-f", str(FAN), "-w", "h[0-%d]" % (NH - 1),
                                                       helper, log, "%h", str(SECS)]
    p = subprocess.Popen([sys.executable, "-c", LAUNCH, pdsh] + args, stdin=subprocess.DEVNULL, stdout=subprocess.PIPE,
                         stderr=subprocess.PIPE, env={"PATH": "/usr/bin:/bin"})
    time.sleep(delay)
    t_sig = time.time()
    p.send_signal(signal.SIGINT)
    if kind in ("int-int", "int-tstp"):
        time.sleep(gap)
        p.send_signal(signal.SIGINT if kind == "int-int" else signal.SIGTSTP)
    try:
        out, err = p.communicate(timeout=25)
        rc = p.returncode
    except subprocess.TimeoutExpired:
        p.kill()
        out, err = p.communicate()
        rc = None
    t_end = time.time()
    time.sleep(0.2)
    lines = open(log).read().split("\n") if os.path.exists(log) else []
    ev, when = {}, {}
    for l in lines:
        t = l.split(" ")
        if len(t) == 3:
            ev.setdefault(t[0], []).append(t[1])
            when[(t[0], t[1])] = float(t[2])
    return {"kind": kind, "delay": delay, "gap": gap, "rc": rc, "stdout": out.decode("utf-8", "replace"),
            "stderr": err.decode("utf-8", "replace"), "log": ev, "when": when, "t_sig": t_sig,
            "after_signal_s": round(t_end - t_sig, 2)}


def judge(o):
    """-> (list of (signature, what), conclusive: bool)"""
    out = []
    hosts = ["h%d" % i for i in range(NH)]
    first, rest = hosts[:FAN], hosts[FAN:]
    ev = o["log"]
    if o["rc"] is None:
        return [("real:timeout", "pdsh did not end within 25 s after %s" % o["kind"])], True
    # the scenario is only meaningful if exactly the first FAN hosts were running when the signal arrived
    w, ts = o["when"], o["t_sig"]
    for h in first:
        if (h, "start") not in w or w[(h, "start")] > ts - 0.05 or ((h, "done") in w and w[(h, "done")] < ts + 0.4):
            return out, False
    for h in rest:
        if (h, "start") in w and w[(h, "start")] < ts + 0.4:
            return out, False
    listed = set(re.findall(r": (h\d+): (?:command in progress|connecting)", o["stderr"]))
    if o["kind"] in ("batch-int", "int-int"):
        if o["rc"] == 0:
            out.append(("real:exit-zero-on-abort", "%s: pdsh exited 0" % o["kind"]))
        if o["after_signal_s"] > SECS:
            out.append(("real:abort-not-prompt", "%s: pdsh ended %.1f s after the interrupt" % (o["kind"], o["after_signal_s"])))
        miss = [h for h in first if "INT" not in ev.get(h, []) and "done" not in ev.get(h, [])]
        if miss:
            out.append(("real:not-forwarded", "%s: running command(s) on %s got no SIGINT" % (o["kind"], miss)))
        if any("TERM" in ev.get(h, []) for h in hosts):
            out.append(("real:wrong-signal", "%s: a command got SIGTERM" % o["kind"]))
        if o["kind"] == "batch-int" and listed:
            out.append(("real:batch-listed", "-b: the interrupt was answered with a listing"))
    elif o["kind"] == "int":
        if o["rc"] != 0:
            out.append(("real:single-int-rc", "single ^C: pdsh exited %s" % o["rc"]))
        if any("INT" in ev.get(h, []) for h in hosts):
            out.append(("real:single-int-forwarded", "single ^C: a command got SIGINT"))
        if not all(("%s: %s done" % (h, h)) in o["stdout"] for h in hosts):
            out.append(("real:single-int-output", "single ^C: output incomplete: %r" % o["stdout"][:200]))
        if "one more within" in o["stderr"] and listed != set(first):
            out.append(("real:listing", "single ^C: listed %s, running were %s" % (sorted(listed), first)))
        if "one more within" not in o["stderr"]:
            out.append(("real:no-notice", "single ^C: no notice on stderr"))
    elif o["kind"] == "int-tstp":
        m = re.search(r"Canceled (\d+) pending threads", o["stderr"])
        if not m:
            out.append(("real:no-cancel", "^C ^Z within %.2f s: nothing was canceled" % o["gap"]))
        else:
            if int(m.group(1)) != len(rest):
                out.append(("real:cancel-count", "^C ^Z: reported %s canceled, %d were pending" % (m.group(1), len(rest))))
            if any("start" in ev.get(h, []) for h in rest):
                out.append(("real:canceled-started", "^C ^Z: canceled host(s) %s were started" %
                            [h for h in rest if "start" in ev.get(h, [])]))
        if not all(("%s: %s done" % (h, h)) in o["stdout"] for h in first):
            out.append(("real:cancel-hit-running", "^C ^Z: running hosts did not complete: %r" % o["stdout"][:200]))
        if any("INT" in ev.get(h, []) for h in hosts):
            out.append(("real:cancel-forwarded", "^C ^Z: a command got SIGINT"))
    return out, True


def run_all(ctx, pdsh, helper, n):
    rng = ctx.rng
    jobs = []
    kinds = ["batch-int", "int", "int-int", "int-tstp"]
    for i in range(n):
        kind = kinds[i % 4]
        jobs.append((i, kind, round(rng.uniform(0.5, 1.4), 2), round(rng.uniform(0.05, 0.3), 2)))
    with concurrent.futures.ThreadPoolExecutor(max_workers=4) as ex:
        return list(ex.map(lambda j: run_one(pdsh, helper, ctx.scratch, *j), jobs))
