"""C08: the real binary started with SIGCHLD inherited as IGNORED (what `trap '' CHLD`, nohup-like launchers and some
daemons / cron wrappers leave behind: an ignored disposition survives exec).

Then the kernel reaps every child by itself, waitpid() in pipecmd_wait (src/common/pipecmd.c) fails with ECHILD, the
status word stays 0 and exec_destroy / sshcmd_destroy report "returned 0" whatever the command did:
`pdsh -S -R exec` exits 0 for a command that returned 3 or was killed, and -k does not fire
(finding C08-SIGCHLD-IGNORED-STATUS-LOST, proposed repair findings/C08-SIGCHLD-IGNORED.patch: dsh() restores the
default disposition before it starts anything).

The model mirrors this behind a PROBED switch: whether the tree under check contains the repair is decided by one
probe run; without it the wait status handed to exec_destroy is 0 (`we0`), with it the command's real status.
Pinned cases, every quick run: {-S, -k, -S -k} x {code 3, killed by signal 9}, a succeeding control, two targets.
"""
import concurrent.futures
import re
import subprocess
import sys

LAUNCH = "import os, signal, sys; signal.signal(signal.SIGCHLD, signal.SIG_IGN); os.execv(sys.argv[1], sys.argv[1:])"


def cases():
    out = []
    for S, k in ((1, 0), (0, 1), (1, 1)):
        out.append({"S": S, "k": k, "hosts": ["e3"]})
        out.append({"S": S, "k": k, "hosts": ["s9"]})
    out.append({"S": 1, "k": 0, "hosts": ["e0"]})
    out.append({"S": 1, "k": 0, "hosts": ["e0", "e255"]})
    out.append({"S": 0, "k": 0, "hosts": ["e3"]})
    return out


def argv_of(pdsh, helper, c):
    n = len(c["hosts"])
    return [sys.executable, "-c", LAUNCH, pdsh] + (["-S"] if c["S"] else []) + (["-k"] if c["k"] else []) + \
        ["-f", "32", "-R", "exec", "-w", "h0" if n == 1 else "h[0-%d]" % (n - 1), helper, "%n"] + ["o-:" + h for h in c["hosts"]]


def run_case(pdsh, helper, c):
    argv = argv_of(pdsh, helper, c)
    for attempt in (0, 1):
        try:
            p = subprocess.run(argv, stdin=subprocess.DEVNULL, stdout=subprocess.DEVNULL, stderr=subprocess.PIPE,
                               env={"PATH": "/usr/bin:/bin"}, timeout=40)
            return p.returncode, p.stderr.decode("utf-8", "replace")[-300:], argv
        except subprocess.TimeoutExpired:
            continue
    return None, "TIMEOUT", argv


def exit_of(ans):
    m = re.search(r"exit (\d+)$", ans)
    return int(m.group(1)) if m else None


def run(ctx, pdsh, helper, bits, dist, cov, distinct, only=None):
    # probe: does the tree under check keep the status of its children when SIGCHLD comes in ignored?
    prc, perr, _ = run_case(pdsh, helper, {"S": 1, "k": 0, "hosts": ["e7"]})
    repaired = prc == 7
    cov.setdefault("variant_detected", {})["sigchld_default_restored"] = repaired
    cs = cases() if only is None else [only]
    with concurrent.futures.ThreadPoolExecutor(max_workers=6) as ex:
        res = list(ex.map(lambda c: run_case(pdsh, helper, c), cs))
    mls = ["dsh %d %d 32 0 %s" % (c["S"], c["k"], ";".join("c1,o-,w%s,d0,t0" % (h if repaired else "e0") for h in c["hosts"]))
           for c in cs]
    mod = ctx.model("exit", "".join(l + "\n" for l in mls), args=["model", bits])
    sp_in = ["adm %d %d 0 %s %d" % (c["S"], c["k"], ",".join(c["hosts"]), r[0] if r[0] is not None and r[0] >= 0 else 999)
             for c, r in zip(cs, res)]
    spec = ctx.model("exit", "".join(l + "\n" for l in sp_in), args=["spec"])
    for c, (rc, errtxt, argv), ml, m, sp, spl in zip(cs, res, mls, mod, spec, sp_in):
        cov["evaluations"] += 1
        dist["cli_sigchld_ignored"] = dist.get("cli_sigchld_ignored", 0) + 1
        distinct.add(("chld", c["S"], c["k"], tuple(c["hosts"])))
        case = {"argv": ["python3", "-c", "<ignore SIGCHLD, exec>", "pdsh"] + argv[4:], "exit": rc, "stderr": errtxt[-200:],
                "spec_query": spl, "model_op": ml, "chld_case": c, "sigchld": "inherited as SIG_IGN"}
        if rc is None:
            ctx.offender("timeout", "pdsh started with SIGCHLD ignored did not finish within 40 s", case)
            continue
        if rc < 0:
            ctx.offender("crash", "pdsh killed by signal %d: %s" % (-rc, errtxt), case)
            continue
        if exit_of(m) != rc:
            ctx.disagreement("exit model vs pdsh binary (SIGCHLD inherited as ignored)", "exit %d, model `%s`" % (rc, m), case)
        if sp != "ok":
            flags = ("S" if c["S"] else "") + ("k" if c["k"] else "") or "plain"
            lost = "waitpid: No child processes" in errtxt
            ctx.offender("%s:sigchld-ignored:%s" % (flags, "status-lost" if lost and not repaired else "unexplained"),
                         "pdsh -%s -R exec started with SIGCHLD ignored, outcomes [%s], exits %d: not admitted by the specification "
                         "(%s)" % (flags, ",".join(c["hosts"]), rc, errtxt.strip().splitlines()[0][:120] if errtxt.strip() else ""), case)
