"""C20: the check procedure (corpus, exhaustive DFS with signals, a signal at every position, random cases).
Projection, monitors and generators are in vlib/sigcheck.py."""
import json
import os
import re

from vlib import sched, sigexec, sigphase, sigreal, sigthread
from vlib.sigcheck import (PLANS, SGN, SIGINT, SIGTSTP, TRUSTED, accept_all, analyse, detect_shutdown_form, detect_worker_form, explore_sig,
                           gen_case, offenders, pack, plan_signals, project_sig)


def assumptions(variant, wform="blind", sform="pinned"):
    return ["form of the shutdown of dsh() in the checked tree, detected by behaviour: %s (pinned = the watchdog touches no "
            "protocol object and runs on; stopwdog = the repair of F07-STALEID: the watchdog takes thd_mutex around each "
            "slot and dsh() cancels and joins it before it cancels the signals thread; model, acceptor and theorems cover "
            "both)" % sform,
            "form of the worker's first state write in the checked tree, detected by behaviour on the minimal "
            "lost-cancel schedule: %s (blind = `a->state = DSH_RCMD` as pinned, defect F20-LOSTCANCEL; guarded = the "
            "repair; model, acceptor and theorems cover both)" % wform,
            "POSIX semantics of pthread_mutex_lock/unlock, pthread_cond_wait/signal (spurious wake-ups allowed) and "
            "sigwait on blocked signals as modelled; a blocked standard signal is pending at most once (runs in which "
            "the harness would queue a second instance are outside the domain: by POSIX they equal the runs with one "
            "signal less)",
            "code between two wrapped calls of one thread is atomic (controlled-scheduler granularity: every "
            "pthread/libc call is a scheduling point, plain memory accesses are not): the check-then-write of "
            "_cancel_pending_threads and the unprotected re-read in _update_connect_state are atomic here",
            "pthread_cancel(thread_sig) is deferred in model and harness: the thread runs on and ends at a cancellation "
            "point (harness: sigwait only; model: any point of a handler, at the latest sigwait, so every C library is "
            "covered); the shutdown form `stopwdog` also stands for the join of the signals thread before dsh() returns "
            "(repair of F20-LATEINT): a tree that stops the watchdog but does not join the signals thread is rejected by "
            "the acceptor at `D return`; what happens after exit() was called (atexit/stdio flush racing with other "
            "threads) is a runtime behaviour outside model and harness",
            "fanout >= 1, -k off, pthread_create and rcmd_create succeed, the clock is past INTR_TIME at start, every "
            "command ends; connect/command timeouts off except in class timeouts/every-position (-u 2), whose runs are "
            "also followed by the LTS: it has the watchdog's lock / kill / unlock of thd_mutex and the read loop that is "
            "given up (W.lockTF, result DSH_FAILED) but not the watchdog's clock - when a time-out fires is the "
            "schedule's choice (C07 owns the deadlines)",
            "stdio: per-call atomicity (a call locks the FILE, copies, unlocks) is the modelled guarantee of the product "
            "model Dsh/SignalsOutput.lean; the check compares where dsh.c makes its stdio calls with the model's `emits`",
            "wait-for-room construct of the checked tree, detected by behaviour: %s (the C20 theorems hold for both)" % variant]


def small_configs(quick):
    """(name, case skeleton) of the small configurations whose traces get a signal at every position"""
    def H(i, t_out, conn_at=0, refuse=False, rc=0):
        h = {"name": "h%d" % i, "out": [[t_out, ("o%d-0\n" % i).encode().hex()], [t_out, "EOF"]]}
        if conn_at or refuse:
            h["connect"] = "refuse" if refuse else "ok"
            h["connect_at"] = conn_at
        if rc:
            h["rc"] = rc
        return h
    cfgs = [("n1f1", 1, [H(0, 1)]),
            ("n2f1", 1, [H(0, 1), H(1, 0, conn_at=1)]),
            ("n2f2", 2, [H(0, 2, conn_at=1), H(1, 1)]),
            ("n3f1", 1, [H(0, 0), H(1, 1), H(2, 0)]),
            ("n3f2", 2, [H(0, 2), H(1, 0, conn_at=1, rc=2), H(2, 1)])]
    if not quick:
        cfgs += [("n3f3", 3, [H(0, 1, conn_at=1), H(1, 2), H(2, 0, refuse=True)]),
                 ("n3f2r", 2, [H(0, 0, refuse=True), H(1, 1, conn_at=2), H(2, 1, rc=1)]),
                 ("n2f3", 3, [H(0, 3), H(1, 3, conn_at=2)])]
    out = []
    for name, f, hosts in cfgs:
        out.append((name, {"fanout": f, "hosts": hosts, "inline": 1, "budget": 3000, "tickrate": 60,
                           "opts": {"labels": 1, "S": 1, "ct": 0, "ut": 0, "tstates": 1, "batch": 0}}))
    return out


def corpus_cases():
    """schedules kept because they once mattered"""
    one = [{"name": "h0", "out": [[0, b"o0-0\n".hex()], [0, "EOF"]]}]
    two = one + [{"name": "h1", "out": [[0, b"o1-0\n".hex()], [0, "EOF"]]}]
    three = two + [{"name": "h2", "out": [[0, b"o2-0\n".hex()], [0, "EOF"]]}]
    opts = {"labels": 1, "ct": 0, "ut": 0, "tstates": 1, "batch": 0}
    base = {"inline": 1, "budget": 1500, "yield": "fan,thd,sig", "strategy": "list"}
    return [
        # ^C ^Z while worker 0 is created but has not yet marked itself RCMD: the blind worker (pinned source) then runs
        # all the same (F20-LOSTCANCEL), the repaired one goes to its epilogue; also the worker-form probe
        dict(base, fanout=1, hosts=one, opts=opts,
             choices="D D D D D D i2 Z Z Z i20 Z Z Z W0".split()),
        # all remaining slots canceled while the dispatcher waits for room: it must break out and drain
        dict(base, fanout=1, hosts=two, opts=opts,
             choices="D D D D D D D D W0 W0 W0 i2 Z Z Z i20 Z Z Z".split()),
        # dsh() cancels the signals thread in the middle of a handler (interrupt during the final drain)
        dict(base, fanout=1, hosts=one, opts=opts,
             choices="D D D D D D D D W0 W0 W0 W0 W0 W0 W0 W0 W0 W0 W0 W0 D W0 D D i2 Z D D D".split()),
        # ^C ^Z while h0 runs and two targets are undispatched (fanout 1 < N = 3): both are canceled, the dispatcher must
        # pass over them, release threadcount_mutex and drain; run to the end
        dict(base, fanout=1, hosts=three, opts=opts,
             choices="D D D D D D D D W0 W0 W0 W0 W0 W0 i2 Z Z Z i20 Z Z Z".split()),
        # the same with fanout 2 < N = 3 and h2 the only undispatched target; h0, h1 connecting / running
        dict(base, fanout=2, hosts=three, opts=opts,
             choices="D D D D D D D D D D D W0 W0 W0 W0 W1 W1 W1 i2 Z Z Z i20 Z Z Z".split()),
        # batch ^C before the first connection
        dict(base, fanout=1, hosts=two, opts=dict(opts, batch=1), choices="D D D i2 Z Z Z".split()),
        # a refused connect (the worker's failure path must still go through its epilogue), without and with ^C / -b ^C
        dict(base, fanout=1, hosts=[dict(one[0], connect="refuse")] + two[1:], opts=opts, choices=[]),
        dict(base, fanout=1, hosts=[dict(one[0], connect="refuse")] + two[1:], opts=opts, choices=[], signals=[[9, SIGINT]]),
        dict(base, fanout=2, hosts=[dict(one[0], connect="refuse")] + two[1:], opts=dict(opts, batch=1), choices=[],
             signals=[[14, SIGINT]]),
        # the first two again with the copy personality (workers are _rcp_thread)
        dict(base, fanout=1, hosts=one, opts=dict(opts, pers="pcp"),
             choices="D D D D D D i2 Z Z Z i20 Z Z Z W0".split()),
        dict(base, fanout=1, hosts=two, opts=dict(opts, pers="pcp"),
             choices="D D D D D D D D W0 W0 W0 i2 Z Z Z i20 Z Z Z".split()),
    ]


def timed(case):
    o = case.get("opts") or {}
    return bool(int(o.get("ct", 0)) or int(o.get("ut", 0)))


def base_key(case):
    return json.dumps([case["fanout"], case["hosts"], sorted((case.get("opts") or {}).items())], sort_keys=True)


def replay_case(ctx, exe, variant, wform, sform):
    rp = json.load(open(ctx.replay))
    case = (rp.get("case") or {}).get("case") or rp.get("case")
    if isinstance(rp.get("case"), dict) and rp["case"].get("scenario") and "sigthread" in str(rp["case"].get("harness")):
        offs, nsc, tdist = sigthread.run(ctx)
        for sig, what, c in offs:
            ctx.log("replay: %s %s" % (sig, what))
            ctx.offender(sig, what, c)
        if not offs:
            ctx.log("replay: all %d real-thread scenarios behave as the property says" % nsc)
        return
    if isinstance(rp.get("case"), dict) and rp["case"].get("scenario"):
        offs, nsc = sigexec.run(ctx)
        for sig, what, c in offs:
            ctx.log("replay: %s %s" % (sig, what))
            ctx.offender(sig, what, c)
        if not offs:
            ctx.log("replay: the exec module delivers the forwarded signal in all %d scenarios" % nsc)
        return
    if not isinstance(case, dict) or "hosts" not in case:
        for b in rp.get("broken", []):
            k = str(b[-1]).find(":: case=")
            if k >= 0:
                try:
                    case = json.loads(str(b[-1])[k + 8:])["case"]
                    break
                except ValueError:
                    pass
    if not isinstance(case, dict) or "hosts" not in case:
        ctx.log("replay: the file names no schedule; re-run the tier instead")
        return
    res = sched.run_case(exe, case, ctx.scratch)
    b = sched.run_case(exe, dict(case, strategy="uniform", choices=[], signals=[]), ctx.scratch)
    _, bf = offenders(b, None)
    offs, facts = offenders(res, (b["M"], bf["A"]) if b["M"] and "A" in bf and not timed(case) else None)
    if res["crash"] is None and not res["bug"] and facts["domain"]:
        bad = accept_all(ctx, [project_sig(res, variant, wform, sform)])[0]
        if bad is not None:
            ctx.disagreement("Signals LTS (%s, %s worker) vs dsh.c" % (variant, wform),
                             "projected trace line %d `%s`: %s" % (bad[0], bad[1], bad[2]), pack(res, facts))
    ctx.log("replay: monitors %s episodes %s" % (res["M"], facts.get("episodes")))
    for sig, what in offs:
        ctx.log("replay: %s %s" % (sig, what))
        ctx.offender(sig, what, pack(res, facts))
    if not offs:
        ctx.log("replay: the property holds on this schedule")


def run(ctx, PROPS, LEVEL):
    ctx.gen_consts(["dsh"])
    ctx.lean_build([PROPS, "pdshmodel"])
    ctx.audit(PROPS)
    exe_san = sched.build(ctx, san=True)
    exe = sched.build(ctx, san=False)
    cov = {"evaluations": 0, "distinct_nontrivial": 0, "samples": [],
           "rule": "one evaluation = one complete run of the unmodified dsh() (built from the working tree) under the "
                   "controlled scheduler with one schedule that also decides when SIGINT/SIGTSTP are delivered and when "
                   "the clock ticks.  (0) the real execcmd.c/pipecmd.c on real children; the real dsh.c on REAL threads and "
                   "REAL signals (kill(2)) with a gated transport and a settable clock (distribution.real_threads: single "
                   "^C, ^C ^C and ^C ^Z 0/1/2 s apart, -S, lone ^Z, -b, before the first connection, after the last "
                   "completion); (a) corpus schedules; (a2) deterministic situations reached by steering the "
                   "scheduler (distribution.situations): a host in each of the six phases at once with the watchdog or a "
                   "worker holding either mutex, 0..3 seconds on the clock between the first ^C and a second ^C / ^Z "
                   "(1 = exactly INTR_TIME), signals around every step of the shutdown tail, each with every signal plan, "
                   "with and without -b; (a3) ^C then ^C / ^Z with the first at every position and the second at every "
                   "distance on two tiny configurations; (a4) -u 2 with a hanging, a slow and a pending host: a signal at "
                   "every position while the watchdog times hosts out (the LTS follows: lock / kill / unlock of the "
                   "watchdog, read loop given up = W.lockTF); (b) exhaustive: state-hashed DFS over ALL schedules x ALL "
                   "delivery points x clock ticks of tiny configurations (distribution.dfs); (c) every position: for "
                   "each small configuration (N<=3) and base schedule the first signal of each plan (INT, INT-INT, "
                   "INT-TSTP, TSTP; with and without -b) is delivered at EVERY step of the trace, the second at a set of "
                   "distances (all distances 1..30 in the thorough tier for N<=2), the signals thread running eagerly "
                   "or interleaved at random; (d) random: random hosts (delayed/refused connects, delayed output, exit "
                   "codes), N<=8 (quick) / N<=24 (thorough), fanout 1..N+1, strategies uniform/PCT/starve/eager "
                   "dispatcher, scheduling granularity from protocol-only to every wrapped call, random delivery "
                   "steps; (e) thorough only, supporting: the scratch-built pdsh binary with -R exec and a helper command, "
                   "signalled with kill(2) (-b ^C, ^C, ^C^C, ^C^Z) at random delays, judged on exit status, stderr and the "
                   "helper's log.  Distinct = distinct projected event trace; non-trivial = the signals thread handled at "
                   "least one signal"}
    dist = {"plans": {}, "episodes": {}, "status": {}, "rejects": 0, "out_of_domain": 0, "dfs": [], "positions": [],
            "yield": {}, "N": {}, "batch": {"0": 0, "1": 0}, "shutdown_tail": {}}
    cov["distribution"] = dist
    variant, wform, sform = None, "blind", "pinned"
    if not (exe_san and exe):
        return variant, wform, sform, cov
    variant, probe = sched.detect_variant(exe, ctx.scratch)
    if variant is None:
        ctx.disagreement("fan variant probe", "the dispatcher neither re-waits nor creates after a spurious wake-up")
        variant = "while"
    cov["source_wait_construct"] = variant
    wform, wprobe = detect_worker_form(exe, ctx.scratch)
    if wform is None:
        ctx.disagreement("worker form probe", "after ^C ^Z canceled its slot the created worker neither connects (blind "
                         "write) nor goes to its epilogue (guarded write): " +
                         " | ".join(" ".join(ev) for _, ev in wprobe["steps"])[-700:])
        wform = "blind"
    cov["source_worker_state_write"] = wform
    sform, sprobe = detect_shutdown_form(exe, ctx.scratch)
    if sform is None:
        ctx.disagreement("shutdown form probe", "dsh() neither leaves the watchdog running without joining it (pinned) nor "
                         "joins it before it returns (F07-STALEID repair): M=%s" % (sprobe.get("M"),))
        sform = "pinned"
    cov["source_shutdown"] = sform
    ctx.log("wait-for-room construct of the tree (by behaviour): %s; worker's first state write: %s; shutdown: %s" % (variant, wform, sform))
    if ctx.replay:
        replay_case(ctx, exe_san, variant, wform, sform)
        cov["evaluations"] = 1
        cov["rule"] = "replay of one recorded schedule"
        return variant, wform, sform, cov

    rng = ctx.rng
    distinct = set()
    pending = []
    bases = {}
    newcount, kept, totals = [0], {}, {}

    def is_known(sig):
        return any(f["property"] == ctx.prop and f.get("status") == "open" and re.fullmatch(f["signature"], sig)
                   for f in ctx.findings.get("findings", []))

    def base_of(case):
        k = base_key(case)
        if k not in bases:
            b = sched.run_case(exe, dict(case, strategy="uniform", seed=7, choices=[], signals=[], spurious=None,
                                         **{"yield": "fan"}), ctx.scratch)
            bo, bf = offenders(b, None)
            for sig, what in bo:
                pending.append((len(b["steps"]), "signal-free:" + sig, what, b, bf))
                newcount[0] += 1
            bases[k] = (b["M"], bf["A"]) if b["M"] and "A" in bf else None
        return bases[k]

    def consume(results, plan=None):
        doms = []
        for r in results:
            ok = r["crash"] is None and not r["bug"]
            if ok and any(d["dup"] for d in analyse(r)["delivers"]):
                ok = False
                dist["out_of_domain"] += 1
            doms.append(ok)
        # (runs with a command time-out are followed by the LTS too: the watchdog's lock / kill / unlock and the read loop
        #  that is given up - `W.lockTF`, result DSH_FAILED - are in it; WHEN the watchdog acts is left to the schedule)
        batches = [project_sig(r, variant, wform, sform) if ok else None for r, ok in zip(results, doms)]
        ob = dist.setdefault("observations", {"stdio_calls_checked": 0, "listings_compared": 0, "watchdog_kills_inside_mutex": 0,
                                              "read_loops_given_up": 0})
        for b in batches:
            for l in b or ():
                if l.startswith("obs emit"):
                    ob["stdio_calls_checked"] += 1
                elif l.startswith("obs list"):
                    ob["listings_compared"] += 1
                elif l == "obs gkill":
                    ob["watchdog_kills_inside_mutex"] += 1
                elif l.endswith(" lockTF"):
                    ob["read_loops_given_up"] += 1
        idx = [i for i, b in enumerate(batches) if b is not None]
        verdicts = accept_all(ctx, [batches[i] for i in idx]) if idx else []
        for i, bad in zip(idx, verdicts):
            if bad is not None:
                dist["rejects"] += 1
                if dist["rejects"] <= 3:
                    ctx.disagreement("Signals LTS (%s, %s worker) vs dsh.c" % (variant, wform),
                                     "projected trace line %d `%s`: %s" % (bad[0], bad[1], bad[2]), pack(results[i]))
        for r, b in zip(results, batches):
            cov["evaluations"] += 1
            m = r["M"] or {}
            st = m.get("status", "crash")
            dist["status"][st] = dist["status"].get(st, 0) + 1
            # (with time-outs the clock decides which hosts are given up: no signal-free twin to compare with)
            offs, facts = offenders(r, None if timed(r["case"]) else base_of(r["case"]))
            for e in facts["episodes"]:
                k = "%s:%s:%s" % (SGN.get(e["sig"], e["sig"]), e["kind"],
                                  "exit" if e["exit"] is not None else "cancel" if e["cancel"] else
                                  "done" if e["completed"] else "open")
                dist["episodes"][k] = dist["episodes"].get(k, 0) + 1
            if b is not None and "ev Z die" in b:
                # shutdown tail: how the signals thread ended - in sigwait at once, or after running a handler to its end
                k = b.index("ev Z die")
                how = "at_once_in_sigwait" if b[k - 1] == "ev D cancelS" else "after_handler_ran_on"
                dist["shutdown_tail"][how] = dist["shutdown_tail"].get(how, 0) + 1
            if b is not None and facts["episodes"]:
                distinct.add(sched.trace_key(b))
                if len(cov["samples"]) < 4 and len(b) < 260 and len(facts["episodes"]) >= 2 and \
                        not any(s_["plan"] == plan for s_ in cov["samples"]):
                    cov["samples"].append({"plan": plan, "fanout": m.get("fanout"), "n": m.get("n"),
                                           "batch": (r["case"].get("opts") or {}).get("batch", 0),
                                           "schedule": " ".join(r["choices"]), "status": st, "code": m.get("code"),
                                           "episodes": facts["episodes"],
                                           "trace": [l[3:] for l in b if l.startswith("ev ")]})
            for sig, what in offs:
                if not is_known(sig):
                    newcount[0] += 1
                elif kept.get(sig, 0) >= 200:
                    totals[sig] = totals.get(sig, 0) + 1
                    continue
                kept[sig] = kept.get(sig, 0) + 1
                totals[sig] = totals.get(sig, 0) + 1
                pending.append((len(r["steps"]), sig, what, r, facts))

    def enough():
        return newcount[0] >= 40 or dist["rejects"] >= 200

    # (0) forwarding at the module level: the real execcmd.c / pipecmd.c on real children, efd as dsh.c keeps it
    xoffs, nsc = sigexec.run(ctx)
    cov["evaluations"] += nsc
    dist["execsig_scenarios"] = nsc
    dist["execsig_child_stopped_before"] = dict(sigexec.POINTS)
    ctx.log("exec module on real children: %d scenarios (signal while the forked child is before: %s)" %
            (nsc, ", ".join("%s x%d" % kv for kv in sorted(sigexec.POINTS.items()))))
    for sig, what, c in xoffs:
        newcount[0] += 1
        ctx.offender(sig, what, c)

    # (0b) real threads, real signals, no wall-clock race: the real dsh.c on a gated transport with a settable clock
    toffs, nts, tdist = sigthread.run(ctx)
    cov["evaluations"] += nts
    dist["real_threads"] = tdist
    for sig, what, c in toffs:
        newcount[0] += 1
        ctx.offender(sig, what, c)
    ctx.log("real threads and signals (gated transport): %d scenarios, %d not ok" %
            (nts, sum(1 for v in tdist.values() if v != "ok")))

    # (a) corpus
    consume(sched.run_many(exe_san, corpus_cases(), ctx.scratch), "corpus")

    # (a2) deterministic situations (vlib/sigphase.py): a host in each phase / a mutex held by the watchdog or a worker /
    #      the INTR_TIME boundary on the clock / the shutdown tail; the schedules are found by steering, not by chance
    dist["situations"] = {}
    pcs, prep = sigphase.phase_cases(exe, ctx.scratch, rng)
    for k, v in prep.items():
        dist["situations"][k] = v
        if v == "unreachable":
            # not an error by itself (a tree without the watchdog repair has no `cancel G`); what the tree does instead is
            # judged by the runs that do happen
            ctx.notes.append("situation `%s` not reachable by steering the scheduler in this tree" % k)
    byplan = {}
    for c in pcs:
        byplan.setdefault(c["_plan"], []).append(c)
        dist["plans"][c["_plan"]] = dist["plans"].get(c["_plan"], 0) + 1
        dist["batch"][str(c["opts"]["batch"])] += 1
    for plan, cs in byplan.items():
        # half of them under ASan/UBSan
        consume(sched.run_many(exe_san, cs[0::2], ctx.scratch) + sched.run_many(exe, cs[1::2], ctx.scratch), plan)
    ctx.log("deterministic situations: %d runs (%s)" % (len(pcs), ", ".join(
        "%s=%s" % (k, sum(v for kk, v in prep.items() if kk.startswith(k) and v != "unreachable"))
        for k in ("phases", "boundary", "drain"))))

    # (a3) ^C then ^C / ^Z: the first at every position, the second at every distance
    if not enough():
        prs = sigphase.pair_cases(exe, ctx.scratch, rng, ctx.quick())
        byplan = {}
        for c in prs:
            byplan.setdefault(c["_plan"], []).append(c)
            dist["plans"][c["_plan"]] = dist["plans"].get(c["_plan"], 0) + 1
            dist["batch"][str(c["opts"]["batch"])] += 1
            dist["situations"][c["_class"]] = dist["situations"].get(c["_class"], 0) + 1
        for plan, cs in byplan.items():
            for i in range(0, len(cs), 1500):
                if not enough():
                    consume(sched.run_many(exe, cs[i:i + 1500], ctx.scratch), plan)
        ctx.log("every pair of positions: %d runs" % len(prs))

    # (a4) interrupts while the watchdog is timing hosts out (-u 2: one host hangs, one is slow, one is pending): a signal
    #      at every position of the run, incl. between the watchdog's lock, its pthread_kill and its unlock
    if not enough():
        tcs = sigphase.timeout_cases(exe, ctx.scratch, rng)
        byplan = {}
        for c in tcs:
            byplan.setdefault(c["_plan"], []).append(c)
            dist["plans"][c["_plan"]] = dist["plans"].get(c["_plan"], 0) + 1
            dist["batch"][str(c["opts"]["batch"])] += 1
            dist["situations"][c["_class"]] = dist["situations"].get(c["_class"], 0) + 1
        for plan, cs in byplan.items():
            consume(sched.run_many(exe, cs, ctx.scratch), plan)
        ctx.log("interrupts during time-outs: %d runs" % len(tcs))

    # (b) exhaustive DFS: all schedules x all delivery points x ticks
    one = [{"name": "h0", "out": [[1, b"o0-0\n".hex()], [1, "EOF"]]}]
    two = [{"name": "h0", "out": [[0, b"o0-0\n".hex()], [0, "EOF"]]},
           {"name": "h1", "out": [[0, b"o1-0\n".hex()], [0, "EOF"]], "connect_at": 1}]
    far = [{"name": "h0", "out": [[3, b"o0-0\n".hex()], [3, "EOF"]]}]
    dfs = [("n1f1", 1, one, [SIGINT], 1), ("n1f1", 1, one, [SIGINT, SIGTSTP], 0)]
    if not ctx.quick():
        dfs += [("n1f1", 1, one, [SIGINT, SIGINT], 0), ("n1f1-slow", 1, far, [SIGINT, SIGINT], 0), ("n1f1-slow", 1, far, [SIGINT, SIGTSTP], 0),
                ("n1f1", 1, one, [SIGTSTP], 0), ("n2f1", 1, two, [SIGINT], 1), ("n2f1", 1, two, [SIGINT, SIGTSTP], 0),
                ("n2f2", 2, two, [SIGINT], 1), ("n2f2", 2, two, [SIGINT], 0), ("n2f2", 2, two, [SIGINT, SIGTSTP], 0),
                ("n2f1", 1, two, [SIGINT, SIGINT], 0)]
    for name, f, hosts, plan, batch in dfs:
        if enough():
            break
        basec = {"fanout": f, "hosts": hosts, "yield": "fan,thd,sig", "inline": 1, "budget": 2500,
                 "opts": {"labels": 1, "ct": 0, "ut": 0, "tstates": 1, "batch": batch}}
        buf = []

        def on(res):
            buf.append(res)
            if len(buf) >= 1200:
                consume(buf[:], "dfs")
                del buf[:]
        st = explore_sig(exe, ctx.scratch, basec, plan, on, max_runs=2500 if ctx.quick() else 250000, stop=enough)
        consume(buf, "dfs")
        st.update({"config": name, "plan": "-".join(SGN[x] for x in plan), "batch": batch})
        dist["dfs"].append(st)
        ctx.log("exhaustive %s plan=%s batch=%d: %d states, %d edges, %d runs, complete=%s" %
                (name, st["plan"], batch, st["states"], st["edges"], st["runs"], st["complete"]))
        if not st["complete"]:
            ctx.notes.append("DFS %s %s cut off at %d runs" % (name, st["plan"], st["runs"]))

    # (c) a signal at every position of the trace of each small configuration
    plans = [("int", 0), ("int", 1), ("int-int", 0), ("int-tstp", 0), ("tstp", 0)]
    if not ctx.quick():
        plans += [("int-int", 1), ("int-tstp-int", 0)]
    nseeds = 1 if ctx.quick() else 2
    for name, skel in small_configs(ctx.quick()):
        if enough():
            break
        n = len(skel["hosts"])
        cases = []
        for sd in range(nseeds):
            yl = ["fan,thd,sig,time", "all", "fan,thd,sig"][sd % 3]
            seed = rng.randrange(1, 1 << 30)
            b = sched.run_case(exe, dict(skel, strategy="uniform", seed=seed, signals=[], **{"yield": yl}), ctx.scratch)
            L = len(b["steps"])
            ch = b["choices"]
            for plan, batch in plans:
                sigs = PLANS[plan]
                opts = dict(skel["opts"], batch=batch)
                if len(sigs) == 1:
                    dqs = [[]]
                elif not ctx.quick() and n <= 2 and len(sigs) == 2:
                    dqs = [[d] for d in range(1, 31)]
                elif ctx.quick():
                    dqs = [[d] + [d + 9] * (len(sigs) - 2) for d in (1, 4, 12)]
                else:
                    dqs = [[d] + [d + 9] * (len(sigs) - 2) for d in (1, 2, 3, 5, 8, 11, 14, 18, 25)]
                for p in range(L + 1):
                    for dq in dqs:
                        pos, sl = p, [[p, sigs[0]]]
                        for d, sg in zip(dq, sigs[1:]):
                            pos += d
                            sl.append([pos, sg])
                        for mode in ("eager", "mixed"):
                            c = dict(skel, opts=opts, strategy="uniform", seed=rng.randrange(1, 1 << 30), signals=sl,
                                     choices=ch[:p] + (["Z"] * 40 if mode == "eager" else []), **{"yield": yl})
                            c["_plan"] = plan
                            cases.append(c)
            dist["positions"].append({"config": name, "yield": yl, "base_steps": L})
        for i in range(0, len(cases), 1500):
            if enough():
                break
            byplan = {}
            for c in cases[i:i + 1500]:
                byplan.setdefault(c["_plan"], []).append(c)
            for plan, cs in byplan.items():
                for c in cs:
                    dist["plans"][plan] = dist["plans"].get(plan, 0) + 1
                    dist["batch"][str(c["opts"]["batch"])] += 1
                consume(sched.run_many(exe, cs, ctx.scratch), plan)
        dist["positions"][-1]["runs"] = len(cases)
        ctx.log("every position %s: %d runs" % (name, len(cases)))

    # (d) random cases, random delivery steps
    nrand = 500 if ctx.quick() else 20000
    nmax = 8 if ctx.quick() else 24
    CH = 500 if ctx.quick() else 1500
    done = 0
    while done < nrand and not enough():
        cs = [gen_case(rng, nmax) for _ in range(min(CH, nrand - done))]
        done += len(cs)
        bs = sched.run_many(exe, [dict(c, signals=[]) for c in cs], ctx.scratch)
        consume(bs, "none")
        runs = {}
        for j, (c, b) in enumerate(zip(cs, bs)):
            plan = rng.choice(list(PLANS))
            c2 = dict(c, signals=plan_signals(rng, plan, len(b["steps"])))
            runs.setdefault(plan, []).append((j, c2))
            dist["plans"][plan] = dist["plans"].get(plan, 0) + 1
            dist["yield"][c["yield"]] = dist["yield"].get(c["yield"], 0) + 1
            dist["N"][str(len(c["hosts"]))] = dist["N"].get(str(len(c["hosts"])), 0) + 1
            dist["batch"][str(c["opts"]["batch"])] += 1
        for plan, lst in runs.items():
            # every fourth case under ASan/UBSan, the rest on the plain build (same sources)
            res = sched.run_many(exe_san, [c for j, c in lst if j % 4 == 0], ctx.scratch) + \
                sched.run_many(exe, [c for j, c in lst if j % 4], ctx.scratch)
            consume(res, plan)
        ctx.log("random cases: %d/%d" % (done, nrand))
    if enough():
        ctx.log("enough offending runs; exploration stopped early")

    # (e) supporting: the scratch-built pdsh binary with -R exec, signalled by kill(2) at random delays (thorough only)
    if not ctx.quick() and not enough():
        repo = ctx.repo_build()
        helper = sigreal.build_helper(ctx)
        if repo and helper:
            res = sigreal.run_all(ctx, os.path.join(repo, "src", "pdsh", "pdsh"), helper, 16)
            dist["real"] = {"runs": len(res), "inconclusive": 0, "kinds": {}}
            for o in res:
                cov["evaluations"] += 1
                offs, conclusive = sigreal.judge(o)
                dist["real"]["kinds"][o["kind"]] = dist["real"]["kinds"].get(o["kind"], 0) + 1
                if not conclusive:
                    dist["real"]["inconclusive"] += 1
                for sig, what in offs:
                    newcount[0] += 1
                    ctx.offender(sig, what, {"argv": "pdsh %s-R exec -f %d -w h[0-%d] sig_helper <log> %%h %s" %
                                             ("-b " if o["kind"] == "batch-int" else "", sigreal.FAN, sigreal.NH - 1,
                                              sigreal.SECS),
                                             "signals": o["kind"], "delay_s": o["delay"], "gap_s": o["gap"], "exit": o["rc"],
                                             "stderr": o["stderr"][-600:], "stdout": o["stdout"][-300:], "log": o["log"]})
            ctx.log("real pdsh -R exec: %d runs, %d inconclusive" % (len(res), dist["real"]["inconclusive"]))
        elif repo:
            ctx.notes.append("sig_helper did not compile; real-binary runs skipped")

    pending.sort(key=lambda t: t[0])
    seen = {}
    for _, sig, what, r, facts in pending:
        seen[sig] = seen.get(sig, 0) + 1
        if seen[sig] <= 40:
            ctx.offender(sig, what, pack(r, facts))
    for k, v in totals.items():
        seen[k] = max(seen.get(k, 0), v)
    cov["notes"] = list(ctx.notes)
    cov["distinct_nontrivial"] = len(distinct)
    cov["traces_validated_against_impl"] = cov["evaluations"] - dist["out_of_domain"]
    cov["offending_runs"] = dict(seen)
    return variant, wform, sform, cov
