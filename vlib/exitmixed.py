"""C08: the real binary with a REAL in-band transport next to exec, in one run.

harness/exit_inband_mod.c is an rcmd module ("inb") without a destroy method: the status of its targets can only come
back through the marker line the remote shell prints.  Every quick run mixes it with exec (out-of-band status) in both
roles -- default transport (-R) and per-target prefix (`-w inb:h1`) -- for every flag combination, so every decision of
dsh() that looks at the DEFAULT transport is made while some target is served by another one.  Also: one output line
longer than the 128 KiB relay buffer in front of the marker line (the status must survive it).
Run as uid 1000 with PDSH_MODULE_DIR (ignored for root).
"""
import concurrent.futures
import os
import shutil
import subprocess

from vlib.common import HARNESS, hexs

LONG = 140000


def build(ctx, repo):
    d = os.path.join(ctx.scratch, "c08mods_inb")
    shutil.rmtree(d, ignore_errors=True)
    os.makedirs(d)
    ex = os.path.join(repo, "src", "modules", ".libs", "execcmd.so")
    if not os.path.exists(ex):
        ctx.notes.append("mixed transports: no execcmd.so in the tree under check; skipped")
        return None
    shutil.copy(ex, os.path.join(d, "execcmd.so"))
    p = subprocess.run(["gcc", "-shared", "-fPIC", "-w", "-DHAVE_CONFIG_H", "-I" + repo, "-I" + repo + "/src/pdsh",
                        "-I" + repo + "/src/common", os.path.join(HARNESS, "exit_inband_mod.c"), "-o", os.path.join(d, "inb.so")],
                       stdout=subprocess.PIPE, stderr=subprocess.STDOUT)
    if p.returncode != 0:
        ctx.broken.append(("C-BROKEN", "in-band module build", p.stdout.decode("latin1")[-600:]))
        return None
    os.chmod(d, 0o755)
    for f in os.listdir(d):
        os.chmod(os.path.join(d, f), 0o644)
    return d


def cases():
    """[{S, k, default, hosts: [(transport, ("exited"|"killed", n), long_line?)], prefix_all}]"""
    out = []
    E, I = "exec", "inb"
    layouts = [[(E, ("exited", 0), False), (I, ("exited", 3), False)],
               [(I, ("exited", 0), False), (E, ("exited", 3), False)],
               [(I, ("killed", 9), False), (E, ("exited", 0), False)],
               [(I, ("exited", 0), False), (I, ("exited", 255), False), (E, ("exited", 0), False)],
               [(E, ("killed", 9), False), (I, ("exited", 0), False)]]
    for default in (E, I):
        for S, k in ((1, 0), (0, 1), (1, 1), (0, 0)):
            for hosts in layouts:
                out.append({"S": S, "k": k, "default": default, "hosts": hosts, "prefix_all": False})
    # every target named with its transport, the default being the OTHER one throughout
    out.append({"S": 1, "k": 0, "default": E, "hosts": [(I, ("exited", 7), False), (I, ("exited", 0), False)], "prefix_all": True})
    out.append({"S": 0, "k": 1, "default": E, "hosts": [(I, ("exited", 7), False), (I, ("exited", 0), False)], "prefix_all": True})
    out.append({"S": 1, "k": 0, "default": I, "hosts": [(E, ("exited", 7), False), (E, ("exited", 0), False)], "prefix_all": True})
    # a line longer than the relay buffer in front of the marker line
    for S, k, default in ((1, 0, I), (0, 1, I), (1, 0, E)):
        out.append({"S": S, "k": k, "default": default, "hosts": [(I, ("exited", 3), True), (E, ("exited", 0), False)],
                    "prefix_all": False})
    return out


def argv_of(pdsh, helper, c):
    n = len(c["hosts"])
    words = []
    for i, (tr, _, _) in enumerate(c["hosts"]):
        words.append(("%s:" % tr if (tr != c["default"] or c["prefix_all"]) else "") + "h%d" % i)
    argv = [pdsh] + (["-S"] if c["S"] else []) + (["-k"] if c["k"] else []) + \
           ["-f", "32", "-R", c["default"], "-w", ",".join(words), helper, "%n"]
    for tr, (kind, v), long_ in c["hosts"]:
        argv.append("o%s:%s" % ("L%d" % LONG if long_ else "-", ("e%d" if kind == "exited" else "s%d") % v))
    return argv


def model_line(c, magic):
    fs = []
    for tr, (kind, v), long_ in c["hosts"]:
        if tr == "inb":         # the remote shell prints the marker line with the command's $?
            code = v if kind == "exited" else 128 + v
            out = (b"x" * LONG + b"\n" if long_ else b"") + magic + b"%d\n" % code
            fs.append("c1,o%s,v0,d0,t0" % hexs(out))
        else:
            fs.append("c1,o-,w%s,d0,t0" % (("e%d" if kind == "exited" else "s%d") % v))
    return "dsh %d %d 32 0 %s" % (c["S"], c["k"], ";".join(fs))


def spec_query(c, status):
    toks = [("e%d" if kind == "exited" else "s%d") % v for _, (kind, v), _ in c["hosts"]]
    return "adm %d %d 0 %s %d" % (c["S"], c["k"], ",".join(toks), status)


def run_case(pdsh, helper, moddir, c):
    argv = argv_of(pdsh, helper, c)
    for attempt in (0, 1):
        try:
            p = subprocess.run(argv, stdin=subprocess.DEVNULL, stdout=subprocess.DEVNULL, stderr=subprocess.PIPE,
                               env={"PATH": "/usr/bin:/bin", "PDSH_MODULE_DIR": moddir}, timeout=40,
                               user=1000, group=1000, extra_groups=[])
            return p.returncode, p.stderr.decode("utf-8", "replace")[-300:], argv
        except subprocess.TimeoutExpired:
            continue
    return None, "TIMEOUT", argv


def exit_of(ans):
    import re
    m = re.search(r"exit (\d+)$", ans)
    return int(m.group(1)) if m else None


def run(ctx, repo, pdsh, helper, bits, magic, dist, cov, distinct, report_bad, only=None):
    moddir = build(ctx, repo)
    if not moddir:
        dist["cli_mixed"] = "skipped"
        return
    os.chmod(ctx.scratch, 0o755)
    os.chmod(helper, 0o755)
    cs = cases() if only is None else [only]
    with concurrent.futures.ThreadPoolExecutor(max_workers=8) as ex:
        res = list(ex.map(lambda c: run_case(pdsh, helper, moddir, c), cs))
    mls = [model_line(c, magic) for c in cs]
    mod = ctx.model("exit", "".join(l + "\n" for l in mls), args=["model", bits])
    sp_in = [spec_query(c, r[0] if r[0] is not None and r[0] >= 0 else 999) for c, r in zip(cs, res)]
    spec = ctx.model("exit", "".join(l + "\n" for l in sp_in), args=["spec"])
    bad = []
    for c, (rc, errtxt, argv), ml, m, sp, spl in zip(cs, res, mls, mod, spec, sp_in):
        cov["evaluations"] += 1
        dist["cli_mixed"] = dist.get("cli_mixed", 0) + 1
        key = "default-%s" % c["default"]
        dist.setdefault("cli_mixed_kinds", {})
        dist["cli_mixed_kinds"][key] = dist["cli_mixed_kinds"].get(key, 0) + 1
        distinct.add(("mixed", c["S"], c["k"], c["default"], tuple((t, o, l) for t, o, l in c["hosts"]), c["prefix_all"]))
        short = [a if len(a) < 80 else a[:40] + "..." for a in argv]
        case = {"argv": short[:1] + ["..."] + short[1:], "exit": rc, "stderr": errtxt[-200:], "spec_query": spl,
                "model_op": ml if len(ml) < 2000 else ml[:200] + "...",
                "mixed_case": dict(c, hosts=[[t, list(o), l] for t, o, l in c["hosts"]])}
        if rc is None:
            ctx.offender("timeout", "pdsh (mixed transports) did not finish within 40 s", case)
            continue
        if rc < 0:
            ctx.offender("crash", "pdsh killed by signal %d: %s" % (-rc, errtxt), case)
            continue
        if exit_of(m) != rc:
            ctx.disagreement("exit model vs pdsh binary (in-band transport next to exec)", "exit %d, model `%s`" % (rc, m), case)
        if sp != "ok":
            scn = {"S": c["S"], "k": c["k"], "extra": {"mixed_case": case["mixed_case"], "argv": case["argv"]},
                   "hosts": [{"outcome": o, "chan": "inband" if t == "inb" else "exec", "pre": b"", "late": b"", "out": b""}
                             for t, o, _ in c["hosts"]]}
            bad.append((scn, " ".join(short), ml, "exit %d" % rc, spl, exit_of(m) == rc))
    report_bad(ctx, bad, bits, "pdsh (in-band transport next to exec)")


def case_from_json(j):
    return dict(j, hosts=[(t, tuple(o), l) for t, o, l in j["hosts"]])
