"""Third part of the relay checks C05/C06: the UNMODIFIED dsh.c under the controlled scheduler
(harness/sched/*, vlib/sched.py).  Every pdsh thread is a real pthread gated by a baton; with
`yield all` (or `io`) every poll/read/fputs is a scheduling point, so the schedule decides which
worker's stdio call happens next: "two workers emit at the same time" is explored, not hoped for.

case:      N = 2..6 targets (names that are prefixes of one another, with/without domains, -N, -K), each with a
           scripted stdout AND stderr stream (the generator of vlib/relay.py: lines around 64/1000/2048/8192
           bytes, unterminated tails, empty lines), cut into read chunks; fanout 1..N+1
schedules: uniform random, PCT, starve/eager dispatcher, and PF = "preempt at each fputs" (after every stdio
           call of any worker another runnable worker is run up to ITS next stdio call); thorough: exhaustive
           stateful DFS over all interleavings of the io operations of tiny configurations
judged:    the wrapped fputs call sequence (thread, FILE, bytes):
  correspondence  per (host, stream) the calls in global order = the list Lean `runStream` predicts for the
                  stream (so the global log is a shuffle of the predicted per-stream lists); nothing else is
                  written by anybody
  oracle C06      every call is one whole record with the right label, tail last (Relay/Spec.lean c06Ok)
  oracle C05      per (host, stream) the stripped concatenation is the scripted stream, exactly once (c05Ok)
"""
import os

from vlib import relay, sched
from vlib.common import hexs, unhex

SCHED_POOLS = [
    [b"h1", b"h10", b"h100", b"h", b"h2", b"h20"],
    [b"node1", b"node11", b"node111", b"node2"],
    [b"a.dom", b"b.dom", b"c.dom", b"d.dom"],
    [b"a.dom", b"b.other", b"c.dom"],
    [b"a.dom", b"a.dom.sub", b"b.dom"],
    [b"plain", b"a.dom", b"b.dom", b"other"],
    [b"plain", b"a.dom", b"b.edu", b"q"],
    [b"10.0.0.1", b"10.0.0.2", b"a.x", b"b.x"],
    [b"9host.dom", b"a.dom", b"b.dom"],
    [b"a.b.c.d", b"e.b.c.d", b"f.b.c.d"],
]
MAXCHUNKS = 56          # harness/sched/vsched.h MAXITEMS = 64 items per stream


def cap_chunks(chunks):
    chunks = [c for c in chunks if c]          # an empty item would read as EOF
    while len(chunks) > MAXCHUNKS:
        merged = []
        for i in range(0, len(chunks), 2):
            merged.append(b"".join(chunks[i:i + 2]))
        chunks = merged
    return chunks


def gen_sched_case(rng, quick):
    """returns (sched case dict, meta) with meta = {"targets", "labels", "K", "streams": {(i, 'o'|'e'): payload}}"""
    pool = list(rng.choice(SCHED_POOLS))
    rng.shuffle(pool)
    n = rng.randrange(2, min(6, len(pool)) + 1)
    targets = pool[:n]
    labels = rng.random() < 0.85
    optK = rng.random() < 0.2
    hosts, streams = [], {}
    budget_bytes = 30000 if quick else 60000
    for i, t in enumerate(targets):
        h = {"name": t.decode()}
        for key, s in (("out", "o"), ("err", "e")):
            if rng.random() < (0.9 if s == "o" else 0.6):
                cls = rng.choices(["tiny", "small", "mid", "tailbuf", "burst"], [32, 32, 20, 8, 8])[0]
                payload, _ = relay.gen_stream(rng, cls, targets)
                if cls == "burst" and payload.count(b"\n") > 220:
                    payload = b"\n".join(payload.split(b"\n")[:220]) + b"\n"   # every line is a scheduling point
                if rng.random() < 0.25:
                    # a line of 2048 bytes or more (err.c's LINEBUFSIZE), so that a label and its long line
                    # written apart can be told from one call
                    payload = relay.gen_text(rng, rng.choice([2047, 2048, 2049, 3000, 8192])) + b"\n" + payload
                if len(payload) > budget_bytes:
                    payload = payload[:budget_bytes]
                budget_bytes -= len(payload)
                style = rng.choice(["whole", "newline", "newline", "around", "small", "random", "random"])
                if cls == "burst":
                    style = rng.choice(["whole", "around", "random"])      # many lines per read
                if style == "small" and len(payload) > 400:
                    style = "random"
                chunks = cap_chunks(relay.chunkings(rng, payload, style))
                # mostly everything is available from the start (the reads alone cut the stream); sometimes the
                # items arrive at later virtual times, so that polls find nothing and the clock has to tick
                late = rng.random() < 0.2
                times = sorted(rng.randrange(0, 3) for _ in chunks) if late else [0] * len(chunks)
                h[key] = [[at, hexs(c)] for at, c in zip(times, chunks)]
                streams[(i, s)] = payload
            else:
                streams[(i, s)] = b""
        hosts.append(h)
    strat = rng.choices(["uniform", "pct", "pf", "starveD", "eagerD"], [38, 27, 20, 7, 8])[0]
    nitems = sum(len(h.get("out", [])) + len(h.get("err", [])) for h in hosts)
    c = {"fanout": rng.choice([1, 2, n, n, n + 1]), "hosts": hosts, "seed": rng.randrange(1, 1 << 30),
         "yield": rng.choice(["all", "all", "io", "io,thd"]), "inline": 0, "budget": 60000,
         "opts": {"labels": int(labels), "sopt": 1, "K": int(optK)},
         "strategy": "first" if strat == "pf" else strat,
         "tickrate": 60 if any(at for h in hosts for k in ("out", "err") for at, _ in h.get(k, [])) else 0}
    if strat == "pct":
        c["pct"] = [rng.randrange(2, 6), 40 + 14 * nitems]
    meta = {"targets": targets, "labels": labels, "K": optK, "streams": streams, "strategy": strat, "abandoned": []}
    if rng.random() < 0.12:
        # a host that is given up on: command timeout 1 s (virtual), one host's streams deliver their data and then
        # hang for ever (`-1 EOF`); its worker leaves the poll loop on the watchdog's signal and flushes what it
        # has read: all of it, the unterminated tail included (C05.abandoned_stream_relays_what_was_read)
        for h in hosts:
            for key in ("out", "err"):
                h[key] = [[0, d] for _, d in h.get(key, [])]
        i = rng.randrange(n)
        for key in ("out", "err"):
            hosts[i][key] = hosts[i].get(key, []) + [[-1, "EOF"]]
        c["opts"]["ut"] = 1
        c["tickrate"] = 0
        meta["abandoned"] = [i]
    return c, meta


def pinned_sched_cases():
    """cases every run executes first (no randomness): one stream of a host reaches EOF long before the other one
    gets its data (virtual arrival times 0 vs 1, 2, 3) -- the poll loop has to go on with the remaining
    descriptor alone (seeded C05-3: loop condition on stdout only) -- in both directions, under three schedules"""
    out = []
    for early, late in (("out", "err"), ("err", "out")):
        for strat, seed in (("uniform", 11), ("first", 1), ("pct", 5)):
            targets = [b"h1", b"h10"]
            hosts, streams = [], {}
            for i, t in enumerate(targets):
                n = t
                e_payload = n + b" early 1\n" + n + b" early tail"
                l_chunks = [n + b" late 1\n", n + b" late 2\nla", b"te 3\n" + n + b" late tail"]
                h = {"name": t.decode(), early: [[0, hexs(e_payload)]],
                     late: [[at + 1, hexs(c)] for at, c in enumerate(l_chunks)]}
                hosts.append(h)
                streams[(i, "o" if early == "out" else "e")] = e_payload
                streams[(i, "e" if early == "out" else "o")] = b"".join(l_chunks)
            c = {"fanout": 2, "hosts": hosts, "seed": seed, "yield": "all", "inline": 0, "budget": 60000,
                 "opts": {"labels": 1, "sopt": 1, "K": 0}, "strategy": strat, "tickrate": 60}
            if strat == "pct":
                c["pct"] = [3, 200]
            out.append((c, {"targets": targets, "labels": True, "K": False, "streams": streams,
                            "strategy": strat, "abandoned": [], "pinned": "%s-ends-first" % early}))
    # ALL WORKERS DO THE SAME STEP AT THE SAME MOMENT: four hosts whose stdout and stderr consist of one unterminated
    # fragment each (distinct bytes, distinct lengths), everything there from the start, every wrapped call a
    # scheduling point -- the workers reach `_flush_output` (and, in the second form, `_flush_lines` on one long line
    # each) together, so anything they SHARE there (a static buffer, a global index) shows as one host's label in
    # front of another host's bytes.  Fixed seeds: what these schedules catch does not depend on VERIF_SEED.
    for form in ("tails", "long-lines"):
        for strat, seeds in (("uniform", range(1, 11)), ("pct", range(1, 7))):
            for seed in seeds:
                targets = [b"ta", b"tb", b"tc", b"td"]
                hosts, streams = [], {}
                for i, t in enumerate(targets):
                    if form == "tails":
                        o_payload = t + b" stdout fragment " + bytes([65 + i]) * (9 + 7 * i)
                        e_payload = t + b" stderr fragment " + bytes([97 + i]) * (5 + 3 * i)
                    else:
                        o_payload = t + b" long " + bytes([65 + i]) * (2100 + 50 * i) + b"\n" + t + b" end"
                        e_payload = t + b" e " + bytes([97 + i]) * (2050 + 10 * i) + b"\n"
                    hosts.append({"name": t.decode(), "out": [[0, hexs(o_payload)]], "err": [[0, hexs(e_payload)]]})
                    streams[(i, "o")] = o_payload
                    streams[(i, "e")] = e_payload
                # `misc` = every other mutex is a scheduling point too (the per-buffer cbuf mutexes): the window between
                # cbuf_read() filling a buffer and _verr() copying it contains no other wrapped call than that unlock
                c = {"fanout": 4, "hosts": hosts, "seed": seed, "yield": "all,misc", "inline": 0, "budget": 60000,
                     "opts": {"labels": 1, "sopt": 1, "K": 0}, "strategy": strat, "tickrate": 0}
                if strat == "pct":
                    c["pct"] = [2 + seed % 4, 900]
                out.append((c, {"targets": targets, "labels": True, "K": False, "streams": streams, "strategy": strat,
                                "abandoned": [], "pinned": "same-step-%s" % form}))
    # a descriptor in ERROR (poll(2) says POLLERR and nothing else; the read then fails with EIO): xpoll must hand it
    # on as XPOLLERR and the loop must call the handler for it (`revents & (XPOLLREAD|XPOLLERR)`) -- otherwise the
    # loop spins on the descriptor for ever.  The handler prints its diagnostic, closes the descriptor, and everything
    # read before -- the unterminated tail included -- is still relayed (C05.read_error_keeps_what_was_read).
    for which, seed in (("out", 3), ("err", 4)):
        targets = [b"e1", b"e2"]
        hosts, streams = [], {}
        for i, t in enumerate(targets):
            o_payload = t + b" line 1\n" + t + b" out tail"
            e_payload = t + b" err 1\n" + t + b" err tail"
            h = {"name": t.decode(), "out": [[0, hexs(o_payload)]], "err": [[0, hexs(e_payload)]]}
            if i == 0:
                h[which] = h[which] + [[0, "ERR"]]
            hosts.append(h)
            streams[(i, "o")] = o_payload
            streams[(i, "e")] = e_payload
        c = {"fanout": 2, "hosts": hosts, "seed": seed, "yield": "all", "inline": 0, "budget": 20000,
             "opts": {"labels": 1, "sopt": 1, "K": 0}, "strategy": "uniform", "tickrate": 0}
        out.append((c, {"targets": targets, "labels": True, "K": False, "streams": streams, "strategy": "uniform",
                        "abandoned": [0], "pinned": "pollerr-on-%s" % which}))
    return out


# ----------------------------------------------------------------------------- schedules
def preempt_at_fputs(exe, case, scratch, rot=0, max_iter=120):
    """PF: after every stdio call of any worker switch to ANOTHER runnable worker and stay with it until the
    next stdio call of anybody.  Built by prefix extension: each run replays the prefix, then insists on the
    chosen worker (the list diverges to `first` when that worker blocks or ends)."""
    prefix, target = [], None
    res = None
    for it in range(max_iter):
        ch = prefix + ([target] * 600 if target else [])
        res = sched.run_case(exe, dict(case, strategy="first", choices=ch), scratch)
        if res["crash"] is not None or res["M"] is None:
            return res
        taken = res["choices"]
        nxt = None
        for j in range(len(prefix), len(res["steps"]) - 1):
            ev = res["steps"][j][1]
            if len(ev) >= 2 and ev[1] == "fputs":
                s1 = res["steps"][j + 1][0]
                run = [x for x in (s1["R"].split(",") if s1 else []) if x.startswith("W") and x != ev[0]]
                if run:
                    nxt = (j, run[(rot + it) % len(run)])
                    break
        if nxt is None:
            break
        prefix, target = taken[:nxt[0] + 1], nxt[1]
    return res


# ----------------------------------------------------------------------------- judging
def fputs_log(res):
    """[(thread, FILE number, bytes)] in global order; thread W<i> is the worker of target #i (sched.c names
    workers by their index in dsh.c's array `t`; cross-checked against the connectBegin events)"""
    log, widx = [], {}
    allev = [ev for _, ev in res["steps"]] + [ev for _, ev in res["inline"]]
    for ev in allev:
        if len(ev) >= 4 and ev[1] == "connectBegin":
            widx[ev[0]] = int(ev[2])
    for _, ev in res["steps"]:
        if len(ev) >= 4 and ev[1] == "fputs":
            log.append((ev[0], ev[2], unhex(ev[3])))
    for _, ev in res["inline"]:
        if len(ev) >= 4 and ev[1] == "fputs":
            log.append((ev[0], ev[2], unhex(ev[3])))       # (only when io is not a yield class)
    for th, _, _ in log:
        if th not in widx and th.startswith("W") and th[1:].isdigit():
            widx[th] = int(th[1:])
    return log, widx


def interleaved(log):
    """number of places where a worker's two consecutive stdio calls have another worker's call in between"""
    last, n = {}, 0
    for k, (th, _, _) in enumerate(log):
        if th in last and last[th] != k - 1:
            n += 1
        last[th] = k
    return n


def predict(ctx, metas):
    """Lean `runStream` (index-level engine) on every stream, fed as one chunk: in the domain the list of
    stdio calls does not depend on the chunking (C05.relay_chunk_independent)"""
    lines, index = [], []
    for mi, m in enumerate(metas):
        lines.append("begin %d %d %d %s" % (m["labels"], m["K"], len(m["targets"]), " ".join(hexs(t) for t in m["targets"])))
        index.append(None)
        for (i, s), payload in sorted(m["streams"].items()):
            lines.append("run %d %s %s" % (i, s, hexs(payload)))
            index.append((mi, (i, s)))
    ans = relay.run_model(ctx, ["index", "1"], "".join(l + "\n" for l in lines))
    pred = [dict() for _ in metas]
    for a, ix in zip(ans, index):
        if ix is None:
            continue
        pa = relay.parse_answer(a)
        pred[ix[0]][ix[1]] = [b for _, b in pa[3]] if pa else None
    return pred


def judge(ctx, prop, runs, cov, dist):
    """runs: list of (case, meta, res)"""
    sd = dist.setdefault("sched", {"runs": 0, "steps": 0, "stdio_calls": 0, "interleaved_call_pairs": 0,
                                   "runs_with_interleaving": 0, "strategies": {}, "hosts": 0})
    pred = predict(ctx, [m for _, m, _ in runs])
    spec_in, spec_ix = [], []
    per_run = []
    for ri, (case, meta, res) in enumerate(runs):
        cov["evaluations"] += 1
        sd["runs"] += 1
        sd["strategies"][meta["strategy"]] = sd["strategies"].get(meta["strategy"], 0) + 1
        sd["hosts"] += len(meta["targets"])
        rcase = replay_form(case, meta, res)
        if res["crash"] is not None or res["M"] is None or res["bug"]:
            txt = res["crash"] or res["bug"] or ""
            k = txt.find("ERROR: ")
            ctx.offender("sched:timeout" if "TIMEOUT" in txt else "sched:crash",
                         "dsh.c under the controlled scheduler aborts (sanitizer/assertion/timeout): %s" %
                         (txt[k:k + 300] if k >= 0 else txt[-300:]).replace("\n", " "), rcase)
            per_run.append(None)
            continue
        if res["M"].get("status") != "ok":
            ctx.offender("sched:timeout" if res["M"]["status"] in ("budget", "spin", "deadlock") else "sched:crash",
                         "run under the controlled scheduler ends with status %s" % res["M"]["status"], rcase)
            per_run.append(None)
            continue
        log, widx = fputs_log(res)
        sd["steps"] += len(res["steps"])
        sd["stdio_calls"] += len(log)
        il = interleaved(log)
        sd["interleaved_call_pairs"] += il
        sd["runs_with_interleaving"] += 1 if il else 0
        per = {k: [] for k in meta["streams"]}
        stray = None
        for th, fno, b in log:
            key = (widx.get(th), "o" if fno == "1" else "e" if fno == "2" else "?")
            if key[0] in meta.get("abandoned", ()) and fno == "2" and b.startswith(b"pdsh@"):
                sd["abandoned_hosts"] = sd.get("abandoned_hosts", 0) + 1
                continue            # dsh.c's own "command timeout" diagnostic about the host it gives up on
            if key in per:
                per[key].append(b)
            elif stray is None:
                stray = (th, fno, b)
        per_run.append(per)
        if stray:
            ctx.offender("sched:stray-emission", "stdio call by thread %s on FILE %s that belongs to no target stream: %r" %
                         (stray[0], stray[1], stray[2][:60]), rcase)
        for key in sorted(per):
            # ---- correspondence: the global log, restricted to a stream, is the predicted list of calls
            if pred[ri].get(key) != per[key]:
                exp, got = pred[ri].get(key) or [], per[key]
                k = next((i for i in range(min(len(exp), len(got))) if exp[i] != got[i]), min(len(exp), len(got)))
                ctx.disagreement("relay model (runStream) vs dsh.c under the controlled scheduler",
                                 "host %r %s: stdio call #%d: impl %r model %r (impl %d calls, model %d)" % (
                                     meta["targets"][key[0]].decode(), key[1], k,
                                     got[k][:50] if k < len(got) else None, exp[k][:50] if k < len(exp) else None,
                                     len(got), len(exp)), rcase if len(str(rcase)) < 1300 else None)
            spec_in.append("rec %s %d %d %d %d %s %s %d %s" % (
                key[1], meta["labels"], meta["K"], key[0], len(meta["targets"]),
                " ".join(hexs(t) for t in meta["targets"]), hexs(meta["streams"][key]), len(per[key]),
                " ".join(hexs(e) for e in per[key])))
            spec_ix.append((ri, key))
    verdicts = relay.run_model(ctx, ["spec"], "".join(l + "\n" for l in spec_in)) if spec_in else []
    for (ri, key), v in zip(spec_ix, verdicts):
        case, meta, res = runs[ri]
        f = dict(w.split("=", 1) for w in v.split() if "=" in w)
        ems = per_run[ri][key]
        payload = meta["streams"][key]
        host = meta["targets"][key[0]].decode()
        sname = "stdout" if key[1] == "o" else "stderr"
        if f.get("dom") != "1":
            ctx.disagreement("relay_sched generator left the domain", "verdict `%s`" % v.split(" label=")[0], None)
            continue
        info = dict(replay_form(case, meta, res), host=host, stream=sname, stdio_calls=[relay.short(e, 60) for e in ems][:10])
        if prop == "C05" and f.get("c05") != "ok":
            ctx.offender("sched:relay-bytes-differ", "controlled schedule: host %r %s: the bytes written (%d in %d calls) are "
                         "not the labelled stream (%d bytes scripted)" % (host, sname, sum(map(len, ems)), len(ems),
                                                                          len(payload)), info)
        if prop == "C06" and f.get("c06") != "ok":
            if f.get("c06") == "tail-record-split":
                ctx.offender("sched:tail-record-split", "controlled schedule: host %r %s: label and data of the unterminated "
                             "final fragment are separate stdio calls" % (host, sname), info)
            else:
                ctx.offender("sched:record-malformed", "controlled schedule: host %r %s: the stdio calls are not whole records "
                             "with the label %r: %s" % (host, sname, unhex(f.get("label", "-")).decode("latin-1"),
                                                        [relay.short(e, 40) for e in ems][:6]), info)
        if len(ems) >= 2:
            cov["_distinct"].add(hash((payload, key, tuple(meta["targets"]), meta["labels"], tuple(res["choices"][:400]))))


VFD_BASE = 1000       # harness/sched/vsched.h: virtual descriptors 1000+2h = stdout, 1001+2h = stderr of host h


def loop_replay(ctx, runs, dist):
    """Correspondence of the POLL LOOP of `_rsh_thread` (the real one, under the controlled scheduler) with the model,
    worker by worker: every read(2) the worker made (as the schedule and the scripted transport cut the streams: short
    reads, EAGAIN, EOF) is replayed through the model's handler (`pdshmodel relay index`: arrive exactly what the read
    returned, one handler call) and the loop's end through `_flush_output` x 2; the worker's stdio calls -- stdout AND
    stderr in the order it made them, final flushes included -- must be the model's, call by call.  (The per-stream
    comparison in `judge` is by stream; this one also fixes the order between a worker's two streams and of the two
    final flushes, and ties every handler call to the read it made.)"""
    lines, index = [], []          # model input; index[k] = (run, worker) of line k, or None for `begin`
    real = {}
    iters = []                     # (run, worker, `it ...` line for `pdshmodel relay xpoll`, reads that followed, last?)
    st = dist["sched"].setdefault("loop_replay", {"workers": 0, "reads": 0, "short_or_eagain": 0, "skipped_err": 0})
    for ri, (case, meta, res) in enumerate(runs):
        if res["crash"] is not None or res["M"] is None or res["bug"] or res["M"].get("status") != "ok":
            continue
        log, widx = fputs_log(res)
        lines.append("begin %d %d %d %s" % (meta["labels"], meta["K"], len(meta["targets"]),
                                            " ".join(hexs(t) for t in meta["targets"])))
        index.append(None)
        per = {}
        for _, ev in res["steps"]:
            if len(ev) >= 2 and ev[0] in widx and ev[1] in ("read", "fputs", "poll"):
                per.setdefault(ev[0], []).append(ev)
        for th in sorted(per):
            h = widx[th]
            eofs, ok, calls = set(), True, []
            iters.extend(poll_iterations(ri, th, h, per[th], int(case.get("opts", {}).get("sopt", 1)),
                                         h in meta.get("abandoned", ())))
            for ev in per[th]:
                if ev[1] == "poll":
                    continue
                if ev[1] == "fputs":
                    b = unhex(ev[3]) if len(ev) > 3 else b""
                    if ev[2] == "2" and b.startswith(b"pdsh@") and h in meta.get("abandoned", ()):
                        continue          # dsh.c's own diagnostic about a host it gives up on
                    calls.append((ev[2], b))
                    continue
                fd, ret, data = int(ev[2]), int(ev[4]), (ev[5] if len(ev) > 5 else "")
                if fd < VFD_BASE or (fd - VFD_BASE) // 2 != h:
                    ok = False
                    break
                sname = "oe"[(fd - VFD_BASE) & 1]
                if sname in eofs:
                    continue              # the model closed the descriptor at the first EOF it was shown
                st["reads"] += 1
                if ret > 0:
                    lines.append("feed %d %s %s" % (h, sname, data))
                elif data == "EOF":
                    lines.append("eof %d %s" % (h, sname))
                    eofs.add(sname)
                elif data == "EAGAIN":
                    lines.append("feed %d %s -" % (h, sname))
                    st["short_or_eagain"] += 1
                else:
                    ok = False            # a read error: the handler prints a diagnostic (not modelled)
                    st["skipped_err"] += 1
                    break
                index.append((ri, th))
            if not ok:
                real[(ri, th)] = None
                continue
            lines.append("flush %d" % h)
            index.append((ri, th))
            real[(ri, th)] = calls
            st["workers"] += 1
            if h not in meta.get("abandoned", ()) and eofs != {"o", "e"}:
                # C05.poll_loop_left_only_at_eof_of_both: a worker that was not given up on leaves the loop only
                # after a read on EACH descriptor has returned 0
                rc = replay_form(case, meta, res)
                ctx.disagreement("poll loop of _rsh_thread vs the model (loop replay)",
                                 "worker %s (host %r) left the poll loop although only %s had reached EOF (model: the "
                                 "loop is left only when both descriptors are closed)" % (
                                     th, meta["targets"][h].decode(), sorted(eofs) or "no stream"),
                                 rc if len(str(rc)) < 1300 else None)
    judge_iterations(ctx, runs, iters, st)
    if not lines:
        return
    ans = relay.run_model(ctx, ["index", "1"], "".join(l + "\n" for l in lines))
    model = {}
    for a, ix in zip(ans, index):
        if ix is None:
            continue
        pa = relay.parse_answer(a)
        model.setdefault(ix, []).extend(pa[3] if pa else [("?", a.encode())])
    for key, calls in real.items():
        if calls is None:
            continue
        exp = model.get(key, [])
        if exp != calls:
            ri, th = key
            case, meta, res = runs[ri]
            k = next((i for i in range(min(len(exp), len(calls))) if exp[i] != calls[i]), min(len(exp), len(calls)))
            rc = replay_form(case, meta, res)
            ctx.disagreement("poll loop of _rsh_thread vs the model (loop replay)",
                             "worker %s (host %r): stdio call #%d: impl %r model %r (impl %d calls, model %d)" % (
                                 th, meta["targets"][fputs_log(res)[1][th]].decode(), k,
                                 (calls[k][0], calls[k][1][:40]) if k < len(calls) else None,
                                 (exp[k][0], exp[k][1][:40]) if k < len(exp) else None, len(calls), len(exp)),
                             rc if len(str(rc)) < 1300 else None)


def poll_iterations(ri, th, h, evs, sopt, abandoned):
    """ONE ITERATION of the loop of `_rsh_thread` per poll(2) return of a worker (the real xpoll.c sits between the
    scheduler's poll and dsh.c): what the kernel-level poll reported for the worker's two descriptors -> the model
    (`XPoll.loopIter`: xpoll's translation, dsh.c's `revents & (XPOLLREAD|XPOLLERR)` test, -S) says WHICH handlers
    are called and IN WHICH ORDER; observable = the descriptors of the read(2) calls up to the worker's next poll."""
    out, cur = [], None
    fo, fe = VFD_BASE + 2 * h, VFD_BASE + 2 * h + 1
    for ev in evs:
        if ev[1] == "poll":
            if cur is not None:
                out.append(cur)
            cur = None
            if len(ev) >= 4 and ev[2] == "-1":
                # interrupted: `continue` unless the command timed out (then the loop is left: no further poll)
                cur = [ri, th, None, [], False, ev[3]]
                continue
            rev = {}
            try:
                for w in ev[2:]:
                    if w == "=":
                        break
                    fd, r = w.split(":")
                    rev[int(fd)] = int(r)
            except ValueError:
                continue
            if any(fd not in (fo, fe) for fd in rev):
                continue
            nrep = sum(1 for r in rev.values() if r)
            line = "it %d 0 0 %d %d 0 0 R%d:%d,%d" % (sopt, fo if fo in rev else -1, fe if fe in rev else -1, nrep,
                                                     rev.get(fo, 0), rev.get(fe, 0))
            cur = [ri, th, line, [], False, None]
        elif ev[1] == "read" and cur is not None:
            fd = int(ev[2])
            c = "o" if fd == fo else "e" if fd == fe else "?"
            if not cur[3] or cur[3][-1] != c:      # one handler call = one read(2), or two on the same descriptor when
                cur[3].append(c)                   # the free space of the ring wraps (cbuf_writer's two segments)
    if cur is not None:
        cur[4] = True                  # the worker's last poll: it may have been given up on right after it
        out.append(cur)
    return [c + [abandoned] for c in out]


def judge_iterations(ctx, runs, iters, st):
    todo = [c for c in iters if c[2] is not None]
    st["poll_returns"] = st.get("poll_returns", 0) + len(todo)
    st["poll_eintr"] = st.get("poll_eintr", 0) + sum(1 for c in iters if c[2] is None)
    bad = None
    if todo:
        ans = relay.run_model(ctx, ["xpoll"], "".join(c[2] + "\n" for c in todo))
        # the ORDER of the two handler calls of one iteration is the code's choice (the properties hold for both:
        # C05.one_iteration_stdout_before_stderr / _swapped_stderr_first): learnt from the first poll return of the
        # run that reports both descriptors, then required of every other one (`XPoll.Iter.calls errFirst`)
        if "handler_order" not in st:
            for c, a in zip(todo, ans):
                if a.split()[1:2] == ["oe"] and "".join(c[3]) in ("oe", "eo"):
                    st["handler_order"] = "".join(c[3])
                    break
        if st.get("handler_order") == "eo":
            ans = relay.run_model(ctx, ["xpoll"], "".join(c[2] + " 1\n" for c in todo))
        for c, a in zip(todo, ans):
            w = a.split()
            exp = "" if len(w) < 2 or w[1] == "-" else w[1]
            got = "".join(c[3])
            st["poll_both_reported"] = st.get("poll_both_reported", 0) + (len(exp) == 2)
            if got == exp or (c[4] and c[6] and exp.startswith(got)):
                continue
            bad = bad or (c, "after the poll return `%s` the worker read %s, the model (XPoll.loopIter: %s) calls the "
                             "handlers %s" % (c[2], list(got) or "nothing", a, list(exp) or "of nothing"))
    for c in iters:
        if c[2] is None and c[3] and not bad:
            bad = (c, "after an interrupted poll (-1 %s) the worker read %s before polling again" % (c[5], c[3]))
    if bad:
        c, what = bad
        case, meta, res = runs[c[0]]
        rc = replay_form(case, meta, res)
        ctx.disagreement("one iteration of the poll loop of _rsh_thread (xpoll.c + handler dispatch) vs the model",
                         "worker %s: %s" % (c[1], what), rc if len(str(rc)) < 1300 else None)


def replay_form(case, meta, res):
    """the run as a deterministic replay: the schedule actually taken becomes an explicit choice list"""
    c = dict(case, strategy="list", choices=list(res.get("choices") or []), spurious=None)
    return {"kind": "sched-run", "sched_case": c, "targets": [t.decode() for t in meta["targets"]],
            "abandoned": list(meta.get("abandoned", [])),
            "labels": int(meta["labels"]), "K": int(meta["K"]), "strategy": meta["strategy"],
            "streams": {"%d%s" % k: hexs(v) for k, v in meta["streams"].items()},
            "status": (res.get("M") or {}).get("status")}


def meta_from_replay(obj):
    return {"targets": [t.encode() for t in obj["targets"]], "labels": bool(obj["labels"]), "K": bool(obj["K"]),
            "streams": {(int(k[:-1]), k[-1]): unhex(v) for k, v in obj["streams"].items()},
            "strategy": "replay:" + obj.get("strategy", "?"), "abandoned": obj.get("abandoned", [])}


# ----------------------------------------------------------------------------- exhaustive (thorough)
def tiny_configs():
    """configurations small enough for ALL interleavings of their io operations (poll/read/close/fputs)"""
    out = []
    for conf in (
            [(b"h1", [b"a\nb"], []), (b"h10", [b"c\n"], [])],
            [(b"h1", [b"ab"], [b"e\n"]), (b"h10", [b"x"], [])],
            [(b"a.x", [b"l\n", b"t"], []), (b"b.y", [b"m\nn\n"], [])],
            [(b"n1", [b"x" * 70 + b"\n"], []), (b"n2", [b"y"], [b"z"])],
            [(b"h", [b"1\n"], []), (b"h1", [b"2"], []), (b"h10", [b"3\n"], [])],
    ):
        hosts, streams = [], {}
        for i, (t, o, e) in enumerate(conf):
            h = {"name": t.decode()}
            if o:
                h["out"] = [[0, hexs(c)] for c in o]
            if e:
                h["err"] = [[0, hexs(c)] for c in e]
            streams[(i, "o")] = b"".join(o)
            streams[(i, "e")] = b"".join(e)
            hosts.append(h)
        c = {"fanout": len(conf), "hosts": hosts, "seed": 1, "yield": "io", "inline": 0, "budget": 4000, "tickrate": 0,
             "opts": {"labels": 1, "sopt": 1, "K": 0}}
        out.append((c, {"targets": [t for t, _, _ in conf], "labels": True, "K": False, "streams": streams,
                        "strategy": "exhaustive"}))
    return out


# ----------------------------------------------------------------------------- driver
def run_sched(ctx, prop, cov, dist, exe=None):
    import concurrent.futures
    rng = ctx.rng
    exe = exe or sched.build(ctx, san=True, name="sched_relay")
    if not exe:
        return
    quick = ctx.quick()
    n = 200 if quick else 5000
    specs = pinned_sched_cases() + [gen_sched_case(rng, quick) for _ in range(n)]

    def one(spec):
        case, meta = spec
        if meta["strategy"] == "pf":
            return (case, meta, preempt_at_fputs(exe, case, ctx.scratch, rot=case["seed"] % 7))
        res = sched.run_case(exe, case, ctx.scratch, timeout=60)
        if res["crash"] is not None and "TIMEOUT" in res["crash"]:
            res = sched.run_case(exe, case, ctx.scratch, timeout=240)      # a timeout alone is re-tried once
        return (case, meta, res)
    with concurrent.futures.ThreadPoolExecutor(max_workers=sched.NWORKERS) as ex:
        runs = list(ex.map(one, specs))
    for lo in range(0, len(runs), 400):
        judge(ctx, prop, runs[lo:lo + 400], cov, dist)
        loop_replay(ctx, runs[lo:lo + 400], dist)
    if not quick:
        ex_stats = []
        for case, meta in tiny_configs():
            got = []
            st = sched.explore(exe, ctx.scratch, case, 0, lambda res: got.append((case, meta, res)), max_runs=20000)
            for lo in range(0, len(got), 400):
                judge(ctx, prop, got[lo:lo + 400], cov, dist)
            ex_stats.append({"targets": [t.decode() for t in meta["targets"]], "states": st["states"], "runs": st["runs"],
                             "complete": st["complete"]})
        dist["sched"]["exhaustive"] = ex_stats
    ctx.log("controlled scheduler: %s" % {k: v for k, v in dist["sched"].items() if k != "exhaustive"})


def replay_sched(ctx, prop, obj, cov, dist):
    exe = sched.build(ctx, san=True, name="sched_relay")
    if not exe:
        return
    case = obj["sched_case"]
    res = sched.run_case(exe, case, ctx.scratch, timeout=120)
    ctx.log("replay: %d steps, status %s, schedule %s" % (len(res["steps"]), (res["M"] or {}).get("status"),
                                                         "followed" if (res["M"] or {}).get("diverged") == "0" else "DIVERGED"))
    judge(ctx, prop, [(case, meta_from_replay(obj), res)], cov, dist)
