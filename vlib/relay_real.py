"""Real-process part of the relay checks C05/C06 (supporting evidence, not proof):

    <scratch build of the tree under test>/src/pdsh/pdsh -R exec -w <targets> relay_writer DIR %h

Every target runs harness/relay_writer.c, which writes generated payloads to its stdout/stderr with
scripted write(2) sizes and sleeps.  pdsh's whole stdout (stderr) is then parsed as a SHUFFLE of the
per-host sequences of expected records: every record contiguous, per-host order kept.  This exercises
what the in-process harness cannot: kernel fragmentation over the exec module's socketpairs, the real
poll loop, real threads writing concurrently, and dsh()'s own "targets span domains" loop.
"""
import os
import subprocess

from vlib.common import HARNESS, hexs
from vlib import relay

REAL_POOLS = [
    [b"h1", b"h10", b"h100", b"h1000", b"h2", b"h20", b"h3", b"h30"],
    [b"n1", b"n2", b"n3", b"n4", b"n5", b"n6", b"n7", b"n8"],
    [b"a.dom", b"b.dom", b"c.dom", b"d.dom"],
    [b"a.dom", b"b.other", b"c.dom"],
    [b"a.dom", b"a.dom.sub", b"b.dom"],
    [b"plain", b"a.dom", b"b.dom", b"other"],
    [b"plain", b"a.dom", b"b.edu"],
    [b"10.0.0.1", b"10.0.0.2", b"a.x", b"b.x"],
    [b"9host.dom", b"a.dom", b"b.dom"],
    [b"a.b.c.d", b"e.b.c.d", b"f.b.c.d"],
    [b"x"],
]


def run_group(cmd, timeout):
    """run pdsh in its own process group; on timeout kill the whole group (pdsh + its exec children)"""
    import signal
    p = subprocess.Popen(cmd, stdout=subprocess.PIPE, stderr=subprocess.PIPE, start_new_session=True)
    try:
        so, se = p.communicate(timeout=timeout)
        return p.returncode, so, se
    except subprocess.TimeoutExpired:
        try:
            os.killpg(p.pid, signal.SIGKILL)
        except OSError:
            pass
        try:
            p.communicate(timeout=10)
        except Exception:
            pass
        return -999, b"", b"TIMEOUT"


def parse_shuffle(out, seqs):
    """is `out` an interleaving of the record sequences `seqs` with every record contiguous?"""
    n = len(seqs)
    start = tuple([0] * n)
    failed = set()
    stack = [(start, 0)]
    total = sum(len(r) for s in seqs for r in s)
    if total != len(out):
        return False
    while stack:
        idx, pos = stack.pop()
        if idx in failed:
            continue
        if pos == len(out) and all(idx[h] == len(seqs[h]) for h in range(n)):
            return True
        failed.add(idx)
        for h in range(n):
            if idx[h] < len(seqs[h]):
                rec = seqs[h][idx[h]]
                if out.startswith(rec, pos):
                    nxt = idx[:h] + (idx[h] + 1,) + idx[h + 1:]
                    if nxt not in failed:
                        stack.append((nxt, pos + len(rec)))
    return False


def records(prefix, payload, split_tail=False, split_all=False):
    parts = payload.split(b"\n")
    if split_all and prefix:
        recs = []
        for x in parts[:-1]:
            recs += [prefix, x + b"\n"]
    else:
        recs = [prefix + x + b"\n" for x in parts[:-1]]
    tail = parts[-1]
    if tail:
        # tails of 8 KiB or more may be cut anywhere by the implementation: generated tails are shorter
        if split_tail and prefix:
            recs += [prefix, tail]
        else:
            recs.append(prefix + tail)
    return recs


def gen_payload(rng, host, stream, big):
    out = []
    nl = rng.choice([0, 1, 2, 3, 5, 8, 20])
    for k in range(nl):
        ln = rng.choice([0, 1, 5, 20, 40, 62, 63, 64, 65, 200, 998, 999, 1000, 1001, 4000] +
                        ([8191, 8192, 20000, 70000] if big else []))
        head = b"%s %s line %d " % (host, stream, k)
        body = relay.gen_text(rng, ln)
        out.append((head + body)[:max(ln, 0)] if ln < len(head) and rng.random() < 0.5 else head + body)
        out[-1] = out[-1].replace(b"\n", b" ") + b"\n"
    r = rng.random()
    if r < 0.6:
        tl = rng.choice([1, 2, 10, 63, 64, 65, 500, 1000, 4000, 8000, 8190, 8191])
        out.append((b"%s %s tail " % (host, stream) + relay.gen_text(rng, tl))[:tl])
    return b"".join(out)


def gen_plan(rng, out, err, style):
    """write(2) sizes and sleeps for the two payloads, interleaved"""
    plan = []
    pos = {"o": 0, "e": 0}
    size = {"o": len(out), "e": len(err)}
    while pos["o"] < size["o"] or pos["e"] < size["e"]:
        k = rng.choice([s for s in "oe" if pos[s] < size[s]])
        left = size[k] - pos[k]
        if style == "whole":
            n = left
        elif style == "bytes":
            n = rng.choice([1, 1, 2, 3])
        elif style == "lines":
            data = out if k == "o" else err
            j = data.find(b"\n", pos[k])
            n = (j + 1 - pos[k]) if j >= 0 else left
            n = max(1, n + rng.choice([0, 0, -1, 1]))
        else:
            n = rng.choice([1, 7, 63, 64, 65, 500, 999, 1000, 1001, 4096, 8191, 8192, 65536])
        n = min(n, left)
        us = rng.choice([0, 0, 0, 0, 200, 1000, 3000]) if style != "bytes" else rng.choice([0, 0, 0, 100])
        plan.append("%s %d %d" % (k, n, us))
        pos[k] += n
    return plan


def run_real(ctx, prop, cov, dist):
    rng = ctx.rng
    copy = ctx.repo_build()
    if not copy:
        return
    pdsh = os.path.join(copy, "src/pdsh/pdsh")
    writer = os.path.join(ctx.scratch, "relay_writer")
    if not ctx.cc(writer, [os.path.join(HARNESS, "relay_writer.c")], san=False, assertions=False, libs=()):
        return
    nruns = 24 if ctx.quick() else 220
    real = {"runs": 0, "hosts": 0, "bytes": 0, "tail_split_raced": 0}
    for r in range(nruns):
        pool = list(rng.choice(REAL_POOLS))
        if r % 5 == 4:
            # many hosts streaming at once, most with an unterminated tail
            pool = [b"n%d" % i for i in range(1, (33 if ctx.quick() else 65))]
            k = len(pool)
        else:
            rng.shuffle(pool)
            k = rng.randrange(1, len(pool) + 1)
        targets = pool[:k]
        labels = rng.random() < 0.85
        optK = rng.random() < 0.2
        big = rng.random() < (0.15 if ctx.quick() else 0.3) and k <= 8
        style = rng.choice(["whole", "lines", "random", "random", "bytes"])
        d = os.path.join(ctx.scratch, "real%d" % r)
        os.makedirs(d)
        payloads = {}
        for h in targets:
            o = gen_payload(rng, h, b"out", big)
            e = gen_payload(rng, h, b"err", False) if rng.random() < 0.5 else b""
            if style == "bytes" and len(o) + len(e) > 3000:
                o, e = o[:2000], e[:500]
            payloads[h] = (o, e)
            name = h.decode()
            open(os.path.join(d, name + ".out"), "wb").write(o)
            open(os.path.join(d, name + ".err"), "wb").write(e)
            open(os.path.join(d, name + ".plan"), "w").write("\n".join(gen_plan(rng, o, e, style)) + "\n")
        cmd = [pdsh, "-R", "exec", "-f", str(rng.choice([1, 2, 4, 32, 64, 64])), "-w", b",".join(targets).decode()]
        if not labels:
            cmd.append("-N")
        if optK:
            cmd.append("-K")
        cmd += [writer, d, "%h"]
        rc, so, se = run_group(cmd, 40 if ctx.quick() else 120)
        real["runs"] += 1
        real["hosts"] += k
        real["bytes"] += len(so) + len(se)
        cov["evaluations"] += 1
        case = {"cmd": " ".join(cmd[:-3]) + " relay_writer DIR %h", "targets": [t.decode() for t in targets],
                "labels": labels, "K": optK, "write_style": style,
                "payloads": {h.decode(): {"out": hexs(o) if len(o) < 3000 else "len=%d" % len(o),
                                          "err": hexs(e) if len(e) < 3000 else "len=%d" % len(e)}
                             for h, (o, e) in list(payloads.items())[:8]},
                "pdsh_stdout_head": so[:400].decode("latin-1"), "pdsh_stderr_head": se[:400].decode("latin-1"), "rc": rc}
        if rc != 0:
            ctx.offender("crash" if rc != -999 else "timeout",
                         "real pdsh run %s: %s" % ("does not end" if rc == -999 else "exits %d" % rc, se[-300:]), case)
            real["failed_runs"] = real.get("failed_runs", 0) + 1
            if real["failed_runs"] >= 2:
                break           # every hanging run costs its whole timeout
            continue

        class C:   # minimal view for relay.py_label
            pass
        c = C()
        c.targets, c.optK, c.labels = targets, optK, labels
        for which, data, sel in (("stdout", so, 0), ("stderr", se, 1)):
            whole, split, loose = [], [], []
            for i, h in enumerate(targets):
                prefix = (relay.py_label(c, i) + b": ") if labels else b""
                whole.append(records(prefix, payloads[h][sel]))
                split.append(records(prefix, payloads[h][sel], split_tail=True))
                loose.append(records(prefix, payloads[h][sel], split_tail=True, split_all=True))
            if parse_shuffle(data, whole):
                continue
            if parse_shuffle(data, split):
                real["tail_split_raced"] += 1
                if prop == "C06":
                    ctx.offender("tail-record-split",
                                 "real run: %s parses as whole records only if a host's tail label and tail data are "
                                 "taken as separate records (another host's record landed between them)" % which, case)
                continue
            # neither: bytes lost/duplicated/reordered, a wrong label, or a record torn apart.  C05 is about the
            # bytes only: it still holds if the output is an interleaving once every label may stand apart
            # from the line it precedes (atomicity of records is C06's business)
            if prop == "C05" and parse_shuffle(data, loose):
                real["records_torn_but_bytes_complete"] = real.get("records_torn_but_bytes_complete", 0) + 1
                continue
            ctx.offender("real-bytes-differ" if prop == "C05" else "real-record-torn",
                         "real run: pdsh's %s is not an interleaving of the hosts' labelled records" % which, case)
    dist["real"] = real
    ctx.log("real runs: %s" % real)
