"""Real-process part of the relay checks C05/C06 (supporting evidence, not proof):

    <scratch build of the tree under test>/src/pdsh/pdsh -R exec -w <targets> relay_writer DIR %h

Every target runs harness/relay_writer.c, which writes generated payloads to its stdout/stderr with
scripted write(2) sizes and sleeps.  pdsh's whole stdout (stderr) is then parsed as a SHUFFLE of the
per-host sequences of expected records: every record contiguous, per-host order kept.  This exercises
what the in-process harness cannot: kernel fragmentation over the exec module's socketpairs, the real
poll loop, real threads writing concurrently, and dsh()'s own "targets span domains" loop.
"""
import os
import subprocess

from vlib.common import HARNESS, hexs, unhex
from vlib import relay

REAL_POOLS = [
    [b"h1", b"h10", b"h100", b"h1000", b"h2", b"h20", b"h3", b"h30"],
    [b"n1", b"n2", b"n3", b"n4", b"n5", b"n6", b"n7", b"n8"],
    [b"a.dom", b"b.dom", b"c.dom", b"d.dom"],
    [b"a.dom", b"b.other", b"c.dom"],
    [b"a.dom", b"a.dom.sub", b"b.dom"],
    [b"plain", b"a.dom", b"b.dom", b"other"],
    [b"plain", b"a.dom", b"b.edu"],
    [b"10.0.0.1", b"10.0.0.2", b"a.x", b"b.x"],
    [b"9host.dom", b"a.dom", b"b.dom"],
    [b"a.b.c.d", b"e.b.c.d", b"f.b.c.d"],
    [b"x"],
]


def alarm_threads(pid, rounds, first, gap):
    """send SIGALRM to EVERY thread of pdsh (tgkill), `rounds` times: dsh() installs a no-op handler for SIGALRM (the
    watchdog's signal), so each worker blocked in xpoll() sees -1/EINTR although no timeout has expired -- the
    "interrupted by spurious signal" branch of _rsh_thread, which must `continue`"""
    import ctypes, signal, time
    libc = ctypes.CDLL(None, use_errno=True)
    SYS_tgkill = 234 if os.uname().machine == "x86_64" else 131       # aarch64: 131
    sent = 0
    time.sleep(first)
    for _ in range(rounds):
        try:
            tids = [int(x) for x in os.listdir("/proc/%d/task" % pid)]
        except OSError:
            break
        for tid in tids:
            if libc.syscall(SYS_tgkill, pid, tid, int(signal.SIGALRM)) == 0:
                sent += 1
        time.sleep(gap)
    return sent


def run_group(cmd, timeout, capture="pipe", d=None, alrm=None):
    """run pdsh in its own process group; on timeout kill the whole group (pdsh + its exec children).
    capture: pdsh's stdout/stderr are pipes, or regular files in `d`; alrm = (rounds, first, gap): see alarm_threads"""
    import signal
    if capture == "file":
        fo, fe = open(os.path.join(d, "pdsh.stdout"), "wb"), open(os.path.join(d, "pdsh.stderr"), "wb")
        p = subprocess.Popen(cmd, stdout=fo, stderr=fe, start_new_session=True)
        fo.close()
        fe.close()
    else:
        p = subprocess.Popen(cmd, stdout=subprocess.PIPE, stderr=subprocess.PIPE, start_new_session=True)
    if alrm:
        import threading
        threading.Thread(target=alarm_threads, args=(p.pid,) + tuple(alrm), daemon=True).start()
    try:
        so, se = p.communicate(timeout=timeout)
        if capture == "file":
            so = open(os.path.join(d, "pdsh.stdout"), "rb").read()
            se = open(os.path.join(d, "pdsh.stderr"), "rb").read()
        return p.returncode, so, se
    except subprocess.TimeoutExpired:
        try:
            os.killpg(p.pid, signal.SIGKILL)
        except OSError:
            pass
        try:
            p.communicate(timeout=10)
        except Exception:
            pass
        return -999, b"", b"TIMEOUT"


class Inconclusive(Exception):
    """the shuffle parse ran out of its budget: too many hosts with indistinguishable records (-N, bursts of
    empty lines): neither accepted nor rejected"""


SHUFFLE_BUDGET = 400000


def parse_shuffle(out, seqs):
    """is `out` an interleaving of the record sequences `seqs` with every record contiguous?
    (DFS over the vectors of per-host positions, memoised; bounded: raises Inconclusive beyond SHUFFLE_BUDGET states)"""
    n = len(seqs)
    start = tuple([0] * n)
    failed = set()
    stack = [(start, 0)]
    total = sum(len(r) for s in seqs for r in s)
    if total != len(out):
        return False
    while stack:
        idx, pos = stack.pop()
        if idx in failed:
            continue
        if len(failed) > SHUFFLE_BUDGET:
            raise Inconclusive()
        if pos == len(out) and all(idx[h] == len(seqs[h]) for h in range(n)):
            return True
        failed.add(idx)
        for h in range(n):
            if idx[h] < len(seqs[h]):
                rec = seqs[h][idx[h]]
                if out.startswith(rec, pos):
                    nxt = idx[:h] + (idx[h] + 1,) + idx[h + 1:]
                    if nxt not in failed:
                        stack.append((nxt, pos + len(rec)))
    return False


def records(prefix, payload, split_tail=False, split_all=False):
    parts = payload.split(b"\n")
    if split_all and prefix:
        recs = []
        for x in parts[:-1]:
            recs += [prefix, x + b"\n"]
    else:
        recs = [prefix + x + b"\n" for x in parts[:-1]]
    tail = parts[-1]
    if tail:
        # tails of 8 KiB or more may be cut anywhere by the implementation: generated tails are shorter
        if split_tail and prefix:
            recs += [prefix, tail]
        else:
            recs.append(prefix + tail)
    return recs


def gen_payload(rng, host, stream, big):
    out = []
    nl = rng.choice([0, 1, 2, 3, 5, 8, 20])
    for k in range(nl):
        ln = rng.choice([0, 1, 5, 20, 40, 62, 63, 64, 65, 200, 998, 999, 1000, 1001, 4000] +
                        ([8191, 8192, 20000, 70000] if big else []))
        head = b"%s %s line %d " % (host, stream, k)
        body = relay.gen_text(rng, ln)
        out.append((head + body)[:max(ln, 0)] if ln < len(head) and rng.random() < 0.5 else head + body)
        out[-1] = out[-1].replace(b"\n", b" ") + b"\n"
    if rng.random() < 0.15:
        # a chatty ending: after a line that made pdsh's buffer grow, a burst of very many very short lines (one
        # write, so pdsh finds tens to hundreds of complete lines in one read)
        out.append(b"%s %s grow " % (host, stream) + relay.gen_text(rng, rng.choice([64, 200, 1000])) + b"\n")
        w = rng.choice([0, 1, 2, 3])
        for k in range(rng.choice([65, 129, 200, 400, 800])):
            out.append(relay.gen_text(rng, w) + b"\n")
    r = rng.random()
    if r < 0.6:
        tl = rng.choice([1, 2, 10, 63, 64, 65, 500, 1000, 4000, 8000, 8190, 8191])
        out.append((b"%s %s tail " % (host, stream) + relay.gen_text(rng, tl))[:tl])
    return b"".join(out)


def gen_plan(rng, out, err, style):
    """write(2) sizes and sleeps for the two payloads, interleaved"""
    plan = []
    pos = {"o": 0, "e": 0}
    size = {"o": len(out), "e": len(err)}
    while pos["o"] < size["o"] or pos["e"] < size["e"]:
        k = rng.choice([s for s in "oe" if pos[s] < size[s]])
        left = size[k] - pos[k]
        if style == "whole":
            n = left
        elif style == "bytes":
            n = rng.choice([1, 1, 2, 3])
        elif style == "lines":
            data = out if k == "o" else err
            j = data.find(b"\n", pos[k])
            n = (j + 1 - pos[k]) if j >= 0 else left
            n = max(1, n + rng.choice([0, 0, -1, 1]))
        else:
            n = rng.choice([1, 7, 63, 64, 65, 500, 999, 1000, 1001, 4096, 8191, 8192, 65536])
        n = min(n, left)
        us = rng.choice([0, 0, 0, 0, 200, 1000, 3000]) if style != "bytes" else rng.choice([0, 0, 0, 100])
        plan.append("%s %d %d" % (k, n, us))
        pos[k] += n
    return plan


def gen_spec(ctx, r):
    """one real run: targets, options, per-host payloads and write plans (everything a replay needs)"""
    rng = ctx.rng
    pool = list(rng.choice(REAL_POOLS))
    if r % 5 == 4:
        # many hosts streaming at once, most with an unterminated tail
        pool = [b"n%d" % i for i in range(1, (33 if ctx.quick() else 65))]
        k = len(pool)
    else:
        rng.shuffle(pool)
        k = rng.randrange(1, len(pool) + 1)
    targets = pool[:k]
    labels = rng.random() < 0.85
    optK = rng.random() < 0.2
    big = rng.random() < (0.15 if ctx.quick() else 0.3) and k <= 8
    style = rng.choice(["whole", "lines", "random", "random", "bytes"])
    hosts = {}
    for h in targets:
        o = gen_payload(rng, h, b"out", big)
        e = gen_payload(rng, h, b"err", False) if rng.random() < 0.5 else b""
        if style == "bytes" and len(o) + len(e) > 3000:
            o, e = o[:2000], e[:500]
        hosts[h.decode()] = {"out": hexs(o), "err": hexs(e), "plan": gen_plan(rng, o, e, style)}
    fanout = rng.choice([1, 2, 4, 32, 64, 64])
    # Targets whose command cannot be started: some hosts end by making the command vanish (ENOENT) or lose its
    # execute permission (EACCES) for a while, so that execvp() fails in the transport's forked child for the
    # targets pdsh starts next -- before, between and after hosts whose output ends in an unterminated fragment.
    # Which targets were hit is read off afterwards (HOST.ran); such a target must contribute no record at all.
    if k >= 2 and rng.random() < 0.4:
        fanout = rng.choice([1, 1, 1, 2, 4])
        order = [t.decode() for t in targets]
        for h in rng.sample(order[:-1], rng.randrange(1, min(4, k))):       # not the last: somebody must follow
            if rng.random() < 0.6 and unhex(hosts[h]["out"])[-1:] in (b"", b"\n"):
                # ... most often right after an unterminated final fragment of this host
                o = unhex(hosts[h]["out"]) + (b"%s out tail " % h.encode() + relay.gen_text(rng, rng.choice([1, 20, 300])))
                e = unhex(hosts[h]["err"])
                hosts[h] = {"out": hexs(o), "err": hexs(e), "plan": gen_plan(rng, o, e, style)}
            hosts[h]["plan"].append("%s %d" % (rng.choice("UX"), rng.choice([3000, 10000, 30000, 60000])))
    timeout = 0
    if r % 12 == 7 and 2 <= k <= 12:
        # Hosts that are given up on: -u 1, and 1..2 hosts stop in the middle of their plan and hang.  Everything
        # they wrote before must be relayed (incl. an unterminated tail), nothing else (C05.abandoned_stream_...).
        # The other hosts write without pauses, so that they are done long before the timeout.
        timeout = 1
        for h in hosts:
            hosts[h]["plan"] = [" ".join(l.split()[:2] + ["0"]) for l in hosts[h]["plan"] if l[0] in "oe"]
        for h in rng.sample(list(hosts), rng.randrange(1, 3)):
            plan = hosts[h]["plan"]
            cut = rng.randrange(0, len(plan) + 1)
            wo = sum(int(l.split()[1]) for l in plan[:cut] if l[0] == "o")
            we = sum(int(l.split()[1]) for l in plan[:cut] if l[0] == "e")
            hosts[h]["plan"] = plan[:cut] + ["o 0 30000000"]
            hosts[h]["written"] = [wo, we]
    return {"kind": "real-run", "targets": [t.decode() for t in targets], "labels": labels, "K": optK,
            "fanout": (64 if timeout else fanout), "write_style": style, "hosts": hosts, "timeout": timeout,
            # pdsh's stdout/stderr are a pipe or a file: fully buffered stdio either way, different flush points
            "capture": rng.choice(["pipe", "file"])}


def pinned_specs(quick):
    """real runs EVERY check executes first, whatever the seed (no randomness): the classes only a real pdsh run can
    show -- dsh()'s own "targets span different domains" loop (target lists in which differing domains are
    separated by a name without a dot, adjacent, absent), a stream that ends long before the other one (stdout
    closed while stderr keeps arriving, and the reverse), a transport child whose exec fails right after another
    target's unterminated fragment (stdout to a pipe and to a file)"""
    def host(o, e, plan):
        return {"out": hexs(o), "err": hexs(e), "plan": plan}

    def simple(name):
        n = name.encode()
        o, e = n + b" out line\n" + n + b" out tail", n + b" err line\n"
        return host(o, e, ["o %d 0" % len(o), "e %d 0" % len(e)])
    specs = []
    for targets, K in ((["a.x", "b", "a.y"], False), (["n1.east.example", "n2", "n1.west.example"], False),
                       (["a.x", "b", "c.x"], False), (["b", "a.x", "c", "d.y", "e"], False), (["a.x", "b.y"], False),
                       (["a.x", "b", "c.x"], True), (["plain", "other"], False),
                       # one domain a proper prefix / suffix of the other; digit-first names; -N
                       (["a.dom", "b.dom.sub"], False), (["a.sub.dom", "b.dom"], False), (["10.0.0.1", "h.x", "10.0.0.2"], False),
                       (["a.x", "b", "a.y"], None)):
        specs.append({"kind": "real-run", "targets": targets, "labels": K is not None, "K": bool(K), "fanout": 32, "write_style": "pinned",
                      "hosts": {t: simple(t) for t in targets}, "timeout": 0, "capture": "pipe", "pinned": "domains"})
    # one stream ends long before the other
    for first, fd in (("o", 1), ("e", 2)):
        hosts = {}
        for t in ("h1", "h10"):
            n = t.encode()
            o = n + b" out 1\n" + n + b" out 2\n" + n + b" out tail"
            e = n + b" err 1\n" + n + b" err 2\n" + n + b" err 3\n" + n + b" err tail"
            early, late = (o, e) if first == "o" else (e, o)
            lk = "e" if first == "o" else "o"
            cut = len(late) // 3
            plan = ["%s %d 0" % (first, len(early)), "C %d 60000" % fd, "%s %d 60000" % (lk, cut),
                    "%s %d 60000" % (lk, cut), "%s %d 0" % (lk, len(late) - 2 * cut)]
            hosts[t] = host(o, e, plan)
        specs.append({"kind": "real-run", "targets": ["h1", "h10"], "labels": True, "K": False, "fanout": 2,
                      "write_style": "pinned", "hosts": hosts, "timeout": 0, "capture": "pipe",
                      "pinned": "stream-%s-ends-first" % first})
    # exec fails for the targets started while the command is gone, right after an unterminated fragment
    for capture in ("pipe", "file"):
        targets = ["n1", "n2", "n3", "n4"]
        hosts = {}
        for t in targets:
            n = t.encode()
            o = n + b" fragment without newline"
            hosts[t] = host(o, b"", ["o %d 0" % len(o)] + (["U 150000"] if t == "n1" else []))
        specs.append({"kind": "real-run", "targets": targets, "labels": True, "K": False, "fanout": 1,
                      "write_style": "pinned", "hosts": hosts, "timeout": 0, "capture": capture, "pinned": "exec-fails"})
    # spurious EINTR in xpoll(): every thread of pdsh gets SIGALRM several times while three hosts are in the middle of
    # their output (no timeout set, so `_thd_command_timeout` is false): the loop must go on, nothing may be lost
    hosts = {}
    for t in ("s1", "s2", "s3"):
        n = t.encode()
        o = b"".join(n + b" out %d\n" % k for k in range(8)) + n + b" out tail"
        e = b"".join(n + b" err %d\n" % k for k in range(4))
        step = len(o) // 8
        plan = []
        for k in range(7):
            plan.append("o %d 120000" % step)
            if k % 2:
                plan.append("e %d 0" % (len(e) // 3))
        plan += ["o %d 0" % len(o), "e %d 0" % len(e)]
        hosts[t] = host(o, e, plan)
    specs.append({"kind": "real-run", "targets": ["s1", "s2", "s3"], "labels": True, "K": False, "fanout": 3,
                  "write_style": "pinned", "hosts": hosts, "timeout": 0, "capture": "pipe", "pinned": "spurious-eintr",
                  "alrm": [5, 0.3, 0.1]})
    return specs


def exec_spec(ctx, prop, spec, pdsh, writer, d, real):
    """run pdsh on the spec and judge its stdout/stderr; returns (signature or None, what, case)"""
    from vlib.common import unhex
    os.makedirs(d)
    targets = [t.encode() for t in spec["targets"]]
    labels, optK = spec["labels"], spec["K"]
    payloads = {}
    hung = []
    for name, hs in spec["hosts"].items():
        o, e = unhex(hs["out"]), unhex(hs["err"])
        payloads[name.encode()] = (o, e)
        if "written" in hs:
            hung.append(name)
        open(os.path.join(d, name + ".out"), "wb").write(o)
        open(os.path.join(d, name + ".err"), "wb").write(e)
        open(os.path.join(d, name + ".plan"), "w").write("\n".join(hs["plan"]) + "\n")
    cmd = [pdsh, "-R", "exec", "-f", str(spec["fanout"]), "-w", ",".join(spec["targets"])]
    if not labels:
        cmd.append("-N")
    if optK:
        cmd.append("-K")
    if spec.get("timeout"):
        cmd += ["-u", str(spec["timeout"])]
    # the command is a private copy of the writer (the U/X plan ops rename / chmod it)
    mycmd = os.path.join(d, "cmd")
    import shutil
    shutil.copy(writer, mycmd)
    os.chmod(mycmd, 0o755)
    cmd += [mycmd, d, "%h"]
    rc, so, se = run_group(cmd, 40 if ctx.quick() else 120, capture=spec.get("capture", "pipe"), d=d, alrm=spec.get("alrm"))
    if spec.get("alrm"):
        real["runs_with_spurious_eintr"] = real.get("runs_with_spurious_eintr", 0) + 1
    # targets whose command was never started (execvp failed in the transport's child)
    notrun = [t for t in targets if not os.path.exists(os.path.join(d, t.decode() + ".ran"))]
    real["exec_failed_hosts"] = real.get("exec_failed_hosts", 0) + len(notrun)
    if hung:
        real["runs_with_command_timeout"] = real.get("runs_with_command_timeout", 0) + 1
        real["abandoned_hosts"] = real.get("abandoned_hosts", 0) + len(hung)
        for name in hung:
            # a host that was given up on: what it wrote before it hung is what must be relayed
            wo, we = spec["hosts"][name]["written"]
            o, e = payloads[name.encode()]
            payloads[name.encode()] = (o[:wo], e[:we])
    real["runs_with_exec_failure"] = real.get("runs_with_exec_failure", 0) + (1 if notrun else 0)
    real["capture_" + spec.get("capture", "pipe")] = real.get("capture_" + spec.get("capture", "pipe"), 0) + 1
    real["runs"] += 1
    real["hosts"] += len(targets)
    real["bytes"] += len(so) + len(se)
    case = dict(spec, cmd=" ".join(cmd[:-3]) + " DIR/cmd(=relay_writer) DIR %h", exec_failed=[t.decode() for t in notrun],
                pdsh_stdout_head=so[:400].decode("latin-1"), pdsh_stderr_head=se[:400].decode("latin-1"), rc=rc)
    if rc != 0:
        return ("crash" if rc != -999 else "timeout",
                "real pdsh run %s: %s" % ("does not end" if rc == -999 else "exits %d" % rc, se[-300:]), case)

    class C:   # minimal view for relay.py_label
        pass
    c = C()
    c.targets, c.optK, c.labels = targets, optK, labels
    if hung and not notrun:
        import re
        # pdsh's own diagnostics: "pdsh@host: h: command timeout", "... killed by signal 15", and the exec
        # module's "sending signal 15 to h [cmd] pid N"
        se = re.sub(b"pdsh@[^\n]*\n|sending signal [0-9]+ to [^\n]*\n", b"", se)
    if notrun:
        # pdsh's own diagnostics about such a target go to stderr: the child's "execvp ... failed" line (relayed
        # under the target's label) and "pdsh@host: target: cmd exited with exit code 255".  The properties say
        # nothing about them; they are taken out of stderr (whole lines, wherever they start).  stdout is judged
        # as it is: a target that could not be started contributes NO record.
        import re
        labs = set()
        for i, t in enumerate(targets):
            if t in notrun:
                labs.add(re.escape(relay.py_label(c, i) + b": "))
        pat = re.compile(b"(?:" + b"|".join(sorted(labs)) + b")?pdsh@[^\n]*\n") if labels else \
            re.compile(b"pdsh@[^\n]*\n")
        se = pat.sub(b"", se)
    for which, data, sel in (("stdout", so, 0), ("stderr", se, 1)):
      try:
          whole, split, loose = [], [], []
          for i, h in enumerate(targets):
              prefix = (relay.py_label(c, i) + b": ") if labels else b""
              pl = b"" if h in notrun else payloads[h][sel]
              whole.append(records(prefix, pl))
              split.append(records(prefix, pl, split_tail=True))
              loose.append(records(prefix, pl, split_tail=True, split_all=True))
          if parse_shuffle(data, whole):
              continue
          if parse_shuffle(data, split):
              real["tail_split_raced"] += 1
              if prop == "C06":
                  return ("tail-record-split",
                          "real run: %s parses as whole records only if a host's tail label and tail data are "
                          "taken as separate records (another host's record landed between them)" % which, case)
              continue
          # neither: bytes lost/duplicated/reordered, a wrong label, or a record torn apart.  C05 is about the
          # bytes only: it still holds if the output is an interleaving once every label may stand apart
          # from the line it precedes (atomicity of records is C06's business)
          if prop == "C05" and parse_shuffle(data, loose):
              real["records_torn_but_bytes_complete"] = real.get("records_torn_but_bytes_complete", 0) + 1
              continue
          return ("real-bytes-differ" if prop == "C05" else "real-record-torn",
                  "real run: pdsh's %s is not an interleaving of the hosts' labelled records" % which, case)
      except Inconclusive:
          # too ambiguous to attribute (many hosts, no labels, identical records): counted, not judged
          real["inconclusive_parses"] = real.get("inconclusive_parses", 0) + 1
          if total_len(payloads, targets, notrun, sel, labels, relay, c) != len(data):
              return ("real-bytes-differ" if prop == "C05" else "real-record-torn",
                      "real run: pdsh's %s has %d bytes, the hosts' labelled records add up to another number" %
                      (which, len(data)), case)
    return (None, None, case)


def total_len(payloads, targets, notrun, sel, labels, relay, c):
    n = 0
    for i, h in enumerate(targets):
        prefix = (relay.py_label(c, i) + b": ") if labels else b""
        pl = b"" if h in notrun else payloads[h][sel]
        n += sum(len(r) for r in records(prefix, pl))
    return n


def real_tools(ctx):
    copy = ctx.repo_build()
    if not copy:
        return None, None
    writer = os.path.join(ctx.scratch, "relay_writer")
    if not ctx.cc(writer, [os.path.join(HARNESS, "relay_writer.c")], san=False, assertions=False, libs=()):
        return None, None
    return os.path.join(copy, "src/pdsh/pdsh"), writer


def beyond_domain_probe(ctx, pdsh, writer, dist):
    """NOT judged (outside the stated domain of C05): what the real binary does with a line of 200 KiB and with
    a NUL byte -- recorded in the evidence next to the theorems C05.beyond_domain_drops_head / nul_cuts_record"""
    d = os.path.join(ctx.scratch, "beyond")
    os.makedirs(d)
    long_line = b"A" * 1000 + b"B" * (204800 - 1001) + b"\n"
    out = {}
    for name, payload in (("long", long_line + b"next\n"), ("nul", b"ab\0cd\nef\n")):
        open(os.path.join(d, name + ".out"), "wb").write(payload)
        open(os.path.join(d, name + ".err"), "wb").write(b"")
        open(os.path.join(d, name + ".plan"), "w").write("o %d 0\n" % len(payload))
    rc, so, se = run_group([pdsh, "-R", "exec", "-w", "long", writer, d, "%h"], 60)
    first = so.split(b"\n")[0]
    out["line_of_204800_bytes"] = {"relayed_line_bytes": max(0, len(first) + 1 - len(b"long: ")),
                                   "head_bytes_A_relayed": first.count(b"A"), "pdsh_exit": rc,
                                   "diagnostic_on_stderr": bool(se.strip())}
    rc, so, se = run_group([pdsh, "-R", "exec", "-w", "nul", writer, d, "%h"], 60)
    out["ab_NUL_cd_newline_ef_newline"] = {"stdout": so.decode("latin-1"), "pdsh_exit": rc}
    dist["beyond_domain"] = out
    ctx.log("beyond the domain (not judged): %s" % out)


def run_real(ctx, prop, cov, dist):
    pdsh, writer = real_tools(ctx)
    if not pdsh:
        return
    beyond_domain_probe(ctx, pdsh, writer, dist)
    nruns = 24 if ctx.quick() else 220
    real = {"runs": 0, "hosts": 0, "bytes": 0, "tail_split_raced": 0}
    pinned = pinned_specs(ctx.quick())
    real["pinned_runs"] = len(pinned)
    for r in range(-len(pinned), nruns):
        spec = pinned[r + len(pinned)] if r < 0 else gen_spec(ctx, r)
        sig, what, case = exec_spec(ctx, prop, spec, pdsh, writer, os.path.join(ctx.scratch, "real%d" % r if r >= 0 else "realpin%d" % -r), real)
        cov["evaluations"] += 1
        if sig == "timeout":
            # a timeout alone is re-tried once before it is reported (a loaded machine is not a hanging pdsh)
            real["timeouts_retried"] = real.get("timeouts_retried", 0) + 1
            sig, what, case = exec_spec(ctx, prop, spec, pdsh, writer,
                                        os.path.join(ctx.scratch, "real-retry%d" % (r + len(pinned))), real)
        if sig and sig != "timeout" and spec.get("timeout"):
            # a run with a ONE-second command timeout (-u 1) depends on wall-clock time: on a loaded machine a host
            # that is not meant to hang is given up on, or pdsh has not yet read what a host wrote before the watchdog
            # fires (the property is about what was READ).  Such a finding is confirmed with a six-second command
            # timeout before it is reported; a genuine loss repeats, a starved process does not.
            real["command_timeout_findings_rechecked"] = real.get("command_timeout_findings_rechecked", 0) + 1
            sig2, what2, case2 = exec_spec(ctx, prop, dict(spec, timeout=6), pdsh, writer,
                                           os.path.join(ctx.scratch, "real-confirm%d" % (r + len(pinned))), real)
            if sig2:
                sig, what, case = sig2, what2, case2
            else:
                real["command_timeout_load_flakes"] = real.get("command_timeout_load_flakes", 0) + 1
                ctx.log("note: real run %d (-u 1) showed `%s` once and passes with -u 6: a starved process, not judged" % (r, sig))
                sig = None
        if spec.get("pinned") == "exec-fails":
            real["pinned_exec_failures"] = real.get("pinned_exec_failures", 0) + len(case.get("exec_failed", []))
        if sig:
            ctx.offender(sig, what, case)
            if sig in ("crash", "timeout"):
                real["failed_runs"] = real.get("failed_runs", 0) + 1
                if real["failed_runs"] >= 2:
                    break           # every hanging run costs its whole timeout
    dist["real"] = real
    ctx.log("real runs: %s" % real)


def replay_real(ctx, prop, spec, cov, dist, attempts=25):
    """re-run a recorded real run; thread and kernel scheduling are not recorded, so it is repeated"""
    pdsh, writer = real_tools(ctx)
    if not pdsh:
        return
    real = {"runs": 0, "hosts": 0, "bytes": 0, "tail_split_raced": 0}
    for r in range(attempts):
        sig, what, case = exec_spec(ctx, prop, spec, pdsh, writer, os.path.join(ctx.scratch, "replay%d" % r), real)
        cov["evaluations"] += 1
        if sig:
            ctx.log("replay: attempt %d reproduces: %s" % (r + 1, what))
            ctx.offender(sig, what, case)
            break
    else:
        ctx.log("replay: the recorded run passes in %d attempts (the schedule of threads is not recorded)" % attempts)
    dist["real"] = real
