"""C07, real-module part: the scratch-built pdsh with the REAL rsh module (src/modules/xrcmd.c) and the real
kernel, against a scripted rsh peer on 127.9.7.x:514 and an LD_PRELOAD shim (harness/connect_shim.c) whose
connect() hangs / refuses per address, mixed with healthy `exec:` hosts in the same run.  Wall clock, real threads,
real signals: supporting evidence for the model-level theorems, and the only part that runs xrcmd.c's EINTR paths.

Behaviours of a target:
  exec        healthy local command (exec module), prints out-<name>
  talk        rsh peer answers the handshake, sends two lines, closes
  hang        connect() never returns until a signal arrives (then EINTR)              -> "connect: timed out"
  refuse      connect() fails with ECONNREFUSED (xrcmd retries with back-off)          -> "connect: Connection refused"
  mute        rsh peer accepts, reads the request, never answers the handshake         -> "read: protocol failure: timed out"
  noback      rsh peer accepts, reads the port of the stderr back channel, never connects back and never
              answers: the worker sits in xrcmd's xpoll for the circuit setup          -> "rcmd: xpoll (setting up stderr): ..."
  talkhang    rsh peer answers, sends one line, keeps the connection open (needs -u)   -> "command timeout"
  errstall    rsh peer accepts, reads the request, answers with a NON-ZERO status byte and the beginning of an error
              text, then stalls in the middle of the line: the worker sits in xrcmd's loop that reads the remote
              error message; the connect timeout must end that too                      -> "<host>: Perm"
  quietrace   rsh peer answers the handshake and then says nothing, keeps the connection open (needs -u); AND the
              shim holds this worker's poll() entry until the watchdog's first SIGALRM for it has been sent (the
              signal finds the worker outside its blocking call and is lost, the poll then blocks): the watchdog
              must signal again one period later                                         -> "command timeout"
  chatty      local command (exec module) that prints a line every 0.2 s for ever (needs -u): when the deadline
              passes the worker is relaying output, not sitting in xpoll                -> "command timeout"
  dies        local command (exec module) that prints a line and is then killed by a signal (SIGKILL, SIGSEGV)
                                                                                        -> "... killed by signal N"
  exits       local command (exec module) that prints a line and exits with status 3    -> "... exited with exit code 3"
"""
import concurrent.futures
import os
import re
import socket
import subprocess
import threading
import time

from vlib.common import HARNESS

WDOG_POLL = 2
NET = "127.9.7."            # the preferred /24; a Peer takes another one (127.9.K.) when somebody else listens there


def role(addr):
    """behaviour of an address = its last octet (the /24 is chosen per run, see Peer)"""
    try:
        k = int(addr.rsplit(".", 1)[1])
    except (ValueError, IndexError):
        return None
    return ("talk" if 1 <= k <= 6 else "mute" if 7 <= k <= 8 else "talkhang" if 9 <= k <= 10 else
            "shimmed" if 11 <= k <= 16 else "blackhole" if 17 <= k <= 18 else "noback" if 19 <= k <= 20 else
            "errstall" if 21 <= k <= 22 else "quietrace" if 23 <= k <= 24 else None)


def addrs(net, kind):
    return [net + str(k) for k in range(1, 25) if role(net + str(k)) == kind]


class Peer:
    """scripted rsh server; behaviour is fixed per address, so cases can run in parallel.  Several checks may run on
    one machine at the same time (parallel sweeps): each Peer owns a /24 of its own inside 127.9.0.0/16 -- the first
    one in which it can listen on every address it needs."""

    def __init__(self, prefer=NET):
        self.log = []          # (addr, request bytes)
        self.lock = threading.Lock()
        self.socks = []
        self.held = []
        self.net = None
        cands = [prefer] + ["127.9.%d." % (7 + (os.getpid() * 31 + j * 17) % 241) for j in range(1, 60)]
        last = None
        for net in cands:
            try:
                self.listen_on(net)
                self.net = net
                break
            except OSError as e:
                last = e
                self.close()
                self.socks, self.held = [], []
        if self.net is None:
            raise last or OSError("no free 127.9.K.0/24")

    def listen_on(self, net):
        for a in addrs(net, "talk") + addrs(net, "mute") + addrs(net, "talkhang") + addrs(net, "noback") + \
                addrs(net, "errstall") + addrs(net, "quietrace"):
            s = socket.socket()
            self.socks.append(s)
            s.setsockopt(socket.SOL_SOCKET, socket.SO_REUSEADDR, 1)
            s.bind((a, 514))
            s.listen(64)
        for a in addrs(net, "blackhole"):
            # a listener that never accepts and whose backlog is full: the kernel drops further SYNs, so a connect()
            # to it blocks in the kernel (no shim involved) until a signal interrupts it
            s = socket.socket()
            self.socks.append(s)
            s.setsockopt(socket.SOL_SOCKET, socket.SO_REUSEADDR, 1)
            s.bind((a, 514))
            s.listen(0)
            for _ in range(3):
                c = socket.socket()
                c.setblocking(False)
                c.connect_ex((a, 514))
                self.held.append(c)
        for s, a in zip(self.socks, addrs(net, "talk") + addrs(net, "mute") + addrs(net, "talkhang") +
                        addrs(net, "noback") + addrs(net, "errstall") + addrs(net, "quietrace")):
            threading.Thread(target=self.accept_loop, args=(s, a), daemon=True).start()

    def accept_loop(self, s, addr):
        while True:
            try:
                c, peer = s.accept()
            except OSError:
                return
            threading.Thread(target=self.handle, args=(c, peer, addr), daemon=True).start()

    def handle(self, c, peer, addr):
        c.settimeout(40)
        data = b""
        back = None
        try:
            while data.count(b"\0") < 1:
                b = c.recv(1)
                if not b:
                    return
                data += b
            port = data.split(b"\0")[0]
            if role(addr) == "noback":
                c.recv(1)                   # never connect back, never answer; wait until pdsh gives up and closes
                return
            if port.isdigit():              # -s: stderr back channel from a reserved port
                for lp in range(1023, 511, -1):
                    try:
                        back = socket.socket()
                        back.bind((addr, lp))
                        back.connect((peer[0], int(port)))
                        break
                    except OSError:
                        back.close()
                        back = None
            while data.count(b"\0") < 4:
                b = c.recv(1)
                if not b:
                    break
                data += b
            with self.lock:
                self.log.append((addr, data))
            if role(addr) == "mute":
                c.recv(1)                   # never answer; wait until pdsh gives up and closes
                return
            if role(addr) == "errstall":
                c.sendall(b"\1Perm")        # error indicator, then the error text stalls in the middle of the line
                c.recv(1)
                return
            c.sendall(b"\0")
            if role(addr) == "quietrace":
                c.recv(1)                   # says nothing, holds the stream open
                return
            if role(addr) == "talkhang":
                c.sendall(("first-%s\n" % addr).encode())
                c.recv(1)                   # hold the stream open
                return
            c.sendall(("hello-%s\n" % addr).encode())
            time.sleep(0.05)
            c.sendall(("bye-%s\n" % addr).encode())
        except OSError:
            pass
        finally:
            try:
                c.close()
            except OSError:
                pass
            if back:
                back.close()

    def requests(self, token):
        with self.lock:
            return [(a, d) for a, d in self.log if token.encode() in d]

    def close(self):
        for s in self.socks + self.held:
            try:
                s.close()
            except OSError:
                pass


def build_shim(ctx):
    so = os.path.join(ctx.scratch, "connect_shim.so")
    p = subprocess.run(["gcc", "-shared", "-fPIC", "-O1", "-o", so, os.path.join(HARNESS, "connect_shim.c"), "-ldl"],
                       stderr=subprocess.PIPE)
    if p.returncode != 0:
        ctx.broken.append(("C-BROKEN", "connect shim build", p.stderr.decode()[-800:]))
        return None
    return so


def make_helper(ctx):
    helper = os.path.join(ctx.scratch, "c07exec.sh")
    with open(helper, "w") as f:
        f.write("#!/bin/sh\ncase $1 in\n c*) while :; do echo x-$1; sleep 0.2; done;;\n"
                " d0*) echo x-$1; kill -9 $$;;\n d1*) echo x-$1; kill -SEGV $$;;\n x*) echo x-$1; exit 3;;\n"
                " i*) trap '' TERM; echo x-$1; sleep %d;;\n z*) exec <&- >&- 2>&-; sleep %d;;\n"
                " *) echo out-$1;;\nesac\n" % (IMMORTAL_LIFE, IMMORTAL_LIFE))
    os.chmod(helper, 0o755)
    return helper


# a command that ignores SIGTERM (i*) resp. closes its streams and runs on (z*): it lives this long, far beyond
# anything the timeouts allow, and then goes away by itself (nothing is left behind on the machine)
IMMORTAL_LIFE = 25
TEARDOWN_KINDS = ("immortal", "closer")


def teardown_cases():
    """the two witnesses of F07-TEARDOWN-WAIT on the real exec transport, next to a healthy host"""
    return [{"id": 900, "token": "tokimm0900", "ct": 1, "ut": 1, "fanout": 2, "hosts": [("e0", "exec"), ("i0", "immortal")]},
            {"id": 901, "token": "tokclo0901", "ct": 1, "ut": 1, "fanout": 2, "hosts": [("e0", "exec"), ("z0", "closer")]}]


def gen_case(rng, idx, thorough, must=None, net=NET):
    """one mixed run; every timing parameter small"""
    ct = rng.choice([1, 2])
    ut = 2 if must in ("talkhang", "chatty") else (rng.choice([0, 0, 2]) if thorough else rng.choice([0, 2]))
    hosts = []
    nexec = rng.randrange(1, 4)
    for k in range(nexec):
        hosts.append(("e%d" % k, "exec"))
    sh = addrs(net, "shimmed")
    pool = {"talk": addrs(net, "talk"), "mute": addrs(net, "mute"), "talkhang": addrs(net, "talkhang"),
            "hang": sh[:3], "refuse": sh[3:], "blackhole": addrs(net, "blackhole")}
    pool["chatty"] = ["c0", "c1"]
    kinds = ["talk", "hang", "mute", "refuse", "blackhole"] + (["talkhang", "chatty"] if ut > 0 else [])
    must = must or rng.choice(["hang", "hang", "mute", "refuse", "blackhole"])   # every case has a failing host
    chosen = [must] + [rng.choice(kinds) for _ in range(rng.randrange(1, 4))]
    for kd in chosen:
        if pool[kd]:
            a = pool[kd].pop(rng.randrange(len(pool[kd])))
            hosts.append((a, kd))
    rng.shuffle(hosts)
    n = len(hosts)
    fan = rng.choice([n, n + 1, max(2, n - 1)]) if thorough else n
    return {"id": idx, "token": "tok%04d%04d" % (idx, rng.randrange(10000)), "ct": ct, "ut": ut, "fanout": fan,
            "hosts": hosts, "net": net}


def pinned_cases(net=NET):
    """The cases EVERY run executes (no random draw decides whether a fault kind, a timeout option or a position
    relative to the fanout window is covered): each fault kind of the real transport alone next to healthy hosts with
    room for everybody; then the faulty host FIRST / LAST with fanout 1 (the healthy ones queue behind it / it queues
    behind them), -t only, -u only (connect timeout left at a value no fault needs), both."""
    first = {"hang": addrs(net, "shimmed")[0], "refuse": addrs(net, "shimmed")[3], "mute": addrs(net, "mute")[0],
             "talkhang": addrs(net, "talkhang")[0], "blackhole": addrs(net, "blackhole")[0], "chatty": "c0",
             "dies": "d00", "dies-segv": "d10", "exits": "x0", "noback": addrs(net, "noback")[0],
             "errstall": addrs(net, "errstall")[0], "quietrace": addrs(net, "quietrace")[0]}
    talk = addrs(net, "talk")
    out = []

    def add(kind, ct, ut, fan, pos, sopt=False):
        healthy = [("e0", "exec"), (talk[len(out) % len(talk)], "talk"), ("e1", "exec")]
        bad = (first[kind], "dies" if kind.startswith("dies") else kind)
        hosts = [bad] + healthy if pos == "first" else healthy + [bad] if pos == "last" else healthy[:1] + [bad] + healthy[1:]
        i = len(out)
        out.append({"id": 800 + i, "token": "tokpin%04d" % (800 + i), "ct": ct, "ut": ut,
                    "fanout": len(hosts) if fan is None else fan, "hosts": hosts, "net": net, "pinned": True,
                    "sopt": sopt})
    for kind in ("hang", "blackhole", "mute", "refuse"):
        add(kind, 1, 0, None, "mid")                     # -t only
    for kind in ("talkhang", "chatty"):
        add(kind, 10, 2, None, "mid")                    # -u only (the default connect timeout)
    add("hang", 1, 2, 1, "first")                        # both, fanout 1, the hanging host holds the only slot first
    add("blackhole", 2, 0, 1, "last")
    add("mute", 2, 2, 2, "first")
    add("talkhang", 1, 2, 1, "first")
    # a command that dies (killed by a signal) or fails (exit status 3): reported under its name, the others unharmed
    add("dies", 1, 0, None, "mid")
    add("dies-segv", 1, 2, 1, "first")
    add("exits", 1, 0, 2, "last")
    # the stderr back channel of the rsh protocol (xrcmd's circuit setup) with a peer that never connects back
    add("noback", 1, 0, None, "mid")
    add("noback", 2, 2, 1, "first")
    # the remote side reports an error (non-zero status byte) and stalls in the middle of the message
    add("errstall", 1, 0, None, "mid")
    # the watchdog's first SIGALRM for an overdue silent host is sent while its worker is NOT yet inside poll()
    # (the shim holds the poll entry until then): lost; the next watchdog period must interrupt the poll
    add("quietrace", 10, 1, None, "mid")
    # mixed transports the other way round: -R exec is the default, one `rsh:` host hangs in connect; each transport's
    # option post-processing runs, the built-in connect timeout (10 s) must still abandon the rsh host
    add("hang", 10, 0, None, "mid")
    out[-1]["rdefault"] = "exec"
    return out


REFUSE_OBSERVED = 8.0     # xrcmd's back-off 1,2,4,8,16 s with every sleep after the deadline cut to one watchdog period


def expected_wall(case, refuse=None):
    """upper bound from the property: a connecting host is abandoned by ct + WDOG_POLL, a running one by
    ut + WDOG_POLL; hosts beyond the fanout wait for a free slot (one more round).  `refuse` overrides what a
    refusing host is allowed (the known finding F07-REFUSE-BACKOFF)."""
    ct, ut = case["ct"], case["ut"]
    per = 0.5
    for _, kd in case["hosts"]:
        if kd in ("hang", "mute", "blackhole", "noback", "errstall"):
            per = max(per, ct + WDOG_POLL)
        elif kd == "quietrace":
            per = max(per, ut + 2 * WDOG_POLL + 0.5)      # the first signal is lost by construction: one more period
        elif kd == "refuse":
            per = max(per, refuse if refuse is not None else ct + WDOG_POLL)
        elif kd in ("talkhang", "chatty") + TEARDOWN_KINDS:
            per = max(per, ut + WDOG_POLL + 0.5)
    rounds = 1 if case["fanout"] >= len(case["hosts"]) else 2
    # (with fanout < N the faulty hosts are spread over at most two rounds in every generated case: at most 4 faulty
    # hosts, fanout >= N - 1 or exactly one faulty host)
    return per * rounds


def run_case(exe, shim, helper, case, scratch, hard_timeout=None):
    if hard_timeout is None:
        hard_timeout = expected_wall(case, refuse=REFUSE_OBSERVED) + 20
        if any(kd in TEARDOWN_KINDS for _, kd in case["hosts"]):
            hard_timeout = expected_wall(case) + 4.0 + 1.0     # the bound, the slack, and 1 s more
    script = ";".join("%s=%s" % (a, "hang" if kd == "hang" else "refuse:0") for a, kd in case["hosts"]
                      if kd in ("hang", "refuse"))
    local = ("exec", "chatty", "dies", "exits") + TEARDOWN_KINDS
    if case.get("rdefault") == "exec":
        # the other way round: exec is the default transport (-R exec), the network hosts carry the `rsh:` prefix; -t
        # cannot be given with -R exec, so the connect timeout is the built-in default (case["ct"] says what it is)
        words = ",".join(a if kd in local else "rsh:" + a for a, kd in case["hosts"])
    else:
        words = ",".join(("exec:" + a) if kd in local else a for a, kd in case["hosts"])
    # (stderr travels on a connection of its own by default in this build: opt.c separate_stderr = true, there is
    # no -s option; so every rsh target goes through xrcmd's circuit setup)
    argv = [exe, "-R", "rsh", "-t", str(case["ct"]), "-f", str(case["fanout"])]
    if case.get("rdefault") == "exec":
        argv = [exe, "-R", "exec", "-f", str(case["fanout"])]
    if case["ut"] > 0:
        argv += ["-u", str(case["ut"])]
    argv += ["-w", words, helper, "%h", case["token"]]
    env = {"PATH": "/usr/bin:/bin", "LD_PRELOAD": shim, "VERIF_CONNECT_SCRIPT": script}
    race = [a for a, kd in case["hosts"] if kd == "quietrace"]
    if race:
        env["VERIF_POLL_RACE_ADDR"] = race[0]
    t0 = time.time()
    try:
        p = subprocess.run(argv, env=env, stdout=subprocess.PIPE, stderr=subprocess.PIPE, stdin=subprocess.DEVNULL,
                           timeout=hard_timeout, cwd=scratch)
        out, err, rc = p.stdout.decode("latin-1"), p.stderr.decode("latin-1"), p.returncode
    except subprocess.TimeoutExpired as e:
        out = (e.stdout or b"").decode("latin-1")
        err = (e.stderr or b"").decode("latin-1")
        rc = None
    return {"argv": argv[1:], "env": {k: v for k, v in env.items() if k != "PATH"}, "stdout": out, "stderr": err,
            "rc": rc, "wall": round(time.time() - t0, 2)}


# what the property asks for is a report under the host's own name; the texts are xrcmd.c's / dsh.c's.  A refusing
# host is reported as refused when its retries end before the connect timeout, and as timed out when the
# connect timeout ends the retries (repaired xrcmd.c: an interrupted back-off sleep is the expired timeout)
REPORT = {"hang": (": connect: timed out",), "blackhole": (": connect: timed out",),
          "noback": (": rcmd: xpoll (setting up stderr): Interrupted system call",), "mute": (": read: protocol failure: timed out",),
          "refuse": (": connect: Connection refused", ": connect: timed out"), "talkhang": (": command timeout",),
          "chatty": (": command timeout",), "immortal": (": command timeout",), "quietrace": (": command timeout",),
          "errstall": (": Perm",),
          "dies": (": ... killed by signal N",), "exits": (": ... exited with exit code 3",)}


def judge(case, r, peer, slack):
    """-> (functional offenders, timing offenders) as lists of (signature, what)"""
    fun, tim = [], []
    if r["rc"] is None:
        waiters = [(a, kd) for a, kd in case["hosts"] if kd in TEARDOWN_KINDS]
        errl = r["stderr"].splitlines()
        # the finding's signature only if the run looks like the finding: every SIGTERM-ignoring host has been
        # reported as timed out under its name (pdsh got as far as the teardown), nothing but such hosts and healthy
        # ones in the case
        told = all(any(re.match(r"^pdsh@[^:]*: %s: \S" % re.escape(a), l) for l in errl)
                   for a, kd in waiters if kd == "immortal")
        pure = all(kd in TEARDOWN_KINDS + ("exec",) for _, kd in case["hosts"])
        if waiters and case["ut"] > 0 and told and pure:
            fun.append(("real:no-return:teardown-waits-for-command",
                        "pdsh -u %d still runs after %.1f s (the timeouts plus the watchdog period allow %.1f s): %s; "
                        "the command timeout does not apply to the teardown (exec_destroy -> pipecmd_wait -> "
                        "waitpid without a bound); stderr so far %r" %
                        (case["ut"], r["wall"], expected_wall(case), "; ".join(
                            "%s %s" % (a, "ignores the SIGTERM it is sent at the command timeout" if kd == "immortal"
                                       else "closed its streams and runs on (no signal is ever sent to it)")
                            for a, kd in waiters), r["stderr"][-200:])))
        else:
            fun.append(("real:no-termination", "pdsh -R rsh did not end within the hard limit although every hang is "
                        "covered by -t %d%s" % (case["ct"], " -u %d" % case["ut"] if case["ut"] else "")))
        return fun, tim
    outl = r["stdout"].splitlines()
    errl = r["stderr"].splitlines()
    for a, kd in case["hosts"]:
        if kd == "exec":
            k = outl.count("%s: out-%s" % (a, a))
            if k != 1:
                fun.append(("real:healthy-exec", "healthy exec host %s: its line appears %d times" % (a, k)))
        elif kd == "talk":
            stream = outl
            if stream.count("%s: hello-%s" % (a, a)) != 1 or stream.count("%s: bye-%s" % (a, a)) != 1:
                fun.append(("real:healthy-rsh", "healthy rsh host %s: output not relayed completely exactly once" % a))
            nreq = sum(1 for x, _ in peer.requests(case["token"]) if x == a)
            if nreq != 1:
                fun.append(("real:healthy-rsh", "healthy rsh host %s received the command %d times" % (a, nreq)))
        elif kd == "closer":
            pass                       # says nothing; what matters is that pdsh does not wait for it
        else:
            if kd == "talkhang" and "%s: first-%s" % (a, a) not in outl:
                fun.append(("real:output-lost", "%s: the line sent before the hang was not relayed" % a))
            if kd in ("chatty", "dies", "exits") and "%s: x-%s" % (a, a) not in outl:
                fun.append(("real:output-lost", "%s: nothing of what it printed before the deadline was relayed" % a))
            want = " | ".join(a + w for w in REPORT[kd])
            # the property: reported on stderr under its own name -- any line with pdsh's prefix that names the
            # host; the wording (REPORT = today's texts, for the message below only) is not part of it
            if not any(re.match(r"^(pdsh@[^:]*: )?%s: \S" % re.escape(a), l) for l in errl):
                fun.append(("real:not-reported:" + kd, "%s (%s): no line `...%s` on stderr; stderr was %r" %
                            (a, kd, want, r["stderr"][-400:])))
    bound = expected_wall(case)
    if r["wall"] > bound + slack:
        known = expected_wall(case, refuse=REFUSE_OBSERVED)
        refusing = [a for a, kd in case["hosts"] if kd == "refuse"]
        sig = "real:deadline"
        if refusing and r["wall"] <= known + slack:
            sig = "real:deadline:refused-connect-retried"
        tim.append((sig, "pdsh ended after %.1f s; the timeouts (-t %d%s) plus the watchdog period allow %.1f s (+%.0f s "
                    "slack)%s" % (r["wall"], case["ct"], " -u %d" % case["ut"] if case["ut"] else "", bound, slack,
                                  "; %s refuses the connection and xrcmd keeps retrying it with back-off" % refusing[0]
                                  if sig.endswith("retried") else "")))
    return fun, tim


def replay_case(ctx, cov, case):
    """re-run one recorded real-module case (./check.py C07 --replay <file>)"""
    case = dict(case, hosts=[tuple(h) for h in case["hosts"]])
    repo = ctx.repo_build()
    if not repo:
        return
    net = case.get("net", NET)
    peer = Peer(prefer=net)
    if peer.net != net:         # somebody else listens there now: the same case in the /24 this run got
        case = dict(case, net=peer.net,
                    hosts=[(peer.net + a[len(net):] if a.startswith(net) else a, kd) for a, kd in case["hosts"]])
    try:
        shim = build_shim(ctx)
        helper = make_helper(ctx)
        r = run_case(os.path.join(repo, "src/pdsh/pdsh"), shim, helper, case, ctx.scratch)
        fun, tim = judge(case, r, peer, 4.0)
        ctx.log("replay (real rsh module): wall %.1f s rc=%s stderr=%r" % (r["wall"], r["rc"], r["stderr"][-300:]))
        cov["evaluations"] = 1
        for sig, what in fun + tim:
            ctx.log("replay: %s %s" % (sig, what))
            ctx.offender(sig, what, {"real_case": case, "argv": r["argv"], "env": r["env"], "wall_s": r["wall"],
                                     "rc": r["rc"], "stdout": r["stdout"][-1500:], "stderr": r["stderr"][-1500:]})
        if not fun and not tim:
            ctx.log("replay: the property holds on this run")
    finally:
        peer.close()


def run_part(ctx, cov, quick):
    """the whole real-module part; offenders go to ctx, a summary to cov['real_rsh']"""
    summary = {"runs": 0, "retried_for_timing": 0, "skipped": None, "walls": [], "kinds": {}}
    cov["real_rsh"] = summary
    repo = ctx.repo_build()
    if not repo:
        return
    try:
        peer = Peer()
    except OSError as e:
        summary["skipped"] = "cannot listen on port 514 of any 127.9.K.0/24 tried (%s)" % (e,)
        ctx.log("real rsh part skipped: %s" % summary["skipped"])
        return
    try:
        shim = build_shim(ctx)
        if not shim:
            return
        helper = make_helper(ctx)
        exe = os.path.join(repo, "src/pdsh/pdsh")
        n = 4 if quick else 40
        fixed = ["hang", "mute", "refuse", "talkhang", "chatty", "blackhole"]
        cases = teardown_cases() + pinned_cases(peer.net) + \
            [gen_case(ctx.rng, i, not quick, must=fixed[i] if i < len(fixed) and not quick else None, net=peer.net)
             for i in range(n)]
        summary["net"] = peer.net
        summary["pinned"] = len(pinned_cases(peer.net))
        slack = 4.0

        def one(c):
            return c, run_case(exe, shim, helper, c, ctx.scratch)
        with concurrent.futures.ThreadPoolExecutor(max_workers=6) as ex:
            results = list(ex.map(one, cases))
        confirmed = {"hung": 0, "late": 0}     # a second run, alone, showed the same: no need to re-run the rest
        for c, r in results:
            fun, tim = judge(c, r, peer, slack)
            hung = r["rc"] is None and not any(kd in TEARDOWN_KINDS for _, kd in c["hosts"])
            late = bool(tim) and not fun and not all(sg.endswith(":refused-connect-retried") for sg, _ in tim)
            if (hung and confirmed["hung"] < 2) or (late and not hung and confirmed["late"] < 2):
                # a loaded machine: once more, alone, before anything is said about timing (or about not ending
                # within the hard limit)
                summary["retried_for_timing"] += 1
                r = run_case(exe, shim, helper, c, ctx.scratch)
                fun, tim = judge(c, r, peer, slack)
                if r["rc"] is None:
                    confirmed["hung"] += 1
                elif tim:
                    confirmed["late"] += 1
            summary["runs"] += 1
            cov["evaluations"] += 1
            summary["walls"].append(r["wall"])
            for _, kd in c["hosts"]:
                summary["kinds"][kd] = summary["kinds"].get(kd, 0) + 1
            for sig, what in fun + tim:
                ctx.offender(sig, what, {"real_case": c, "argv": r["argv"], "env": r["env"], "wall_s": r["wall"],
                                         "rc": r["rc"], "stdout": r["stdout"][-1500:], "stderr": r["stderr"][-1500:],
                                         "how": "scratch build of pdsh, LD_PRELOAD=harness/connect_shim.c, scripted rsh "
                                                "peer vlib/rshreal.py:Peer on 127.9.7.x:514"})
        ctx.log("real rsh module part: %d runs, wall %.1f..%.1f s, %d retried for timing" %
                (summary["runs"], min(summary["walls"] or [0]), max(summary["walls"] or [0]),
                 summary["retried_for_timing"]))
    finally:
        peer.close()
