"""C08: the scratch-built pdsh with the REAL rsh module (src/modules/xrcmd.c, in-band status) against a small rsh
server of this process's own on loopback addresses (127.<a>.<b>.x:514).  The server RUNS the command string it is sent
with /bin/sh (so the marker line is there exactly when pdsh asked for it) and answers per address:

  .1 coalesce   the handshake status byte (0) and the whole output -- marker line included -- in ONE write: pdsh's
                first read() on the connection may see all of it (a fast command, or a pdsh thread that is scheduled late)
  .2 split      the status byte, 0.4 s later the output (what an rshd usually does)
  .3 deny       a non-zero status byte and a line of error text in one write: the target FAILS WITHOUT A RETURN CODE
                (state DSH_FAILED, rc 0) within milliseconds
  .4 denysplit  the same, the error line 0.3 s after the status byte, in two pieces

Pinned cases, every quick run, no randomness: {-S, -k, -S -k, neither} x {coalesce, split} x {success, code 3, output
followed by code 255}; {-S, -k, -S -k, neither} x a denied target alone / first / last next to a succeeding one.
Judged by the specification (`pdshmodel exit spec`) and compared with the model (`pdshmodel exit model`).
"""
import concurrent.futures
import os
import re
import socket
import subprocess
import threading
import time

from vlib.common import hexs

ROLES = {"coalesce": "1", "split": "2", "deny": "3", "denysplit": "4"}
DENY_TEXT = b"Permission denied.\n"


class RshPeer:
    def __init__(self):
        self.socks = []
        self.net = None
        pid = os.getpid()
        last = None
        for k in range(40):             # a net of our own: another check running at the same time has another pid
            net = "127.%d.%d." % (60 + (pid + k) % 37, (pid // 37 + 11 * k) % 250 + 1)
            socks = []
            try:
                for r in ROLES.values():
                    s = socket.socket()
                    socks.append(s)
                    s.setsockopt(socket.SOL_SOCKET, socket.SO_REUSEADDR, 1)
                    s.bind((net + r, 514))
                    s.listen(64)
                self.socks, self.net = socks, net
                break
            except OSError as e:
                last = e
                for s in socks:
                    s.close()
        if self.net is None:
            raise OSError("cannot listen on a loopback address at port 514: %s" % last)
        for s, (role, r) in zip(self.socks, ROLES.items()):
            threading.Thread(target=self.accept_loop, args=(s, self.net + r, role), daemon=True).start()

    def addr(self, role):
        return self.net + ROLES[role]

    def accept_loop(self, s, addr, role):
        while True:
            try:
                c, _ = s.accept()
            except OSError:
                return
            threading.Thread(target=self.handle, args=(c, addr, role), daemon=True).start()

    def handle(self, c, addr, role):
        c.settimeout(60)
        back = None
        try:
            c.setsockopt(socket.IPPROTO_TCP, socket.TCP_NODELAY, 1)
            peer = c.getpeername()
            data = b""
            while data.count(b"\0") < 1:
                b = c.recv(1)
                if not b:
                    return
                data += b
            port = data.split(b"\0")[0]
            if port.isdigit() and int(port) > 0:    # the stderr back channel, from a reserved port (as rshd does)
                for lp in range(1023, 511, -1):
                    try:
                        back = socket.socket()
                        back.bind((addr, lp))
                        back.connect((peer[0], int(port)))
                        break
                    except OSError:
                        back.close()
                        back = None
            while data.count(b"\0") < 4:            # local user, remote user, command
                b = c.recv(1)
                if not b:
                    return
                data += b
            cmd = data.split(b"\0")[3]
            if role == "deny":
                c.sendall(b"\1" + DENY_TEXT)
                return
            if role == "denysplit":
                c.sendall(b"\1")
                time.sleep(0.3)
                c.sendall(DENY_TEXT[:5])
                time.sleep(0.1)
                c.sendall(DENY_TEXT[5:])
                return
            p = subprocess.run(["/bin/sh", "-c", cmd.decode("latin1")], stdin=subprocess.DEVNULL, stdout=subprocess.PIPE,
                               stderr=subprocess.DEVNULL, env={"PATH": "/usr/bin:/bin"}, timeout=30)
            if role == "coalesce":
                c.sendall(b"\0" + p.stdout)
            else:
                c.sendall(b"\0")
                time.sleep(0.4)
                c.sendall(p.stdout)
        except (OSError, subprocess.TimeoutExpired):
            pass
        finally:
            try:
                c.close()
            except OSError:
                pass
            if back:
                back.close()

    def close(self):
        for s in self.socks:
            s.close()


# what a target is asked to run: (command, what it prints, the code it returns)
CMDS = {"ok": ("true", b"", 0), "rc3": ("(exit 3)", b"", 3), "out255": ("echo hi; (exit 255)", b"hi\n", 255)}
FLAGS = ((1, 0), (0, 1), (1, 1), (0, 0))


def cases():
    """[{S, k, cmd, hosts: [role]}] -- every target of a case runs the same command (one command line)"""
    out = []
    for S, k in FLAGS:
        for role in ("coalesce", "split"):
            for cmd in (("ok", "rc3", "out255") if (S or k) else ("rc3",)):
                out.append({"S": S, "k": k, "cmd": cmd, "hosts": [role]})
        # one slow and one immediate answer in the same run
        out.append({"S": S, "k": k, "cmd": "rc3", "hosts": ["split", "coalesce"]})
        # a target that fails WITHOUT a return code: alone, first, last
        out.append({"S": S, "k": k, "cmd": "ok", "hosts": ["deny"]})
        out.append({"S": S, "k": k, "cmd": "ok", "hosts": ["deny", "coalesce"]})
        out.append({"S": S, "k": k, "cmd": "ok", "hosts": ["split", "deny"]})
    out.append({"S": 1, "k": 0, "cmd": "ok", "hosts": ["denysplit"]})
    out.append({"S": 1, "k": 1, "cmd": "ok", "hosts": ["denysplit", "coalesce"]})
    return out


def argv_of(pdsh, peer, c):
    return [pdsh] + (["-S"] if c["S"] else []) + (["-k"] if c["k"] else []) + \
        ["-f", "32", "-R", "rsh", "-w", ",".join(peer.addr(r) for r in c["hosts"]), CMDS[c["cmd"]][0]]


def model_line(c, magic):
    _, text, code = CMDS[c["cmd"]]
    fs = []
    for r in c["hosts"]:
        if r.startswith("deny"):
            fs.append("c0,o-,v0,d0,t0")
        else:
            out = text + (magic + b"%d\n" % code if (c["S"] or c["k"]) else b"")
            fs.append("c1,o%s,v0,d0,t0" % hexs(out))
    return "dsh %d %d 32 0 %s" % (c["S"], c["k"], ";".join(fs))


def spec_query(c, status):
    code = CMDS[c["cmd"]][2]
    toks = ["cf" if r.startswith("deny") else "e%d" % code for r in c["hosts"]]
    return "adm %d %d 0 %s %d" % (c["S"], c["k"], ",".join(toks), status)


def run_case(pdsh, peer, c):
    argv = argv_of(pdsh, peer, c)
    for attempt in (0, 1):
        try:
            p = subprocess.run(argv, stdin=subprocess.DEVNULL, stdout=subprocess.PIPE, stderr=subprocess.PIPE,
                               env={"PATH": "/usr/bin:/bin"}, timeout=40)
            return p.returncode, p.stdout, p.stderr.decode("utf-8", "replace")[-300:], argv
        except subprocess.TimeoutExpired:
            continue
    return None, b"", "TIMEOUT", argv


def exit_of(ans):
    m = re.search(r"exit (\d+)$", ans)
    return int(m.group(1)) if m else None


def run(ctx, pdsh, bits, magic, dist, cov, distinct, report_bad, only=None):
    try:
        peer = RshPeer()
    except OSError as e:
        ctx.notes.append("real rsh module against a scripted server: %s; skipped" % e)
        dist["cli_rsh"] = "skipped"
        return
    try:
        cs = cases() if only is None else [only]
        with concurrent.futures.ThreadPoolExecutor(max_workers=8) as ex:
            res = list(ex.map(lambda c: run_case(pdsh, peer, c), cs))
    finally:
        peer.close()
    mls = [model_line(c, magic) for c in cs]
    mod = ctx.model("exit", "".join(l + "\n" for l in mls), args=["model", bits])
    sp_in = [spec_query(c, r[0] if r[0] is not None and r[0] >= 0 else 999) for c, r in zip(cs, res)]
    spec = ctx.model("exit", "".join(l + "\n" for l in sp_in), args=["spec"])
    bad = []
    for c, (rc, out, errtxt, argv), ml, m, sp, spl in zip(cs, res, mls, mod, spec, sp_in):
        cov["evaluations"] += 1
        dist["cli_rsh"] = dist.get("cli_rsh", 0) + 1
        dist.setdefault("cli_rsh_kinds", {})
        for r in c["hosts"]:
            dist["cli_rsh_kinds"][r] = dist["cli_rsh_kinds"].get(r, 0) + 1
        distinct.add(("rsh", c["S"], c["k"], c["cmd"], tuple(c["hosts"])))
        generic = ["pdsh"] + [a if not a.startswith(peer.net) else ",".join("<%s>" % r for r in c["hosts"]) for a in argv[1:]]
        case = {"argv_shape": generic, "exit": rc, "stderr": errtxt[-200:], "spec_query": spl, "model_op": ml, "rsh_case": c,
                "server": "vlib/exitrsh.py RshPeer: coalesce = status byte and output in one write, split = 0.4 s apart, "
                          "deny = status byte 1 + error line"}
        if rc is None:
            ctx.offender("timeout", "pdsh -R rsh against the scripted server did not finish within 40 s", case)
            continue
        if rc < 0:
            ctx.offender("crash", "pdsh killed by signal %d: %s" % (-rc, errtxt), case)
            continue
        if "connect:" in errtxt or "rresvport" in errtxt:       # the environment, not the code under test
            ctx.notes.append("real rsh module: %s; case skipped" % errtxt.strip()[-120:])
            continue
        if exit_of(m) != rc:
            ctx.disagreement("exit model vs pdsh binary (real rsh module, scripted server)", "exit %d, model `%s`" % (rc, m), case)
        # the output of a target whose handshake succeeded is not swallowed (C05's business in general; here only the
        # bytes that may share a read() with the status byte)
        text = CMDS[c["cmd"]][1]
        if text and not c["k"] and out.count(text.strip()) != sum(1 for r in c["hosts"] if not r.startswith("deny")):
            ctx.offender("rsh:output-lost", "pdsh -R rsh: %d target(s) printed `%s`, pdsh relayed %r" %
                         (len(c["hosts"]), text.decode().strip(), out[-200:]), case)
        if sp != "ok":
            scn = {"S": c["S"], "k": c["k"], "extra": {"rsh_case": c, "argv_shape": generic, "stderr": errtxt[-200:]},
                   "hosts": [{"outcome": ("cf", 0) if r.startswith("deny") else ("exited", CMDS[c["cmd"]][2]), "chan": "inband",
                              "pre": b"", "late": b"", "out": b""} for r in c["hosts"]]}
            bad.append((scn, " ".join(generic), ml, "exit %d" % rc, spl, exit_of(m) == rc))
    report_bad(ctx, bad, bits, "pdsh (real rsh module, scripted server)")
