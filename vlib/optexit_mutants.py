#!/usr/bin/env python3
"""Mutation runs for C08 / C18 (development aid, not part of any check):

    python3 vlib/optexit_mutants.py C08 [name ...]

Each mutant = one plausible bug edited into a scratch copy of /repo (never /repo itself);
`VERIF_REPO=<copy> ./check.py Cnn --tier quick` must then exit 1 with a VIOLATION line.
"""
import os
import shutil
import subprocess
import sys

HERE = os.path.dirname(os.path.dirname(os.path.abspath(__file__)))

MUTANTS = {
    "C08": [
        ("loop-min", "src/pdsh/dsh.c", "            if (t[i].rc > rc)\n", "            if (t[i].rc < rc)\n"),
        ("loop-skips-first", "src/pdsh/dsh.c", "        for (i = 0; t[i].host != NULL; i++) {\n            if ((t[i].state == DSH_FAILED",
         "        for (i = 1; t[i].host != NULL; i++) {\n            if ((t[i].state == DSH_FAILED"),
        ("rc-failed-253", "src/pdsh/opt.h", "#define RC_FAILED\t254", "#define RC_FAILED\t253"),
        ("destroy-overrides-marker", "src/pdsh/dsh.c", "    rv = rcmd_destroy (a->rcmd);\n    if ((a->rc == 0) && (rv > 0))",
         "    rv = rcmd_destroy (a->rcmd);\n    if (rv > 0)"),
        ("k-ignores-rc", "src/pdsh/dsh.c", "    if (a->kill_on_fail && ((a->state == DSH_FAILED) || (a->rc > 0))) {",
         "    if (a->kill_on_fail && (a->state == DSH_FAILED)) {"),
        ("refused-exit0", "src/pdsh/main.c", "    } else {\n        retval = 1;", "    } else {\n        retval = 0;"),
        ("rc-7bit", "src/pdsh/dsh.c", "        ret = atoi(p + strlen(RC_MAGIC));", "        ret = atoi(p + strlen(RC_MAGIC)) & 0x7f;"),
        ("raw-wait-status", "src/modules/execcmd.c", "    return (WEXITSTATUS (status));", "    return (status);"),
        ("timeout-counts-done", "src/pdsh/dsh.c", "                    continue; /* interrupted by spurious signal */\n\n                result = DSH_FAILED;",
         "                    continue; /* interrupted by spurious signal */\n"),
        ("connect-fail-counts-done", "src/pdsh/dsh.c", "        result = DSH_FAILED;    /* connect failed */", "        result = DSH_DONE;    /* connect failed */"),
        ("noS-returns-max", "src/pdsh/dsh.c", "    if (opt->ret_remote_rc) {\n        for (i = 0; t[i].host", "    if (1) {\n        for (i = 0; t[i].host"),
        ("wait-nohang-poll", "src/common/pipecmd.c", "    if (waitpid (p->pid, &status, 0) < 0)\n",
         "    { int i_, r_ = 0; for (i_ = 0; i_ < 50 && (r_ = waitpid (p->pid, &status, WNOHANG)) == 0; i_++) usleep (10000);\n"
         "      if (r_ == 0) status = 0; }\n    if (0)\n"),
        ("marker-skips-digit", "src/pdsh/dsh.c", "        ret = atoi(p + strlen(RC_MAGIC));", "        ret = atoi(p + strlen(RC_MAGIC) + 1);"),
        ("failed-overwrites-again", "src/pdsh/dsh.c", "                && rc < RC_FAILED)\n                rc = RC_FAILED;", "                )\n                rc = RC_FAILED;"),
        ("late-line-resets-again", "src/pdsh/dsh.c", "            if (read_rc && strstr (buf, RC_MAGIC))", "            if (read_rc)"),
        # round 2: position / flag / boundary classes
        ("loop-skips-last", "src/pdsh/dsh.c", "        for (i = 0; t[i].host != NULL; i++) {\n            if ((t[i].state == DSH_FAILED",
         "        for (i = 0; t[i].host != NULL && t[i + 1].host != NULL; i++) {\n            if ((t[i].state == DSH_FAILED"),
        ("k-ignores-failed-state", "src/pdsh/dsh.c", "    if (a->kill_on_fail && ((a->state == DSH_FAILED) || (a->rc > 0))) {",
         "    if (a->kill_on_fail && (a->rc > 0)) {"),
        ("exit-7bit", "src/pdsh/main.c", "    return retval;\n}", "    return retval & 0x7f;\n}"),
        ("destroy-255-dropped", "src/pdsh/dsh.c", "    rv = rcmd_destroy (a->rcmd);\n    if ((a->rc == 0) && (rv > 0))",
         "    rv = rcmd_destroy (a->rcmd);\n    if ((a->rc == 0) && (rv > 0) && (rv < 255))"),
        ("canceled-not-failed-again", "src/pdsh/dsh.c", "            if ((t[i].state == DSH_FAILED || t[i].state == DSH_CANCELED)",
         "            if ((t[i].state == DSH_FAILED)"),
        ("failed-only-if-rc0", "src/pdsh/dsh.c", "                && rc < RC_FAILED)\n                rc = RC_FAILED;",
         "                && rc < RC_FAILED && t[i].rc == 0)\n                rc = RC_FAILED;"),
        ("marker-only-with-S", "src/pdsh/dsh.c", "    if (opt->kill_on_fail || opt->ret_remote_rc)\n        opt->getstat", "    if (opt->ret_remote_rc)\n        opt->getstat"),
        ("S-with-k-returns-0", "src/pdsh/dsh.c", "    if (opt->ret_remote_rc) {\n        for (i = 0; t[i].host", "    if (opt->ret_remote_rc && !opt->kill_on_fail) {\n        for (i = 0; t[i].host"),
        # round 2b: refusal paths
        ("new-exit-path", "src/pdsh/opt.c", "        case 'N':\n            opt->labels = false;",
         "        case 'N':\n            if (opt->fanout == 4242) errx (\"%p: no\\n\");\n            opt->labels = false;"),
        ("errx-exits-2", "src/common/err.c", "    va_end(ap);\n    exit(1);\n}\n\nvoid out(", "    va_end(ap);\n    exit(2);\n}\n\nvoid out("),
        ("usage-exits-0", "src/pdsh/opt.c", "    exit(1);\n}\n\n\nstatic void _show_version", "    exit(0);\n}\n\n\nstatic void _show_version"),
        ("unknown-rcmd-exit-0", "src/pdsh/opt.c", "        if (rcmd_register_default_rcmd(opt->rcmd_name) < 0)\n            exit(1);",
         "        if (rcmd_register_default_rcmd(opt->rcmd_name) < 0)\n            exit(0);"),
        ("copy-access-failure-not-fatal", "src/pdsh/pcp_client.c", "            errx(\"%p: access: %s: %m\\n\", file);", "            err(\"%p: access: %s: %m\\n\", file);"),
        ("marker-not-for-exec-default", "src/pdsh/dsh.c", "    if (pdsh_personality() == DSH && opt->getstat) {",
         "    if (pdsh_personality() == DSH && opt->getstat && !(opt->rcmd_name && !strcmp (opt->rcmd_name, \"exec\"))) {"),
        # round 2b: the -k paths (which statement ends the run, who is signalled)
        ("k-no-midstream-check", "src/pdsh/dsh.c", "            if (a->kill_on_fail)\n                _die_if_signalled (a);", "            if (0)\n                _die_if_signalled (a);"),
        ("k-midstream-threshold", "src/pdsh/dsh.c", "    if ((sig = (th->rc - 128)) <= 0)", "    if ((sig = (th->rc - 128)) < 0)"),
        ("k-teardown-no-fwd-signal", "src/pdsh/dsh.c", "        _fwd_signal(SIGTERM);\n        errx(\"%p: terminating all processes\\n\");", "        errx(\"%p: terminating all processes\\n\");"),
        ("k-midstream-no-fwd-signal", "src/pdsh/dsh.c", "    _fwd_signal (SIGTERM);\n    errx (\"%p: terminating all processes.\\n\");", "    errx (\"%p: terminating all processes.\\n\");"),
        ("fwd-signal-skips-first", "src/pdsh/dsh.c", "    for (i = 0; t[i].host != NULL; i++) {\n        if (t[i].state == DSH_READING)", "    for (i = 1; t[i].host != NULL; i++) {\n        if (t[i].state == DSH_READING)"),
        ("k-midstream-exit-0", "src/pdsh/dsh.c", "    errx (\"%p: terminating all processes.\\n\");", "    err (\"%p: terminating all processes.\\n\"); exit (0);"),
        ("k-test-before-merge", "src/pdsh/dsh.c", "    rv = rcmd_destroy (a->rcmd);\n    if ((a->rc == 0) && (rv > 0))\n        a->rc = rv;\n",
         "    if (a->kill_on_fail && ((a->state == DSH_FAILED) || (a->rc > 0))) { _fwd_signal(SIGTERM); errx(\"%p: terminating\\n\"); }\n    rv = rcmd_destroy (a->rcmd);\n    if ((a->rc == 0) && (rv > 0))\n        a->rc = rv;\n    if (1) goto out;\n"),
    ],
    "C18": [
        ("env-after-args", "src/pdsh/main.c", "    opt_env(&opt);\n", "",
         "src/pdsh/main.c", "    opt_args(&opt, argc, argv); /* override with command line           */\n",
         "    opt_args(&opt, argc, argv); /* override with command line           */\n    opt_env(&opt);\n"),
        ("fanout-env-name", "src/pdsh/opt.c", 'getenv("FANOUT")', 'getenv("PDSH_FANOUT")'),
        ("u-sets-connect", "src/pdsh/opt.c", "            if (string_to_int (optarg, &opt->command_timeout) < 0)", "            if (string_to_int (optarg, &opt->connect_timeout) < 0)"),
        ("timeout-check-dropped", "src/pdsh/opt.c", "        if (opt->command_timeout < 0) {", "        if (0) {"),
        ("connect-check-gt", "src/pdsh/opt.c", "        if (opt->connect_timeout < 0) {", "        if (opt->connect_timeout <= 0) {"),
        ("username-off-by-one", "src/pdsh/opt.c", "    if (strlen (src) > maxlen)", "    if (strlen (src) > maxlen + 1)"),
        ("trailing-garbage-ok", "src/pdsh/opt.c", "(p == val) || (*p != '\\0') || (n < INT_MIN)", "(p == val) || (n < INT_MIN)"),
        ("range-check-dropped", "src/pdsh/opt.c", " || (n < INT_MIN) || (n > INT_MAX))", ")"),
        ("fanout-check-dropped", "src/pdsh/opt.c", "        if (opt->fanout < 1) {", "        if (0) {"),
        ("empty-number-ok", "src/pdsh/opt.c", "    if (errno || (p == val) || ", "    if (errno || "),
        ("rcmd-env-wins", "src/pdsh/opt.c", "        case 'R':\n            opt->rcmd_name = Strdup(optarg);",
         "        case 'R':\n            if (!opt->rcmd_name) opt->rcmd_name = Strdup(optarg);"),
        ("first-f-wins", "src/pdsh/opt.c", "        case 'f':              /* fanout */\n            if (string_to_int (optarg, &opt->fanout) < 0)",
         "        case 'f':              /* fanout */\n            if (opt->fanout != DFLT_FANOUT) break;\n            if (string_to_int (optarg, &opt->fanout) < 0)"),
        ("pdcp-path-env-ignored", "src/pdsh/opt.c", 'getenv ("PDSH_REMOTE_PDCP_PATH")', 'getenv ("PDSH_REMOTE_PDCP_PATHX")'),
        ("unknown-rcmd-falls-back", "src/pdsh/opt.c", "        if (rcmd_register_default_rcmd(opt->rcmd_name) < 0)\n            exit(1);",
         "        if (rcmd_register_default_rcmd(opt->rcmd_name) < 0)\n            opt->rcmd_name = Strdup(rcmd_get_default_module ());"),
        ("wcoll-unknown-type-ok", "src/pdsh/opt.c", "                    errx (\"%p: Failed to register rcmd \\\"%s\\\" for \\\"%s\\\"\\n\",",
         "                    err (\"%p: Failed to register rcmd \\\"%s\\\" for \\\"%s\\\"\\n\","),
        ("hostspec-order-check-dropped", "src/pdsh/opt.c", "    if (p && q && p > q)\n", "    if (0)\n"),
        ("misc-env-ignored", "src/pdsh/opt.c", 'getenv("PDSH_MISC_MODULES")', 'getenv("PDSH_MISC_MODULEZ")'),
        ("M-appends", "src/pdsh/opt.c", "                if (opt->misc_modules)\n                    Free ((void **) &opt->misc_modules);\n                opt->misc_modules = Strdup (optarg);",
         "                if (!opt->misc_modules)\n                opt->misc_modules = Strdup (optarg);"),
        # round 2: personalities, main as a whole, per-source classes
        ("pdcp-ignores-fanout-env", "src/pdsh/opt.c", '    if ((rhs = getenv("FANOUT")) != NULL)\n', '    if (personality == DSH && (rhs = getenv("FANOUT")) != NULL)\n'),
        ("fanout-check-skipped-with-S", "src/pdsh/opt.c", "        if (opt->fanout < 1) {", "        if (opt->fanout < 1 && !opt->ret_remote_rc) {"),
        ("username-check-dsh-only", "src/pdsh/opt.c", "    if (strlen (src) > maxlen)", "    if (personality == DSH && strlen (src) > maxlen)"),
        ("cmd-double-blank", "src/pdsh/opt.c", '                xstrcat(&opt->cmd, " ");', '                xstrcat(&opt->cmd, "  ");'),
        ("cmd-drops-empty-word", "src/pdsh/opt.c", "            xstrcat(&opt->cmd, argv[optind]);", "            if (argv[optind][0]) xstrcat(&opt->cmd, argv[optind]);"),
        ("no-command-runs-dsh", "src/pdsh/main.c", "        else if (pdsh_personality() == PCP || opt.cmd != NULL)", "        else if (1)"),
        ("env-timeout-unchecked", "src/pdsh/opt.c", "        if (opt->command_timeout < 0) {", "        if (opt->command_timeout < 0 && !getenv (\"PDSH_COMMAND_TIMEOUT\")) {"),
        ("second-R-ignored", "src/pdsh/opt.c", "        case 'R':\n            opt->rcmd_name = Strdup(optarg);",
         "        case 'R':\n            { static int seen_; if (seen_++) break; }\n            opt->rcmd_name = Strdup(optarg);"),
        ("octal-accepted", "src/pdsh/opt.c", "    n = strtol (val, &p, 10);", "    n = strtol (val, &p, 0);"),
        # round 2b: settings that -q shows correctly but that are not in force where they are USED
        ("connect-timeout-not-handed-on", "src/pdsh/dsh.c", "    connect_timeout = opt->connect_timeout;", "    connect_timeout = CONNECT_TIMEOUT;"),
        ("connect-uses-command-timeout", "src/pdsh/dsh.c", "    connect_timeout = opt->connect_timeout;", "    connect_timeout = opt->command_timeout;"),
        ("connect-timeout-never", "src/pdsh/dsh.c", "    if ((connect_timeout > 0) && (th->start != ((time_t) -1))) {", "    if (0 && (connect_timeout > 0) && (th->start != ((time_t) -1))) {"),
        ("copy-uses-local-path", "src/pdsh/dsh.c", "        xstrcat(&cmd, opt->remote_program_path);\n        if (opt->recursive)\n            xstrcat(&cmd, \" -r\");\n        if (opt->preserve)\n            xstrcat(&cmd, \" -p\");\n        if (list_count(pcp_infiles) > 1)",
         "        xstrcat(&cmd, opt->local_program_path);\n        if (opt->recursive)\n            xstrcat(&cmd, \" -r\");\n        if (opt->preserve)\n            xstrcat(&cmd, \" -p\");\n        if (list_count(pcp_infiles) > 1)"),
        ("reverse-copy-uses-local-path", "src/pdsh/dsh.c", "        xstrcat(&cmd, opt->remote_program_path);\n\n        if (opt->recursive)",
         "        xstrcat(&cmd, opt->local_program_path);\n\n        if (opt->recursive)"),
        ("env-path-after-verify", "src/pdsh/opt.c", "                Free ((void **) &opt->remote_program_path);\n                opt->remote_program_path = Strdup(optarg);",
         "                if (!getenv (\"PDSH_REMOTE_PDCP_PATH\")) { Free ((void **) &opt->remote_program_path);\n                opt->remote_program_path = Strdup(optarg); }"),
    ],
}


def apply(copy, edits):
    it = iter(edits)
    for path, old, new in zip(it, it, it):
        p = os.path.join(copy, path)
        s = open(p).read()
        if s.count(old) != 1:
            raise ValueError("mutant does not apply uniquely: %s %r (%d)" % (path, old[:40], s.count(old)))
        open(p, "w").write(s.replace(old, new))


def main():
    prop = sys.argv[1]
    only = set(sys.argv[2:])
    res = []
    for m in MUTANTS[prop]:
        name, edits = m[0], list(m[1:])
        if only and name not in only:
            continue
        copy = "/var/tmp/optexit-mutant-%s-%s" % (prop, name)
        shutil.rmtree(copy, ignore_errors=True)
        subprocess.run(["cp", "-a", os.environ.get("MUTANT_BASE", "/repo"), copy], check=True)
        try:
            apply(copy, edits)
        except ValueError as e:
            print("%-28s SKIPPED (%s)" % (name, e), flush=True)
            shutil.rmtree(copy, ignore_errors=True)
            continue
        p = subprocess.run([os.path.join(HERE, "check.py"), prop, "--tier", "quick"], cwd=HERE,
                           env=dict(os.environ, VERIF_REPO=copy), stdout=subprocess.PIPE, stderr=subprocess.STDOUT)
        out = p.stdout.decode("utf-8", "replace")
        viol = [l for l in out.splitlines() if l.startswith("VIOLATION")]
        what = [l for l in out.splitlines() if "violation:" in l or "broken:" in l]
        verdict = "CAUGHT" if p.returncode == 1 and viol else "MISSED"
        if viol and all("no-failing-input-found" in v for v in viol):
            verdict = "CAUGHT(correspondence only)"
        res.append((name, verdict))
        print("%-28s %s rc=%d :: %s" % (name, verdict, p.returncode, (what[0] if what else "")[:260]), flush=True)
        shutil.rmtree(copy, ignore_errors=True)
    print("summary:", ", ".join("%s=%s" % r for r in res))


if __name__ == "__main__":
    main()
