"""Integration of tools/c2lean.py (C -> Lean translator) into the checks.

    from vlib import c2lean
    def run(ctx):
        ctx.gen_consts([...])
        c2lean.regen(ctx, ["Hostlist"])                                  # Gen/FnHostlist.lean from /repo NOW
        ctx.lean_build([PROPS, "pdshmodel"] + c2lean.bridge_targets(["Hostlist"]))   # bridges re-proved
        ...

`regen` translates the registered functions of the given units from the tree under check
(VERIF_REPO, default /repo) and rewrites lean/PdshVerif/Gen/Fn<Unit>.lean under the same lock
`ctx.gen_consts` / `ctx.lean_build` use; the files are byte-identical when the source is unchanged, so
nothing rebuilds.  A function that has left the translatable subset (or has vanished) is recorded as
P-BROKEN; a function whose behaviour changed makes its bridge theorem fail in `ctx.lean_build`, which
records P-BROKEN as for any other proof.
"""
import fcntl
import importlib.util
import json
import os

from vlib.common import VERIF, REPO, LEAN_DIR

TOOL = os.path.join(VERIF, "tools", "c2lean.py")
TARGETS = os.path.join(VERIF, "tools", "c2lean_targets.json")
GEN_DIR = os.path.join(LEAN_DIR, "PdshVerif", "Gen")


def _tool():
    spec = importlib.util.spec_from_file_location("c2lean_tool", TOOL)
    mod = importlib.util.module_from_spec(spec)
    spec.loader.exec_module(mod)
    return mod


def registry():
    with open(TARGETS) as f:
        return json.load(f)["units"]


def units_for(prop):
    """the units that contain a function whose model definition property `prop` uses"""
    return [u for u, spec in registry().items()
            if any(prop in f.get("props", []) for f in spec["functions"])]


def bridge_targets(units=None):
    """lake targets that re-prove the bridges of the given units (all units when None)"""
    reg = registry()
    return [spec["bridge_module"] for u, spec in reg.items() if units is None or u in units]


def regen(ctx, units=None, repo=None):
    """Translate; returns True when every registered function of the units translated."""
    tool = _tool()
    with open(os.path.join(LEAN_DIR, ".lock"), "w") as lk:
        fcntl.flock(lk, fcntl.LOCK_EX)
        changed, failures, _ = tool.regen(repo or REPO, TARGETS, GEN_DIR, list(units) if units else None)
    for path in changed:
        msg = "Gen/%s changed (re-translated from the tree under check)" % os.path.basename(path)
        ctx.log(msg) if hasattr(ctx, "log") else None
    for (unit, fn, why) in failures:
        ctx.broken.append(("P-BROKEN", "c2lean:%s.%s" % (unit, fn),
                           "the function is no longer translatable (bridge to the model lost): " + why))
    return not failures
