"""Integration of tools/c2lean.py (C -> Lean translator) into the checks.

    from vlib import c2lean
    def run(ctx):
        ctx.gen_consts([...])
        c2lean.regen(ctx, ["Hostlist"])                                  # Gen/FnHostlist.lean from /repo NOW
        ctx.lean_build([PROPS, "pdshmodel"] + c2lean.bridge_targets(["Hostlist"]))   # bridges re-proved
        ...

`regen` translates the registered functions of the given units from the tree under check
(VERIF_REPO, default /repo) and rewrites lean/PdshVerif/Gen/Fn<Unit>.lean under the same lock
`ctx.gen_consts` / `ctx.lean_build` use; the files are byte-identical when the source is unchanged, so
nothing rebuilds.  A function that has left the translatable subset (or has vanished) is recorded as
P-BROKEN; a function whose behaviour changed makes its bridge theorem fail in `ctx.lean_build`, which
records P-BROKEN as for any other proof.
"""
import fcntl
import importlib.util
import json
import os

from vlib.common import VERIF, REPO, LEAN_DIR

TOOL = os.path.join(VERIF, "tools", "c2lean.py")
TARGETS = os.path.join(VERIF, "tools", "c2lean_targets.json")
GEN_DIR = os.path.join(LEAN_DIR, "PdshVerif", "Gen")


def _tool():
    spec = importlib.util.spec_from_file_location("c2lean_tool", TOOL)
    mod = importlib.util.module_from_spec(spec)
    spec.loader.exec_module(mod)
    return mod


def registry():
    with open(TARGETS) as f:
        return json.load(f)["units"]


def units_for(prop):
    """the units that contain a function whose model definition property `prop` uses"""
    return [u for u, spec in registry().items()
            if any(prop in f.get("props", []) for f in spec["functions"])]


_CUR_PROP = None      # the property of the check that called regen() last (one check per process)


def bridge_targets(units=None, prop=None):
    """lake targets that re-prove the bridges of the given units (all units when None).  Inside a check (after
    `regen(ctx, ..)`) only the modules of the targets registered with THAT property: a target may name its own
    bridge module ("module"), so that a refactoring of a neighbouring function of the same C file, wired to
    another property or to none, cannot break this check."""
    reg = registry()
    prop = prop or _CUR_PROP
    out = []
    for u, spec in reg.items():
        if units is not None and u not in units:
            continue
        for f in spec["functions"]:
            if prop is not None and prop not in f.get("props", []):
                continue
            m = f.get("module", spec["bridge_module"])
            if m not in out:
                out.append(m)
    return out


def regen(ctx, units=None, repo=None):
    """Translate; returns True when every registered function of the units that THIS property uses translated
    (a unit is always translated as a whole; targets of the same C file that are wired to other properties, or to
    none, are regenerated too, but their failure is only logged here: it is reported by their own checks)."""
    global _CUR_PROP
    prop = getattr(ctx, "prop", None)
    _CUR_PROP = prop
    reg = registry()
    tool = _tool()
    with open(os.path.join(LEAN_DIR, ".lock"), "w") as lk:
        fcntl.flock(lk, fcntl.LOCK_EX)
        changed, failures, _ = tool.regen(repo or REPO, TARGETS, GEN_DIR, list(units) if units else None)
    for path in changed:
        msg = "Gen/%s changed (re-translated from the tree under check)" % os.path.basename(path)
        ctx.log(msg) if hasattr(ctx, "log") else None
    mine = []
    for (unit, fn, why) in failures:
        props = None
        for f in reg.get(unit, {}).get("functions", []):
            if f["name"] == fn:
                props = f.get("props", [])
        if prop is not None and props is not None and prop not in props:
            if hasattr(ctx, "log"):
                ctx.log("c2lean: %s.%s (not used by %s) no longer translates: %s" % (unit, fn, prop, why[:200]))
            continue
        mine.append((unit, fn, why))
        ctx.broken.append(("P-BROKEN", "c2lean:%s.%s" % (unit, fn),
                           "the function is no longer translatable (bridge to the model lost): " + why))
    return not mine
