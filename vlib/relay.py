"""Shared machinery of the output-relay checks C05 / C06 (engine `relay`).

in-process part:  harness/relay_harness.c (unmodified dsh.c + err.c + cbuf.c of the tree under test,
                  fputs interposed) vs `pdshmodel relay index|fifo` (correspondence, call by call)
                  vs `pdshmodel relay spec` (the property-level oracle, Relay/Spec.lean)
real-process part: scratch build of pdsh, `pdsh -R exec -w ... helper`, whole output parsed as a
                  shuffle of per-host record sequences (supporting evidence: kernel fragmentation,
                  real threads, dsh()'s own domain loop)
"""
import os
import resource
import subprocess
import sys

from vlib.common import HARNESS, REPO, hexs, unhex
from vlib.seqrun import run_batch

MAGIC = b"XXRETCODE:"
MAXLINE = 131072
LINEBUFSIZE = 2048


# ----------------------------------------------------------------------------- build / run
def build_harness(ctx, name, assertions):
    exe = os.path.join(ctx.scratch, name)
    srcs = [os.path.join(HARNESS, "relay_harness.c")] + \
           [os.path.join(REPO, "src/common", f) for f in ("xmalloc.c", "xstring.c", "fd.c", "xpoll.c")]
    ok = ctx.cc(exe, srcs, flags=["-fno-builtin", "-Wl,--wrap=fputs", "-Wl,--wrap=read", "-Wl,--wrap=poll"], san=True, assertions=assertions)
    return exe if ok else None


def _big_stack():
    try:
        resource.setrlimit(resource.RLIMIT_STACK, (resource.RLIM_INFINITY, resource.RLIM_INFINITY))
    except Exception:
        pass


def run_model(ctx, args, text, timeout=1800):
    """the compiled Lean driver, with an unlimited stack (long lines = deep structural recursion)"""
    p = subprocess.run([getattr(ctx, "_relay_driver", None) or ctx.driver_path(), "relay"] + list(args),
                       input=text.encode(), stdout=subprocess.PIPE,
                       stderr=subprocess.PIPE, timeout=timeout, preexec_fn=_big_stack)
    if p.returncode != 0:
        raise RuntimeError("model driver failed: " + p.stderr.decode("utf-8", "replace")[-2000:])
    return p.stdout.decode("utf-8", "replace").splitlines()


def run_impl(exe, seqs, timeout=1800, max_crashes=4, op_timeout=10):
    """seqrun.run_batch with a bound on restarts: each op line yields one answer line; when the output
    stops inside a sequence (sanitizer abort, fatal, op timeout) that sequence gets the crash text and
    the rest is re-run in a fresh process -- at most `max_crashes` times (every hang costs the harness'
    op timeout); sequences not reached are returned as (None, "skipped")"""
    env = dict(os.environ, ASAN_OPTIONS="detect_leaks=0", RELAY_OP_TIMEOUT=str(op_timeout))
    results = []
    start = 0
    crashes = 0
    while start < len(seqs):
        if crashes >= max_crashes:
            results += [(None, "skipped")] * (len(seqs) - start)
            break
        chunk = seqs[start:]
        text = "".join(l + "\n" for s in chunk for l in s)
        try:
            p = subprocess.run([exe], input=text.encode(), stdout=subprocess.PIPE, stderr=subprocess.PIPE,
                               timeout=timeout, env=env)
            rc, out, err = p.returncode, p.stdout, p.stderr
        except subprocess.TimeoutExpired as e:
            rc, out, err = -999, e.stdout or b"", b"TIMEOUT (whole batch)"
        lines = out.decode("utf-8", "replace").split("\n")
        if lines and lines[-1] == "":
            lines.pop()
        pos = 0
        complete = True
        for s in chunk:
            if pos + len(s) <= len(lines):
                results.append((lines[pos:pos + len(s)], None))
                pos += len(s)
            else:
                results.append((lines[pos:], "rc=%s %s" % (rc, err.decode("utf-8", "replace")[-1500:])))
                crashes += 1
                complete = False
                break
        start = len(results)
        if complete:
            if rc != 0 and results:
                a, _ = results[-1]
                results[-1] = (a, "rc=%s %s" % (rc, err.decode("utf-8", "replace")[-1500:]))
            break
    return results


_DIAG = None


def canon_diag(ans):
    """dsh.c's own diagnostics (err ("%p: ...")) name the program, the local host and strerror: in the answers of
    the implementation every stderr emission that starts with `pdsh@` becomes the model's `9:-`"""
    global _DIAG
    import re
    if _DIAG is None:
        _DIAG = re.compile(r" 2:" + hexs(b"pdsh@") + r"[0-9a-f]*")
    return [_DIAG.sub(" 9:-", a) if " 2:70647368" in a else a for a in ans]


def harness_meta(exe):
    return int(subprocess.run([exe, "--meta"], stdout=subprocess.PIPE).stdout.decode().strip())


def growth_info(ctx, meta):
    """`pdshmodel relay growth <meta>`: the side condition of the losslessness theorems (Relay/Growth.lean
    `growthOk`) evaluated on the regenerated constants, the capacities the buffer runs through, the first
    growth step that loses data (if any), the marker's spelling"""
    out = run_model(ctx, ["growth", str(meta)], "")
    f = dict(w.split("=", 1) for w in (out[0] if out else "").split() if "=" in w)
    g = {"ok": f.get("ok") == "1", "meta": meta}
    for k in ("min", "max", "chunk", "meta_assert"):
        if f.get(k, "").isdigit():
            g[k] = int(f[k])
    g["path"] = [int(x) for x in f.get("path", "").split(",") if x.isdigit()]
    b = f.get("bad", "-")
    g["bad"] = tuple(int(x) for x in b.split(":")) if ":" in b else None
    g["magic"] = unhex(f.get("magic", "-")) or MAGIC
    return g


# ----------------------------------------------------------------------------- generators
TEXT = b"abcdefghijklmnopqrstuvwxyzABCDEFGHIJKLMNOPQRSTUVWXYZ0123456789 .:,;-_/\\%$#@!()[]{}<>|&*+=~^'\"?\t\r"

LINE_LENS_SMALL = [0, 0, 1, 2, 3, 5, 8, 13, 30, 61, 62, 63, 64, 65, 66, 127, 128, 129]
LINE_LENS_MID = [400, 934, 935, 936, 998, 999, 1000, 1001, 1002, 1935, 1998, 1999, 2000, 2001, 3999, 4000]
LINE_LENS_TAILBUF = [8190, 8191, 8192, 8193]
LINE_LENS_HUGE = [131070, 131071]            # + newline = 131071, 131072 (the domain's edge)
LINE_LENS_BEYOND = [131072, 131073, 132100]  # + newline > 131072: outside the domain of C05


def gen_text(rng, n, hostnames=()):
    """n bytes, no NUL, no newline, no marker"""
    style = rng.random()
    if n == 0:
        return b""
    if style < 0.15 and hostnames:
        # adversarial for label stripping: data that looks like somebody's label
        h = rng.choice(hostnames) or b"h"
        pat = h + b": "
        out = (pat * (n // len(pat) + 1))[:n]
    elif style < 0.30:
        out = bytes(rng.choice(b"xyz") for _ in range(min(n, 7))) * (n // 7 + 1)
        out = out[:n]
    elif style < 0.45:
        out = bytes(rng.randrange(1, 256) for _ in range(n)).replace(b"\n", b"\x0b")
    else:
        out = bytes(rng.choice(TEXT) for _ in range(n))
    out = out.replace(MAGIC, b"xxretcode:")
    # a marker can also arise across the seam of repeated patterns: re-check
    while MAGIC in out:
        out = out.replace(MAGIC, b"xxretcode:")
    assert len(out) == n and b"\n" not in out and b"\0" not in out
    return out


def gen_stream(rng, size_class, hostnames=(), allow_beyond=False):
    """returns (payload, tags); tags is a set of strings describing what the stream exercises"""
    tags = set()
    lines = []
    if size_class == "tiny":
        nl = rng.randrange(0, 5)
        lens = [rng.choice(LINE_LENS_SMALL[:9]) for _ in range(nl)]
    elif size_class == "small":
        nl = rng.randrange(0, 9)
        lens = [rng.choice(LINE_LENS_SMALL) for _ in range(nl)]
    elif size_class == "mid":
        nl = rng.randrange(1, 7)
        lens = [rng.choice(LINE_LENS_SMALL + LINE_LENS_MID + LINE_LENS_MID) for _ in range(nl)]
    elif size_class == "tailbuf":
        nl = rng.randrange(0, 4)
        lens = [rng.choice(LINE_LENS_SMALL + LINE_LENS_TAILBUF) for _ in range(nl)]
    elif size_class == "burst":
        # a chatty stream: (optionally after a line that made the buffer grow) a burst of very many very short
        # lines, so that ONE read hands _flush_lines tens to hundreds of complete lines at once
        lens = [rng.choice([0, 5, 40, 63, 64, 65, 200, 998, 1000, 1500])] if rng.random() < 0.8 else []
        k = rng.choice([20, 63, 64, 65, 127, 128, 129, 150, 200, 300, 500, 800])
        w = rng.choice([0, 0, 1, 1, 2, 3])
        lens += [w if rng.random() < 0.9 else rng.randrange(0, 4) for _ in range(k)]
        if rng.random() < 0.3:
            lens += [rng.choice(LINE_LENS_SMALL) for _ in range(rng.randrange(1, 4))]
        tags.add("burst")
    else:  # huge
        nl = rng.randrange(1, 4)
        lens = [rng.choice(LINE_LENS_SMALL + LINE_LENS_MID) for _ in range(nl)]
        lens[rng.randrange(nl)] = rng.choice(LINE_LENS_HUGE + (LINE_LENS_BEYOND if allow_beyond else []))
    for n in lens:
        lines.append(gen_text(rng, n, hostnames) + b"\n")
        if n == 0:
            tags.add("empty-line")
        if n + 1 > MAXLINE:
            tags.add("beyond-domain")
    # the final fragment
    r = rng.random()
    if r < 0.45:
        tail = b""
    elif size_class == "tailbuf" or (size_class == "mid" and r < 0.6):
        tail = gen_text(rng, rng.choice([1, 63, 64, 65, 999, 1000, 8190, 8191, 8192, 8193, 8194, 16381, 16382, 16383,
                                         16384, 20000]), hostnames)
    elif size_class == "huge" and r < 0.6:
        tail = gen_text(rng, rng.choice([131071, 131072] + ([131073, 140000] if allow_beyond else [])), hostnames)
        if len(tail) > MAXLINE:
            tags.add("beyond-domain")
    else:
        tail = gen_text(rng, rng.choice([1, 1, 2, 3, 10, 63, 64, 65, 200]), hostnames)
    if tail:
        tags.add("tail")
        if len(tail) >= 8192:
            tags.add("long-tail")
    return b"".join(lines) + tail, tags


def spoil(rng, payload, kind):
    """out-of-domain variants (model correspondence only)"""
    if kind == "nul":
        b = bytearray(payload or b"ab\ncd")
        for _ in range(rng.randrange(1, 4)):
            b[rng.randrange(len(b))] = 0
        return bytes(b)
    if kind == "magic":
        # a marker inside the text: with/without preceding text, various digits, maybe not last
        pre = gen_text(rng, rng.choice([0, 0, 1, 3, 10]))
        digs = rng.choice([b"0", b"3", b"7", b"12", b"127", b"255", b"", b"-1", b" 42", b"+5", b"99999999999",
                           b"9223372036854775808", b"4294967297", b"1x", b"x"])
        post = rng.choice([b"\n", b"\n", b"", b"\nmore\n", b" tail\n"])
        pos = rng.choice([0, len(payload)])
        if pos and not payload.endswith(b"\n") and rng.random() < 0.5:
            payload += b"\n"
        ins = pre + MAGIC + digs + post
        return payload[:pos] + ins + payload[pos:]
    return payload


def chunkings(rng, payload, style):
    """cut payload into the chunks that arrive between handler calls (may contain empty chunks =
    a poll that finds nothing new)"""
    n = len(payload)
    if n == 0:
        return [b""] if rng.random() < 0.5 else []
    cuts = set()
    if style == "whole":
        pass
    elif style == "bytes":
        cuts = set(range(1, n))
    elif style == "newline":
        # boundaries forced onto / just before / just after the newlines
        for i, b in enumerate(payload):
            if b == 10:
                cuts.add(i + rng.choice([0, 1, 1, 2]))
    elif style == "around":
        for c in (63, 64, 65, 999, 1000, 1001, 1999, 2000, 3999, 8191, 8192, 131071, 131072):
            if rng.random() < 0.5:
                cuts.add(c)
        for _ in range(rng.randrange(0, 4)):
            cuts.add(rng.randrange(1, n + 1))
    elif style == "small":
        pos = 0
        while pos < n:
            pos += rng.choice([1, 1, 2, 3, 5, 7, 17, 40])
            cuts.add(pos)
    else:  # random
        k = rng.randrange(1, 12)
        for _ in range(k):
            cuts.add(rng.randrange(1, n + 1))
    cuts = sorted(c for c in cuts if 0 < c < n)
    out = []
    prev = 0
    for c in cuts + [n]:
        out.append(payload[prev:c])
        prev = c
    if rng.random() < 0.3:
        for _ in range(rng.randrange(1, 4)):
            out.insert(rng.randrange(len(out) + 1), b"")
    return out


NAME_POOLS = [
    # names that are prefixes of one another
    [b"h1", b"h10", b"h100", b"h"],
    [b"node1", b"node11", b"node111"],
    # one domain everywhere -> stripped
    [b"a.dom", b"b.dom", b"c.dom"],
    [b"a.dom.sub", b"b.dom.sub"],
    # different domains -> kept
    [b"a.dom", b"b.other"],
    [b"a.dom", b"a.dom.sub"],
    [b"a.x", b"b.x", b"c.y"],
    # with and without a domain mixed (undotted names do not count)
    [b"plain", b"a.dom", b"b.dom"],
    [b"plain", b"a.dom", b"other", b"b.edu"],
    # digit-first names are never shortened
    [b"1.2.3.4", b"10.0.0.1"],
    [b"9host.dom", b"a.dom"],
    [b"127.0.0.1", b"a.x", b"b.x"],
    # odd shapes
    [b".lead", b"a.lead"],
    [b"trail.", b"b."],
    [b"x"],
    [b"a.b.c.d"],
    [b"h:1", b"h: 1"],
    [b"a..b", b"c..b"],
    [b"a.b", b"c..b"],
]


def gen_targets(rng, beyond=False):
    pool = list(rng.choice(NAME_POOLS))
    rng.shuffle(pool)
    k = rng.randrange(1, len(pool) + 1)
    names = pool[:k]
    if rng.random() < 0.15:
        names.append(rng.choice([b"h1", b"a.dom", b"b.zzz", b"7up", b"q"]))
    if rng.random() < 0.1:
        names.append(names[0])            # the same target twice
    if beyond and rng.random() < 0.3:
        base = rng.choice([b"L" * 2040 + b".dom", b"L" * 2046, b"L" * 2047, b"L" * 2048, b"M" * 2100 + b".d",
                           b"4" + b"L" * 2050, b"L" * 2040 + b".abcdefghijk"])
        names.append(base)
    return names


# ----------------------------------------------------------------------------- cases
class Case:
    """one in-process case: targets/options + per (host, stream) payload and chunking + a schedule"""

    def __init__(self):
        self.labels = True
        self.optK = False
        self.targets = []
        self.streams = {}      # (i, 'o'|'e') -> list of chunks
        self.ops = []          # protocol lines
        self.tags = set()
        self.complete = True   # every stream ran to EOF + drain + flush (C05 applies)

    def payload(self, key):
        return b"".join(self.streams[key])

    def to_json(self):
        return {"labels": self.labels, "K": self.optK, "targets": [t.decode("latin-1") for t in self.targets],
                "streams": {"%d%s" % k: [hexs(c) for c in v] for k, v in self.streams.items()},
                "ops": self.ops, "tags": sorted(self.tags)}


def build_ops(rng, case, abandon=False, run_form=False):
    """interleave the feeds of all streams of all hosts; eof + drain per stream; flush per host.
    run_form: every stream as ONE `run` op (what the model's runStream -- the function the theorems are
    about -- computes), streams one after the other"""
    ops = ["begin %d %d %d %s" % (case.labels, case.optK, len(case.targets),
                                  " ".join(hexs(t) for t in case.targets))]
    if run_form and not abandon:
        keys = list(case.streams)
        rng.shuffle(keys)
        for (i, s) in keys:
            ops.append("run %d %s %s" % (i, s, " ".join(hexs(c) for c in case.streams[(i, s)])))
        for i in sorted(set(k[0] for k in keys)):
            ops.append("flush %d" % i)
        case.ops = ops
        case.tags.add("run-form")
        return case
    pending = {k: list(v) for k, v in case.streams.items()}
    live = [k for k in pending]
    done_hosts = set()
    while live:
        k = rng.choice(live)
        i, s = k
        if pending[k]:
            ops.append("feed %d %s %s" % (i, s, hexs(pending[k].pop(0))))
        else:
            if abandon and rng.random() < 0.5:
                case.complete = False                   # loop left early (timeout): data may stay behind
            else:
                ops.append("eof %d %s" % (i, s))
                ops.append("drain %d %s" % (i, s))
            live.remove(k)
            if not any(kk[0] == i for kk in live) and i not in done_hosts:
                ops.append("flush %d" % i)
                done_hosts.add(i)
    for i in range(len(case.targets)):
        if i not in done_hosts:
            ops.append("flush %d" % i)
    if rng.random() < 0.3 and not run_form:
        # read(2) faults: short reads / spurious EAGAIN / EINTR at some or all handler calls.  A cap of k bytes on a
        # stream of n bytes costs about n/k handler calls: small caps only on small streams
        every = rng.random() < 0.4
        size = {k: len(case.payload(k)) for k in case.streams}
        ops2 = []
        for op in ops:
            w = op.split()
            if w[0] in ("feed", "eof", "drain") and (every or rng.random() < 0.4):
                n = size.get((int(w[1]), w[2]), 0)
                caps = [c for c in ("-", "-", "0", "1", "2", "7", "63", "64", "65", "500", "999", "1000", "1001", "4000")
                        if c in ("-", "0") or int(c) * 300 >= n]
                cap = rng.choice(caps)
                if w[0] == "drain" and cap == "0":
                    cap = "-"
                op = "%s %s %s" % (op, cap, rng.choice(["0", "0", "1", "2", "4"]))
            ops2.append(op)
        ops = ops2
        case.tags.add("read-faults")
    case.ops = ops
    return case


def gen_case(rng, size_class, chunk_style=None, spoil_kind=None, allow_beyond=False, nstreams=None):
    c = Case()
    c.labels = rng.random() < 0.8
    c.optK = rng.random() < 0.25
    c.targets = gen_targets(rng, beyond=allow_beyond)
    n = len(c.targets)
    keys = [(i, s) for i in range(n) for s in "oe"]
    rng.shuffle(keys)
    if nstreams is None:
        nstreams = rng.choice([1, 1, 2, 2, 3, 4]) if size_class in ("tiny", "small") else rng.choice([1, 1, 2])
    for key in keys[:max(1, min(nstreams, len(keys)))]:
        payload, tags = gen_stream(rng, size_class, c.targets, allow_beyond)
        if spoil_kind:
            payload = spoil(rng, payload, spoil_kind)
            tags.add(spoil_kind)
        style = chunk_style or rng.choice(["whole", "bytes", "newline", "newline", "around", "small", "random", "random"])
        if size_class == "burst" and not chunk_style:
            style = rng.choice(["whole", "whole", "around", "random", "random", "small"])
        if style == "bytes" and len(payload) > 600:
            style = "small" if len(payload) < 6000 else "random"
        if style == "small" and len(payload) > 20000:
            style = "random"
        c.streams[key] = chunkings(rng, payload, style)
        c.tags |= tags
        c.tags.add("chunk:" + style)
    return build_ops(rng, c, abandon=(spoil_kind == "abandon"), run_form=rng.random() < 0.25)


def in_domain(case, key):
    """C05/C06's stated domain for the stream `key`"""
    p = case.payload(key)
    if b"\0" in p:
        return False
    if key[1] == "o" and MAGIC in p:
        return False
    pieces = p.split(b"\n")
    for x in pieces[:-1]:
        if len(x) + 1 > MAXLINE:
            return False
    if len(pieces[-1]) > MAXLINE:
        return False
    # labels longer than err.c's tmpstr are outside the modelled domain (DESIGN C06: partial)
    h = case.targets[key[0]]
    if len(h) >= LINEBUFSIZE or any(b"\0" in t for t in case.targets):
        return False
    return True


# ----------------------------------------------------------------------------- evaluation
def parse_answer(a):
    """'<n> <ret> <rc> | S:HEX ...' -> (n, ret, rc, [(S, bytes)])  or None"""
    if " |" not in a:
        return None
    head, _, tail = a.partition(" |")
    h = head.split()
    if len(h) == 2 and h[0] in ("run", "rcp"):
        h = ["0", "0", h[1] if h[1] != "-" and h[0] == "run" else "0"]
    if len(h) != 3:
        return None
    ems = []
    for w in tail.split():
        s, _, hx = w.partition(":")
        ems.append((s, unhex(hx)))
    try:
        return int(h[0]), int(h[1]), int(h[2]), ems
    except ValueError:
        return None


def collect(case, answers):
    """per (host, stream) list of emissions from the implementation's answers + stray emissions"""
    per = {k: [] for k in case.streams}
    stray = []
    for op, a in zip(case.ops, answers):
        w = op.split()
        if w[0] == "begin":
            continue
        pa = parse_answer(a)
        if pa is None:
            continue
        i = int(w[1])
        for s, b in pa[3]:
            if s == "2" and b.startswith(b"pdsh@") and "read-error" in case.tags:
                continue          # dsh.c's own diagnostic about a read(2) that failed (scripted EIO)
            if w[0] == "flush":
                key = (i, "o") if s == "1" else (i, "e") if s == "2" else None
            else:
                want = "1" if w[2] == "o" else "2"
                key = (i, w[2]) if s == want else None
            if key is None or key not in per:
                stray.append((op[:60], s, b))
            else:
                per[key].append(b)
    return per, stray


def spec_lines(case, per):
    """one `rec` line per stream for `pdshmodel relay spec` (which also decides the domain)"""
    keys, lines = [], []
    for key in sorted(case.streams):
        ems = per[key]
        lines.append("rec %s %d %d %d %d %s %s %d %s" % (
            key[1], case.labels, case.optK, key[0], len(case.targets), " ".join(hexs(t) for t in case.targets),
            hexs(case.payload(key)), len(ems), " ".join(hexs(e) for e in ems)))
        keys.append(key)
    return keys, lines


def py_label(case, i):
    """independent (Python) rendering of the property's label rule, cross-checking Relay/Spec.lean"""
    h = case.targets[i]
    doms = set()
    for t in case.targets:
        if b"." in t:
            doms.add(t[t.index(b"."):])
    if h[:1].isdigit() or case.optK or len(doms) > 1:
        return h
    return h.split(b".")[0]


def py_render(prefix, payload):
    out = b""
    parts = payload.split(b"\n")
    for x in parts[:-1]:
        out += prefix + x + b"\n"
    if parts[-1]:
        out += prefix + parts[-1]
    return out


def short(b, n=48):
    return (b[:n].decode("latin-1") + ("..." if len(b) > n else "")) if b is not None else None


def evaluate(ctx, prop, cases, impl, cov, dist, flavour, engines=("index", "fifo"), meta=1):
    """prop: 'C05' or 'C06' (decides which oracle verdict is this property's offender).
    impl = run_batch result for cases; compares with the models and the spec."""
    seqs = [c.ops for c in cases]
    text = "".join(l + "\n" for s in seqs for l in s)
    models = {e: run_model(ctx, [e, str(meta)], text) for e in engines}
    # oracle input from the implementation's own emissions
    all_spec, spec_index = [], []
    collected = []
    for ci, (c, (ans, crash)) in enumerate(zip(cases, impl)):
        if ans is None:
            collected.append(({}, []))
            continue
        per, stray = collect(c, ans)
        collected.append((per, stray))
        if crash is None and c.complete:
            keys, lines = spec_lines(c, per)
            for k, l in zip(keys, lines):
                spec_index.append((ci, k))
                all_spec.append(l)
    verdicts = run_model(ctx, ["spec"], "".join(l + "\n" for l in all_spec)) if all_spec else []
    by_case = {}
    for (ci, k), v in zip(spec_index, verdicts):
        by_case.setdefault(ci, []).append((k, v))
    pos = 0
    for ci, (c, (ans, crash)) in enumerate(zip(cases, impl)):
        n = len(c.ops)
        if ans is None:
            dist["skipped_after_crashes"] = dist.get("skipped_after_crashes", 0) + 1
            pos += n
            continue
        cov["evaluations"] += 1
        dist["ops"] = dist.get("ops", 0) + n
        for tg in c.tags:
            dist["tags"][tg] = dist["tags"].get(tg, 0) + 1
        per, stray = collected[ci]
        if crash is not None:
            dist["crash"] = dist.get("crash", 0) + 1
            ctx.offender("timeout" if "TIMEOUT" in crash else "crash",
                         "relay code of dsh.c %s [%s] at op %d `%s`: %s"
                         % ("does not return" if "TIMEOUT" in crash else "aborts (assertion/sanitizer/fatal)", flavour,
                            len(ans), c.ops[len(ans)][:80] if len(ans) < n else "?", crash[-500:]),
                         dict(c.to_json(), flavour=flavour, impl=ans[-3:]))
            pos += n
            continue
        # ---- correspondence: implementation vs both models, call by call
        ans = canon_diag(ans)
        for e in engines:
            m = models[e][pos:pos + n]
            if ans != m:
                k = next((i for i in range(min(len(ans), len(m))) if ans[i] != m[i]), min(len(ans), len(m)))
                ctx.disagreement("relay model (%s) vs dsh.c (%s)" % (e, flavour),
                                 "op %d `%s`: impl `%s` model `%s`" % (
                                     k, c.ops[k][:70] if k < n else "?", (ans[k] if k < len(ans) else "?")[:160],
                                     (m[k] if k < len(m) else "?")[:160]), c.to_json() if n < 60 else
                                 {"ops_head": c.ops[:k + 1][-8:], "tags": sorted(c.tags)})
        pos += n
        # ---- oracle
        if stray:
            op, s, b = stray[0]
            ctx.offender("stray-emission", "output on a stream/host the op does not concern (or outside fputs): "
                         "op `%s` stream %s bytes `%s`" % (op, s, short(b)), dict(c.to_json(), flavour=flavour))
        for key, v in by_case.get(ci, []):
            f = dict(w.split("=", 1) for w in v.split() if "=" in w)
            i, s = key
            payload = c.payload(key)
            ems = per[key]
            # Domain of the oracle = the property's stated domain (in_domain: no NUL, lines <= 128 KiB, no marker
            # anywhere in a stdout stream, names shorter than LINEBUFSIZE).  The theorems' hypothesis Spec.Dom05,
            # evaluated by the Lean-side validator, is weaker (the marker is excluded from complete lines only):
            # every stream the oracle judges must satisfy it.
            if in_domain(c, key) and f.get("dom") != "1":
                ctx.disagreement("Relay/Spec.lean Dom05 rejects a stream of the stated domain", "verdict `%s`" % (
                    v.split(" label=")[0]), c.to_json() if n < 60 else {"tags": sorted(c.tags)})
            if f.get("dom") == "1" and not in_domain(c, key):
                dist["dom05_only_streams"] = dist.get("dom05_only_streams", 0) + 1
            if not in_domain(c, key):
                dist["out_of_domain_streams"] = dist.get("out_of_domain_streams", 0) + 1
                continue
            dist["in_domain_streams"] = dist.get("in_domain_streams", 0) + 1
            # cross-check of the Lean spec by an independent rendering (guards the oracle itself)
            prefix = (py_label(c, i) + b": ") if c.labels else b""
            if f.get("label") != hexs(prefix) or (f.get("c05") == "ok") != (b"".join(ems) == py_render(prefix, payload)):
                ctx.disagreement("Relay/Spec.lean vs python rendering of the property",
                                 "verdict `%s` prefix %r python-prefix %r" % (v, f.get("label"), hexs(prefix)), c.to_json())
            info = {"host": c.targets[i].decode("latin-1"), "host_index": i, "stream": "stdout" if s == "o" else "stderr",
                    "payload_hex": hexs(payload) if len(payload) < 4000 else hexs(payload[:2000]) + "...",
                    "payload_len": len(payload), "chunks": [len(x) for x in c.streams[key]][:200],
                    "expected_prefix": prefix.decode("latin-1"),
                    "emissions": [short(e, 80) for e in ems][-12:], "flavour": flavour, "case": c.to_json()}
            if len(c.streams[key]) > 1 and payload.count(b"\n") >= 2:
                # non-trivial: at least 2 lines and a chunk boundary strictly inside a line
                cut, inside = 0, False
                for ch in c.streams[key][:-1]:
                    cut += len(ch)
                    if 0 < cut < len(payload) and payload[cut - 1] != 10:
                        inside = True
                        break
                if inside:
                    cov["_distinct"].add(hash((payload, tuple(len(x) for x in c.streams[key]), c.labels, c.optK,
                                               tuple(c.targets), key)))
            if f.get("c06") == "tail-record-split":
                dist["tail_split_seen"] = dist.get("tail_split_seen", 0) + 1
            if prop == "C05" and f.get("c05") != "ok":
                got = b"".join(ems)
                exp = py_render(prefix, payload)
                d = next((j for j in range(min(len(got), len(exp))) if got[j] != exp[j]), min(len(got), len(exp)))
                ctx.offender("relay-bytes-differ",
                             "host %r %s: bytes written differ from the labelled stream at offset %d of %d (wrote %d): "
                             "expected ...%r got ...%r" % (info["host"], info["stream"], d, len(exp), len(got),
                                                           exp[max(0, d - 12):d + 12], got[max(0, d - 12):d + 12]), info)
            if prop == "C06" and f.get("c06") != "ok":
                if f.get("c06") == "tail-record-split":
                    ctx.offender("tail-record-split",
                                 "host %r %s: the unterminated final fragment is written by separate stdio calls for "
                                 "label and data (%r then %r)" % (info["host"], info["stream"], short(ems[-2] if
                                 len(ems) > 1 else b""), short(ems[-1] if ems else b"")), info)
                else:
                    ctx.offender("record-malformed",
                                 "host %r %s: the stdio calls are not whole records `%s`+line in order followed by the "
                                 "tail: %s" % (info["host"], info["stream"], prefix.decode("latin-1"),
                                               [short(e, 40) for e in ems][:8]), info)
            if len(cov["samples"]) < 4 and len(payload) < 60 and len(ems) >= 2 and len(c.streams[key]) > 1:
                cov["samples"].append({"host": info["host"], "stream": info["stream"], "labels": c.labels, "K": c.optK,
                                       "targets": [t.decode("latin-1") for t in c.targets],
                                       "chunks": [x.decode("latin-1") for x in c.streams[key]],
                                       "stdio_calls": [e.decode("latin-1") for e in ems], "verdict": v.split(" label=")[0]})


# ----------------------------------------------------------------------------- small scopes, corpus, D9
def case_from(targets, labels, optK, streams, rng=None, tags=()):
    import random
    c = Case()
    c.targets, c.labels, c.optK = list(targets), labels, optK
    c.streams = dict(streams)
    c.tags = set(tags)
    return build_ops(rng or random.Random(0), c)


def exhaustive_small(tier):
    """every byte string over {a, newline} up to length L x every composition into chunks, on the
    second of two targets whose names are prefixes of one another (stdout and stderr alternate)"""
    import itertools
    L = 4 if tier == "quick" else 7
    out = []
    k = 0
    for n in range(1, L + 1):
        for s in itertools.product(b"a\n", repeat=n):
            s = bytes(s)
            for mask in range(1 << (n - 1)):
                chunks, prev = [], 0
                for j in range(1, n):
                    if mask >> (j - 1) & 1:
                        chunks.append(s[prev:j])
                        prev = j
                chunks.append(s[prev:])
                k += 1
                out.append(case_from([b"h1", b"h10"], k % 4 != 3, False, {(1, "oe"[k % 2]): chunks}, tags=["exhaustive"]))
    return out


def load_corpus(prop):
    """corpus/relay/*.json: regression cases in Case.to_json() form (shared by C05 and C06)"""
    import json
    d = os.path.join(os.path.dirname(HARNESS), "corpus", "relay")
    out = []
    if os.path.isdir(d):
        for f in sorted(os.listdir(d)):
            if not f.endswith(".json"):
                continue
            out.append(case_from_json(json.load(open(os.path.join(d, f))), "corpus"))
    return out


def case_from_json(j, tag):
    c = Case()
    c.targets = [t.encode("latin-1") for t in j["targets"]]
    c.labels, c.optK = bool(j["labels"]), bool(j["K"])
    c.streams = {(int(k[:-1]), k[-1]): [unhex(x) for x in v] for k, v in j["streams"].items()}
    c.ops = list(j["ops"])
    c.tags = set(j.get("tags", [])) | {tag}
    # complete = every stream reaches eof+drain (or a run op) and every host is flushed: then the oracle applies
    closed = set()
    for op in c.ops:
        w = op.split()
        if w[0] in ("drain", "run", "rcperr"):
            closed.add((int(w[1]), w[2][0]))
    c.complete = j.get("complete", all(k in closed for k in c.streams))
    return c


def find_replay_case(obj):
    """locate a replayable case inside a replay file: ("inproc", case json) | ("real", run spec) | None"""
    import json
    if isinstance(obj, dict):
        if obj.get("kind") == "real-run" and "hosts" in obj:
            return ("real", obj)
        if obj.get("kind") == "sched-run" and "sched_case" in obj:
            return ("sched", obj)
        if all(k in obj for k in ("ops", "targets", "streams")) and isinstance(obj["ops"], list):
            return ("inproc", obj)
        for v in obj.values():
            r = find_replay_case(v)
            if r:
                return r
    elif isinstance(obj, list):
        for v in obj:
            r = find_replay_case(v)
            if r:
                return r
    elif isinstance(obj, str) and "case={" in obj:
        # a recorded model/implementation disagreement carries its case as (possibly truncated) JSON text
        try:
            return find_replay_case(json.loads(obj[obj.index("case={") + 5:]))
        except ValueError:
            return None
    return None


def d9_probe(ctx, exe, dist):
    """_extract_rc on arbitrary strings: correspondence with the model, and a count of the inputs on
    which the status parsed differs from the digits after the marker (defect D9, property C08: the
    first digit is skipped when text precedes the marker) -- reported, not judged here"""
    rng = ctx.rng
    strings = [b"fooXXRETCODE:3\n", b"XXRETCODE:3\n", b"fooXXRETCODE:255\n", b"XXRETCODE:255\n", b"fooXXRETCODE:3",
               b"XXRETCODE:\n", b"xXXRETCODE:\n", b"XXRETCODE:0\n", b"a\nXXRETCODE:7\n", b"XXRETCODE:1XXRETCODE:2\n",
               b"XXRETCODE", b"", b"\n", b"XXRETCODE:-5\n", b"pXXRETCODE: 12\n", b"pXXRETCODE:  12\n",
               b"XXRETCODE:99999999999999999999\n", b"XXRETCODE:2147483648\n", b"pXXRETCODE:+7\n", b"XXRETCODE:+7\n"]
    for _ in range(300):
        strings.append(spoil(rng, gen_text(rng, rng.choice([0, 1, 5, 20])) + rng.choice([b"", b"\n"]), "magic")
                       .replace(b"\0", b""))
    seqs = [["xrc " + hexs(s)] for s in strings]
    impl = run_impl(exe, seqs)
    mod = run_model(ctx, ["index", "1"], "".join(s[0] + "\n" for s in seqs))
    d9 = 0
    for s, (ans, crash), m in zip(strings, impl, mod):
        if crash is not None:
            ctx.offender("crash", "_extract_rc aborts on %r: %s" % (s, crash[-300:]), {"xrc": hexs(s)})
            continue
        if ans != [m]:
            ctx.disagreement("relay model vs dsh.c: _extract_rc", "input %r impl %r model %r" % (s, ans, m), {"xrc": hexs(s)})
        # D9: marker preceded by text on a newline-terminated line, followed by plain digits
        i = s.find(MAGIC)
        if i > 0 and s.endswith(b"\n") and b"\0" not in s:
            digs = s[i + len(MAGIC):].split(b"\n")[0]
            if digs.isdigit() and len(digs) < 9 and ans and ans[0].split()[0] != str(int(digs)):
                d9 += 1
    dist["d9_extract_rc_skips_first_digit"] = d9
    if d9:
        ctx.log("note (property C08, defect D9): _extract_rc returned a status different from the digits after the "
                "marker on %d probe strings (e.g. 'fooXXRETCODE:3\\n' -> 0); not judged by this check" % d9)


def xpoll_probe(ctx, exe, dist):
    """the REAL xpoll() (src/common/xpoll.c of the tree under test, linked into the harness) over a scripted poll(2)
    vs `XPoll.xpoll` (Relay/XPoll.lean): return value, errno afterwards, what poll(2) was called with (entries,
    translated events, timeout -- or not called at all), and the array afterwards (stale revents cleared, the kernel's
    words translated, entries beyond nfds untouched).  Systematic: every combination of the five kernel bits (+ a
    foreign bit) x stale revents x events x nfds/timeout/NULL/errno classes; then random arrays.
    Oracle (policy-free, on the real code alone): a descriptor the kernel reports readable / in error / hung up must
    come back with XPOLLREAD or XPOLLERR set, and one the kernel reports nothing on must not -- otherwise the loop of
    _rsh_thread never reads it (output lost: C05) or spins on it."""
    import re, select
    rng = ctx.rng
    try:
        hdr = open(os.path.join(REPO, "src/common/xpoll.h")).read()
        xp = {m.group(1): int(m.group(2), 16) for m in re.finditer(r"#define\s+(XPOLL\w+)\s+0x([0-9a-fA-F]+)", hdr)}
        mask = xp["XPOLLREAD"] | xp["XPOLLERR"]
    except Exception:
        mask = None
    lines = []
    kbits = [select.POLLIN, select.POLLOUT, select.POLLERR, select.POLLHUP, select.POLLNVAL, 0x2]   # 0x2 = POLLPRI
    for w in range(64):
        r = sum(b for k, b in enumerate(kbits) if w >> k & 1)
        for stale in (0, 0x33):
            lines.append("xp 2 -1 7:1:%d,8:1:%d R1:%d,0" % (stale, stale, r))
            lines.append("xp 2 -1 7:1:%d,8:1:%d R2:1,%d" % (stale, stale, r))
    for ev in range(8):
        lines.append("xp 1 -1 9:%d:5 R0:0" % ev)
        lines.append("xp 3 0 9:%d:0,-1:%d:7,11:3:1 R1:0,0,4" % (ev, ev))
    for nfds in (-2, -1, 0, 1, 2, 3):
        for arr in ("null", "5:1:9,6:1:9,7:1:9"):
            for k in ("E4", "E9", "E22", "E12", "R0:0,0,0", "R3:1,17,8", "R1:"):
                for timeout in (-1, 0, 250):
                    lines.append("xp %d %d %s %s" % (nfds, timeout, arr, k))
    for _ in range(400):
        n = rng.randrange(1, 6)
        arr = ",".join("%d:%d:%d" % (rng.choice([-1, 3, 4, 900, 70000]), rng.randrange(0, 8), rng.choice([0, 1, 0x31, 0x7fff]))
                       for _ in range(n))
        k = rng.choice(["E%d" % rng.choice([4, 9, 11, 22])] +
                       ["R%d:%s" % (rng.randrange(0, n + 1), ",".join(str(rng.choice([0, 1, 4, 8, 16, 17, 32, 25, 63]))
                                                                      for _ in range(rng.randrange(0, n + 1))))] * 5)
        lines.append("xp %d %d %s %s" % (rng.randrange(-1, n + 1), rng.choice([-1, 0, 1, 1000]), arr, k))
    impl = run_impl(exe, [[l] for l in lines])
    mod = run_model(ctx, ["xpoll"], "".join(l + "\n" for l in lines))
    st = {"cases": len(lines), "reported": 0, "errors": 0, "invalid": 0}
    for l, (ans, crash), m in zip(lines, impl, mod):
        if crash is not None:
            ctx.offender("crash", "xpoll aborts on `%s`: %s" % (l, crash[-300:]), {"xp": l})
            continue
        a = ans[0] if ans else ""
        st["errors"] += a.startswith("-1 ") and " | - | " not in a
        st["invalid"] += a.startswith("-1 ") and " | - | " in a
        w = l.split()
        if mask is not None and a and w[4].startswith("R") and not a.startswith("-1 ") and w[3] != "null":
            krevs = [int(x) for x in w[4].split(":")[1].split(",") if x]
            try:
                xs = [int(e.split(":")[2]) for e in a.split(" | ")[2].split(",")]
            except Exception:
                xs = []
            for i in range(min(int(w[1]), len(xs))):
                kr = krevs[i] if i < len(krevs) else 0
                want = bool(kr & (select.POLLIN | select.POLLERR | select.POLLHUP))
                st["reported"] += want
                if bool(xs[i] & mask) != want:
                    ctx.offender("xpoll:readiness", "xpoll: poll(2) reports revents 0x%x on entry %d, xpoll hands back 0x%x: "
                                 "`revents & (XPOLLREAD|XPOLLERR)` is %s -- the poll loop of _rsh_thread %s this descriptor"
                                 % (kr, i, xs[i], bool(xs[i] & mask), "never reads" if want else "spins on"), {"xp": l})
                    break
        if a != m:
            ctx.disagreement("xpoll.c vs the model (Relay/XPoll.lean)", "`%s`: impl `%s` model `%s`" % (l, a, m), {"xp": l})
    dist["xpoll"] = st


def run_check(ctx, prop, props_module, level):
    """the whole procedure shared by checks/c05.py and checks/c06.py"""
    import threading
    from vlib import relay_real, relay_sched, relay_pinned
    rng = ctx.rng
    # the scratch build for the real-process part takes ~25 s: start it now, in the background
    builder = threading.Thread(target=ctx.repo_build)
    builder.start()
    ctx.gen_consts(["cbuf", "dsh", "relay"])
    ctx.lean_build([props_module, "pdshmodel"])
    # the model driver carries the regenerated constants of THIS run's tree; another check running in the same
    # framework directory on another tree (a seeded sweep next to a thorough run) regenerates Gen/*.lean and relinks
    # lean/.lake/build/bin/pdshmodel under our feet -- minutes of model calls would then answer for the wrong
    # constants (a false alarm that does not reproduce).  This run keeps the driver it built.
    try:
        import shutil
        mine = os.path.join(ctx.scratch, "pdshmodel-of-this-run")
        shutil.copy2(ctx.driver_path(), mine)
        if not os.environ.get("RELAY_SHARED_DRIVER"):          # (knob to demonstrate the hazard: use the shared binary)
            ctx._relay_driver = mine
    except OSError:
        pass
    ctx.audit(props_module)
    cov = {"evaluations": 0, "distinct_nontrivial": 0, "samples": [], "_distinct": set(),
           "rule": "PINNED FIRST, every run, both build flavours (vlib/relay_pinned.py): lines of exactly 64/65/2047-2049/"
                   "8191-8193/131071/131072/131073 bytes, streams around every sampled capacity of cbuf.c's growth sequence "
                   "for the regenerated constants (and the lossy step when growthOk is false), unterminated tails 1/8190-"
                   "8193/16382-16384, empty lines, bursts of hundreds of tiny lines in one read, the marker cut at every "
                   "position / at the end without newline / on stderr / look-alikes, '%' in tails and lines, arrivals ending "
                   "exactly at the ring's physical end, growth of a wrapped buffer, every name pool x -K x -N, EOF on one "
                   "stream long before the other, every fragmentation of two small streams on two hosts x every "
                   "interleaving, read(2) faults at every handler call (short reads, spurious EAGAIN, EINTR), pdcp/rpdcp "
                   "remote stderr through the real _parallel_copy; the real xpoll() over a scripted poll(2): every combination of "
                   "the kernel's revents bits x stale revents x events x nfds/timeout/NULL/errno classes; pinned real runs (domain loop of dsh(), one stream ends "
                   "first, exec fails after an unterminated fragment) and pinned scheduler cases; THEN RANDOM: "
                   "case = target set x options (-N, -K) x per (host, stream) payload x chunking x interleaved "
                   "schedule of handler calls; payload lines of length 0/1/../62-66/934-1002/1998-2001/3999/4000/"
                   "8190-8193 (thorough: 131071/131072, beyond: 131073+), final fragment absent / 1..200 / 8190-8194 / "
                   "16381-16384 / 20000 (thorough: 131071/131072) bytes; chunkings whole / 1-byte / cut on, before, "
                   "after every newline / around 64, 1000, 2000, 4000, 8192 / small / random, with empty polls; "
                   "plus every string over {a,newline} up to length 4 (thorough 7) in every chunking; "
                   "non-trivial = stream with >= 2 lines and a chunk boundary strictly inside a line; distinct = "
                   "distinct (payload, chunk sizes, options, targets, stream); controlled-scheduler part: 2-6 targets "
                   "with scripted stdout+stderr each under uniform/PCT/starve/eager/preempt-at-each-fputs schedules "
                   "(thorough: all io interleavings of 4 tiny configurations), distinct = distinct (stream, schedule); every read of "
                   "every worker under the scheduler is replayed through the model's handler (loop replay), and after every "
                   "poll return the handlers that read next, in order, are the model's (XPoll.loopIter)"}
    dist = {"tags": {}, "flavours": {}}
    ctx.log("constants regenerated, proofs built and audited")
    exe_dbg = build_harness(ctx, "relay_dbg", assertions=True)
    exe_rel = build_harness(ctx, "relay_rel", assertions=False)
    ctx.log("harness built (two flavours)")
    replay = None
    if getattr(ctx, "replay", None):
        import json
        replay = find_replay_case(json.load(open(ctx.replay)))
        if replay is None:
            ctx.log("replay: the file names no replayable case (a broken theorem, or a case too long to be "
                    "recorded with a disagreement): running the normal check")
    if replay and exe_dbg and exe_rel:
        # ---- ./check.py Cnn --replay FILE: exactly the recorded case, judged exactly like in a normal run
        kind, obj = replay
        cov["rule"] = "replay of " + os.path.basename(ctx.replay) + "; " + cov["rule"]
        if kind == "inproc":
            for exe, name in ((exe_dbg, "assert+asan"), (exe_rel, "shipped(NDEBUG)+asan")):
                cases = [case_from_json(obj, "replay")]
                impl = run_impl(exe, [c.ops for c in cases], op_timeout=60)
                dist["flavours"][name] = 1
                evaluate(ctx, prop, cases, impl, cov, dist, name, meta=harness_meta(exe))
                ans, crash = impl[0]
                ctx.log("replay [%s]: %d ops, %s" % (name, len(cases[0].ops), "aborted: " + crash[-200:] if crash else
                                                     "last answer `%s`" % (ans[-1][:120] if ans else "")))
            builder.join()
        elif kind == "sched":
            relay_sched.replay_sched(ctx, prop, obj, cov, dist)
            builder.join()
        else:
            builder.join()
            relay_real.replay_real(ctx, prop, obj, cov, dist)
        if not ctx.violations and not ctx.known_hits and not ctx.broken:
            ctx.log("replay: the property holds on the recorded case")
    elif exe_dbg and exe_rel:
        quick = ctx.quick()
        plan = []
        for exe, name, share in ((exe_dbg, "assert+asan", 0.6), (exe_rel, "shipped(NDEBUG)+asan", 0.4)):
            cases = []
            counts = [("tiny", 800 if quick else 12000), ("small", 600 if quick else 8000),
                      ("mid", 300 if quick else 2500), ("tailbuf", 120 if quick else 900),
                      ("burst", 100 if quick else 1500)]
            for cls, n in counts:
                for _ in range(int(n * share)):
                    cases.append(gen_case(rng, cls))
            for _ in range(0 if quick else int(40 * share)):
                cases.append(gen_case(rng, "huge", chunk_style=rng.choice(["whole", "around", "random"]),
                                      allow_beyond=True, nstreams=1))
            for _ in range(int((300 if quick else 2500) * share)):
                cases.append(gen_case(rng, rng.choice(["tiny", "small", "small", "mid"]),
                                      spoil_kind=rng.choice(["nul", "magic", "magic", "abandon"]), allow_beyond=True))
            if name.startswith("assert"):
                cases = load_corpus(prop) + cases + exhaustive_small(ctx.tier)
            # the pinned boundary classes run FIRST in both flavours, whatever the seed (vlib/relay_pinned.py);
            # the growth boundaries depend on the flavour's bookkeeping cells
            g = growth_info(ctx, harness_meta(exe))
            pinned = relay_pinned.pinned_cases(g, g["magic"], quick)
            dist["pinned"] = dist.get("pinned", 0) + len(pinned)
            dist.setdefault("growth", {})[name] = {"growthOk": g["ok"], "min": g.get("min"), "max": g.get("max"),
                                                   "chunk": g.get("chunk"), "meta": g["meta"], "steps": len(g["path"]),
                                                   "first_lossy_step": g["bad"]}
            if not g["ok"]:
                ctx.log("NOTE [%s]: the regenerated cbuf constants (min %s, max %s, chunk %s, meta %s) do NOT satisfy the "
                        "side condition growthOk of the losslessness theorems: growth step %s makes no room for the read "
                        "that triggers it; the pinned streams around that capacity show the loss on the real code"
                        % (name, g.get("min"), g.get("max"), g.get("chunk"), g["meta"], g["bad"]))
            if name.startswith("assert") and g.get("meta_assert") != g["meta"]:
                ctx.disagreement("Gen.RELAY_SIZE_META_ASSERT vs the assertion-enabled harness",
                                 "constants probe says %s, cbuf.c built with assertions has %s bookkeeping cells"
                                 % (g.get("meta_assert"), g["meta"]), None)
            plan.append((exe, name, pinned + cases))
        # the two build flavours are judged side by side (the time goes into the harness and the model drivers, all
        # subprocesses); each flavour counts into its own coverage record, merged afterwards
        def one_flavour(exe, name, cases, cov_f, dist_f, errs):
            try:
                meta = harness_meta(exe)
                dist_f["flavours"][name] = len(cases)
                # of the pinned streams of 128 KiB only those tagged `fifo-too` go through the (slower) FIFO engine as
                # well (the index engine provably simulates it: Relay/IndexSim.lean); all of them through the index engine
                def slow(c):
                    return "huge" in c.tags and "pinned" in c.tags and "fifo-too" not in c.tags
                for part, engines in (([c for c in cases if slow(c)], ("index",)),
                                      ([c for c in cases if not slow(c)], ("index", "fifo"))):
                    if part:
                        impl = run_impl(exe, [c.ops for c in part], op_timeout=20 if quick else 60)
                        # a timeout alone is re-tried once (alone, with four times the allowance) before it is reported
                        for k, (ans, crash) in enumerate(impl):
                            if crash is not None and "TIMEOUT" in crash:
                                dist_f["timeouts_retried"] = dist_f.get("timeouts_retried", 0) + 1
                                impl[k] = run_impl(exe, [part[k].ops], op_timeout=80 if quick else 240, max_crashes=1)[0]
                        evaluate(ctx, prop, part, impl, cov_f, dist_f, name, engines=engines, meta=meta)
                ctx.log("in-process [%s]: %d cases (%d pinned)" % (name, len(cases), sum("pinned" in c.tags for c in cases)))
            except BaseException as e:          # re-raised in the main thread
                errs.append(e)

        def merge(a, b):
            for k, v in b.items():
                if isinstance(v, dict):
                    merge(a.setdefault(k, {}), v)
                elif isinstance(v, (int, float)) and not isinstance(v, bool):
                    a[k] = a.get(k, 0) + v
                else:
                    a.setdefault(k, v)
        jobs, errs = [], []
        for exe, name, cases in plan:
            cov_f = {"evaluations": 0, "samples": [], "_distinct": set()}
            dist_f = {"tags": {}, "flavours": {}}
            th = threading.Thread(target=one_flavour, args=(exe, name, cases, cov_f, dist_f, errs))
            th.start()
            jobs.append((th, cov_f, dist_f))
        for th, cov_f, dist_f in jobs:
            th.join()
            cov["evaluations"] += cov_f["evaluations"]
            cov["_distinct"] |= cov_f["_distinct"]
            cov["samples"] = (cov["samples"] + cov_f["samples"])[:4]
            merge(dist, dist_f)
        if errs:
            raise errs[0]
        d9_probe(ctx, exe_dbg, dist)
        xpoll_probe(ctx, exe_rel, dist)
    if not replay:
        # ---- third part: the unmodified dsh.c under the controlled scheduler, adversarial schedules
        relay_sched.run_sched(ctx, prop, cov, dist)
        builder.join()
        relay_real.run_real(ctx, prop, cov, dist)
    if ctx.violations and ctx.broken:
        # a failing input was found although a proof/tie/harness build is broken as well: say both (ctx.finish
        # prints the broken entries only when there is no failing input; they are in the evidence and the replay)
        for b in ctx.broken[:4]:
            ctx.log("broken (in addition to the failing input):", b[0], b[1], "::", str(b[2])[:300])
    cov["distinct_nontrivial"] = len(cov.pop("_distinct"))
    cov["distribution"] = dist
    cov["traces_validated_against_impl"] = cov["evaluations"]
    return ctx.finish(
        level, cov,
        assumptions=["one fputs() on a FILE is atomic with respect to other threads (POSIX stdio locking)",
                     "read(2) on the scripted descriptor delivers min(request, available) bytes, then EAGAIN or EOF",
                     "(no assumption about the buffer: the index-level cbuf model that is run against cbuf.c "
                     "provably simulates the FIFO specification + policy of the theorems, Relay/IndexSim.lean)",
                     "domain: no NUL, every line (with its newline) and the final fragment <= 131072 bytes, no "
                     "return-code marker inside a stdout line; host names shorter than LINEBUFSIZE without NUL",
                     "one handler thread per host (as in dsh.c); interleaving between hosts is by whole stdio call",
                     "glibc stdio behaves like the buffered writer of Relay/Stdio.lean (any capacity; full buffering "
                     "for a pipe/file, line buffering for a tty; written when full, on fflush, at exit): then the "
                     "consumer receives the stdio calls concatenated in call order (C06.consumer_sees_calls)",
                     "the transport's forked child never touches the stdio buffers it inherited from pdsh (it leaves "
                     "with _exit when exec fails): a target whose command cannot be started contributes no record "
                     "(C05.unstarted_host_writes_nothing); checked by real runs in which execvp fails (ENOENT/EACCES) "
                     "before, between and after hosts with unterminated output, stdout to a pipe and to a file"],
        trusted_base=["Lean 4.33 kernel", "axioms: propext, Classical.choice, Quot.sound at most (audited per theorem)",
                      "hand-written model Relay/Model.lean, Relay/XPoll.lean tied to dsh.c/err.c/xpoll.c by differential execution",
                      "Gen/Relay.lean, Gen/Cbuf.lean, Gen/Dsh.lean regenerated from /repo",
                      "harness/relay_harness.c (incl. its replica of dsh()'s 8-line domain loop), harness/relay_stubs.h, "
                      "harness/relay_writer.c, vlib/relay.py, vlib/relay_real.py, vlib/relay_sched.py + harness/sched/* "
                      "(controlled scheduler: baton-gated pthreads, wrapped poll/read/fputs, stub transport), gcc, "
                      "ASan/UBSan, ld --wrap"],
        checker_cmd="lake build %s && #print axioms on every theorem of it" % props_module)
