"""Shared machinery of the hostlist checks (C01, C15; reusable by C02/C14/C16):
protocol helpers for the `hl` engine, the well-formed expression generator (AST + rendering +
an AST-level expander written in Python, independent of both the model and the Lean spec),
the malformed-text generator, routing of risky inputs through the forked probe, the CLI runner
and the feature predicates that keep known-finding signatures narrow."""
import itertools
import os
import re
import selectors
import shutil
import subprocess
import sys
import time

sys.set_int_max_str_digits(0)

from vlib.common import HARNESS, VERIF

VERIF_CORPUS = os.path.join(VERIF, "corpus")
from vlib.seqrun import run_batch

U64 = 1 << 64
LIMIT = 70000            # names listed per probe (no generated case expands further)
WS = b" \t\n\x0b\x0c\r"


def hx(b):
    return b.hex() if b else "-"


def unhx(s):
    return b"" if s == "-" else bytes.fromhex(s)


# ------------------------------------------------------------------ answers
def names_field(f):
    """'<k>[+]:<hex>,<hex>' -> (k, more, [bytes])"""
    head, _, rest = f.partition(":")
    more = head.endswith("+")
    k = int(head.rstrip("+"))
    names = [unhx(x) for x in rest.split(",")] if rest else []
    return k, more, names


def parse_probe(ans):
    """impl/model answer of probe|fprobe -> dict(kind=ok|null|crash|timeout|oom|ub|diverge, ...)"""
    if ans.startswith("ok | "):
        parts = ans.split(" | ")
        if len(parts) != 4 or len(parts[1].split()) != 2:
            return dict(kind="garbled", raw=ans[:200])
        cnt, nr = parts[1].split()
        k, more, nxt = names_field(parts[2])
        if parts[3] == "=":
            sh, shmore = nxt, more
        else:
            _, shmore, sh = names_field(parts[3])
        return dict(kind="ok", count=int(cnt), nranges=int(nr), next=nxt, next_more=more, shift=sh, shift_more=shmore)
    if ans.startswith("null:"):
        _, e, f = ans.split(":")
        return dict(kind="null", errno=e, fatal=f)
    if ans.startswith("crash"):
        return dict(kind="crash", cls=ans[6:])
    if ans.startswith("ub:"):
        return dict(kind="ub", what=ans[3:])
    if ans in ("timeout", "oom", "diverge", "skipped"):
        return dict(kind=ans)
    return dict(kind="garbled", raw=ans[:200])


def parse_spec(ans):
    """spec answer -> dict(ok=bool, problems=[..], note64=bool, n1, hosts1, n2, hosts2|None, problems2)"""
    if ans.startswith("fail:"):
        return dict(ok=False, problems=ans[5:].split("+"))
    parts = ans.split(" | ")
    d = dict(ok=True, problems=[], note64=(parts[0] == "ok64"), n1=int(parts[1]), n2=int(parts[3]), problems2=[])
    _, d["more1"], d["hosts1"] = names_field(parts[2])
    if parts[4] == "=":
        d["hosts2"] = d["hosts1"]
    elif parts[4].startswith("fail:"):
        d["hosts2"] = None
        d["problems2"] = parts[4][5:].split("+")
    else:
        d["hosts2"] = names_field(parts[4])[2]
    return d


def same_answer(impl, model):
    """correspondence: identical text, or the model's `ub`/`diverge` against a crash / a limit"""
    if impl == model or impl == "skipped":
        return True
    if model.startswith("ub:") and impl.startswith("crash"):
        return True
    if model == "diverge" and impl in ("timeout", "oom"):
        return True
    return False


# ------------------------------------------------------------------ feature predicates (signatures only)
def impl_tokens(s, sep=b"\t, "):
    """tokens as a bracket-level tokenizer sees them (used for finding signatures, never for verdicts)"""
    out, cur, level = [], bytearray(), 0
    for c in s:
        ch = bytes([c])
        if level == 0 and ch in sep:
            if cur:
                out.append(bytes(cur))
                cur = bytearray()
            continue
        if ch == b"[":
            level += 1
        elif ch == b"]":
            level -= 1
        cur.append(c)
    if cur:
        out.append(bytes(cur))
    return out


def feat_longplain(s):
    return any(len(t) >= 1023 and b"[" not in t and b"]" not in t for t in impl_tokens(s))


def feat_big(s):
    """a bound that reaches 2^64-1: a digit run with value >= 2^64-1, or a negated high bound"""
    if any(int(m) >= U64 - 1 for m in re.findall(rb"[0-9]{20,}", s)):
        return True
    return re.search(rb"-[ \t\n\x0b\x0c\r]+-[0-9]", s) is not None


def feat_first_group_complete(s):
    """every token that has a bracket character has a `[` with a `]` somewhere after it"""
    for t in impl_tokens(s):
        if b"[" in t or b"]" in t:
            i = t.find(b"[")
            if i < 0 or t.find(b"]", i) < 0:
                return False
    return True


_D16 = [re.compile(rb"[ \t\n\x0b\x0c\r]*\+?[0-9]+"),
        re.compile(rb"[ \t\n\x0b\x0c\r]*\+?[0-9]+-"),
        re.compile(rb"[ \t\n\x0b\x0c\r]*\+?[0-9]+[^-]*-[ \t\n\x0b\x0c\r]*\+?[0-9]+"),
        re.compile(rb"[ \t\n\x0b\x0c\r]*\+?[0-9]+[^-]*-[ \t\n\x0b\x0c\r]+-[0-9]+")]
_PURE = re.compile(rb"[0-9]+(-[0-9]+)?")


def feat_d16(s):
    """every non-numeric range item of every first group has one of the shapes strtoul lets through
    (leading blanks, '+', junk after the low bound when '-hi' follows, empty high bound)"""
    seen = False
    for t in impl_tokens(s):
        i = t.find(b"[")
        if i < 0:
            continue
        j = t.find(b"]", i)
        if j < 0:
            return False
        for item in t[i + 1:j].split(b","):
            if _PURE.fullmatch(item):
                continue
            if not any(r.fullmatch(item) for r in _D16):
                return False
            seen = True
    return seen


def is_d17(impl_name, exp_name):
    """impl = expected cut inside a digit run after exactly 14 of its characters (suffix[16])"""
    k = len(impl_name)
    if k >= len(exp_name) or k < 14 or not exp_name.startswith(impl_name):
        return False
    tail = exp_name[k - 14:]
    return len(tail) >= 15 and tail.isdigit()


# ------------------------------------------------------------------ well-formed generator
BOUNDARY = [0, 1, 2, 8, 9, 10, 11, 98, 99, 100, 101, 999, 1000, 9999, 10000, 16383, 16384, 99999,
            (1 << 25) - 1, 1 << 25, (1 << 25) + 1, (1 << 31) - 1, 1 << 31, (1 << 32) - 1, 1 << 32, (1 << 32) + 1,
            99999999999999, 100000000000000, (1 << 63) - 1, 1 << 63, U64 - 16385, U64 - 3, U64 - 2, U64 - 1]
TEXTCH = b"abcdefghijklmnopqrstuvwxyzABCXYZ0123456789-_.=+~#%!&*;<>?{}|^:/@$'\"\\()`"
PREFIXES = [b"", b"a", b"foo", b"n", b"node", b"n0", b"x9", b"7", b"42", b"a.b", b"foo-", b"rack1-node", b"h_", b"A1B2", b"00", b"a0"]
MIDS = [b"", b"", b"", b"x", b"-", b"-ib", b".dom", b"0", b"9", b"-eth1", b"_", b"s7"]


def pad(w, n):
    return str(n).zfill(w).encode()


class WFGen:
    """grammar-directed generator of well-formed expressions (the quantifier of C01).
    cli=True restricts the text so that every comma-word is a plain target word for pdsh -w."""

    def __init__(self, rng, cli=False, max_hosts=5000, near_max=True):
        self.rng, self.cli, self.max_hosts, self.near_max = rng, cli, max_hosts, near_max
        self.dist = {}

    def note(self, k):
        self.dist[k] = self.dist.get(k, 0) + 1

    def text(self, lo, hi, first=False):
        rng = self.rng
        n = rng.randrange(lo, hi + 1)
        alpha = TEXTCH
        if self.cli:
            alpha = b"abcdefghijklmnopqrstuvwxyzABCXYZ0123456789-_.=+~#"
        out = bytes(rng.choice(alpha) for _ in range(n))
        if self.cli and first and out[:1] in (b"-", b"^", b"/"):
            out = b"h" + out[1:]
        return out

    def prefix(self):
        r = self.rng.random()
        if r < 0.6:
            return self.rng.choice(PREFIXES)
        if r < 0.95:
            return self.text(0, 8, first=True)
        if r < 0.99:
            return self.text(60, 100, first=True)
        return self.text(1000, 1100, first=True)

    def number(self):
        rng = self.rng
        r = rng.random()
        if r < 0.04:
            v = rng.choice(BOUNDARY) + rng.choice([0, 0, 0, -1, 1, -2, 2])
        elif r < 0.45:
            v = rng.choice(BOUNDARY[:26]) + rng.choice([0, 0, 0, -1, 1, -2, 2])     # < 10^14
        elif r < 0.85:
            v = rng.randrange(0, 130)
        else:
            v = rng.randrange(0, 1 << rng.choice([10, 16, 25, 26, 32, 40, 63, 64]))
        v = max(0, min(U64 - 1, v))
        if v >= U64 - 40000 and (not self.near_max or rng.random() < 0.85):
            v = rng.randrange(0, 2000)      # the top of the 64-bit range only now and then (slow known findings)
        return v

    def numtext(self, v, wide=None):
        rng = self.rng
        d = len(str(v))
        if wide is None:
            r = rng.random()
            if r < 0.55:
                wide = d
            elif r < 0.9:
                wide = d + rng.choice([1, 1, 2, 3])
            elif r < 0.97:
                wide = rng.choice([5, 8, 10, 12, 13, 14])
            else:
                wide = rng.choice([14, 15, 16, 19, 20, 21, 30])
        return str(v).zfill(max(wide, d)).encode()

    def group(self, budget):
        """list of (loS, hiS|None); budget = max hosts of the group"""
        rng = self.rng
        r = rng.random()
        n = 1 if r < 0.35 else rng.randrange(2, 6) if r < 0.93 else rng.randrange(6, 40)
        out, used, prev = [], 0, None
        for _ in range(n):
            left = budget - used
            if left <= 0:
                break
            rel = rng.random()
            if prev is not None and rel < 0.5:
                plo, phi, pw = prev
                lo = rng.choice([phi + 1, phi + 1, phi + 1, phi, plo, max(0, plo - 1), phi + 2, (plo + phi) // 2])
                lo = min(lo, U64 - 1)
                self.note("related-range")
            else:
                lo = self.number()
            dr = rng.random()
            if dr < 0.3:
                delta = 0
            elif dr < 0.8:
                delta = rng.choice([1, 1, 2, 3, 5, 9, 10, 11, 20])
            elif dr < 0.97:
                delta = rng.randrange(0, 300)
            else:
                delta = rng.choice([16383, 16382, 9999, 1000])
                self.note("big-range")
            delta = min(delta, left - 1, U64 - 1 - lo)
            hi = lo + delta
            if prev is not None and rel < 0.5 and rng.random() < 0.6:
                wtxt = self.numtext(lo, rng.choice([prev[2], prev[2], prev[2] + 1, max(1, prev[2] - 1), len(str(lo))]))
            else:
                wtxt = self.numtext(lo)
            if delta == 0 and rng.random() < 0.7:
                his = None
            else:
                his = self.numtext(hi, rng.choice([len(wtxt), len(str(hi)), len(str(hi)), len(str(hi)) + 1]))
            if len(str(lo)) != len(str(hi)):
                self.note("digit-count-crossing")
            if len(wtxt) > len(str(lo)):
                self.note("zero-padded")
            if len(wtxt) >= 15 or len(str(hi)) >= 15:
                self.note("width>=15")
            out.append((wtxt, his))
            used += delta + 1
            prev = (lo, hi, len(wtxt))
        return out, used

    def plain(self):
        rng = self.rng
        r = rng.random()
        if r < 0.25:
            name = self.rng.choice(PREFIXES[1:]) + self.numtext(self.number())
            self.note("plain-digit-tail")
        elif r < 0.4:
            name = self.numtext(self.number())
            self.note("plain-numeric")
        elif r < 0.95:
            name = self.text(1, 10, first=True)
        else:
            name = self.text(rng.choice([78, 79, 80, 200, 1000, 1021, 1022]), 1022, first=True)
            self.note("plain-long")
        if self.cli and name[:1] in (b"-", b"^", b"/"):
            name = b"h" + name
        return name

    def word(self, budget):
        rng = self.rng
        if rng.random() < 0.35:
            return ("plain", self.plain()), 1
        pre = self.prefix()
        two = rng.random() < 0.25
        mid = rng.choice(MIDS) if rng.random() < 0.8 else self.text(1, 6)
        if not two and rng.random() < 0.55:
            mid = b""
        if rng.random() < 0.02 and not two and not self.cli:
            mid = self.text(rng.choice([4000, 4080, 4090]), 4100)     # host[4096]
            self.note("suffix-4096")
        # keep the expansion text of one word below ~100 KB (long names x many hosts only costs time)
        budget = max(1, min(budget, 100000 // (len(pre) + len(mid) + 16)))
        g1, n1 = self.group(budget if not two else max(1, budget // 8))
        g2 = None
        n = n1
        if two:
            gg, n2 = self.group(max(1, budget // max(1, n1)))
            post = rng.choice(MIDS) if rng.random() < 0.8 else self.text(1, 6)
            g2 = (gg, post)
            n = n1 * n2
            self.note("two-bracket")
        elif mid:
            self.note("suffix-path")
        return ("br", pre, g1, mid, g2), n

    def expr(self):
        rng = self.rng
        r = rng.random()
        nw = 1 if r < 0.3 else rng.randrange(2, 5) if r < 0.9 else rng.randrange(5, 12)
        words, total = [], 0
        # most expansions are small; a few are large (coalescing over long runs, the 16384 limit)
        b = rng.random()
        budget = 60 if b < 0.8 else 600 if b < 0.95 else self.max_hosts if b < 0.99 else 8 * self.max_hosts
        budget = min(budget, 8 * self.max_hosts)
        for _ in range(nw):
            w, n = self.word(max(1, (budget - total)))
            words.append(w)
            total += n
            if w[0] == "plain" and not w[1][-1:].isdigit() and len(w[1]) < 40 and rng.random() < 0.35:
                # an un-numbered name directly followed by the same name with a number starting at 0/1, padded and
                # unpadded, as a word or as a range (tail coalescing must keep the two kinds of record apart)
                base = w[1]
                k = rng.choice([0, 1, 1, 1, 2])
                shape = rng.random()
                if shape < 0.4:
                    nxt = ("plain", base + self.numtext(k, rng.choice([1, 1, 2, 3])))
                    cnt = 1
                else:
                    hi = k + rng.choice([0, 1, 3, 5])
                    nxt = ("br", base, [(self.numtext(k, rng.choice([1, 1, 2])), str(hi).encode() if hi > k or rng.random() < 0.5 else None)],
                           b"", None)
                    cnt = hi - k + 1
                words.append(nxt)
                total += cnt
                self.note("plain-then-numbered")
            if total >= budget:
                break
        seps = [b",", b",", b",", b" ", b"\t", b", ", b",,", b" ,\t ", b"  "]
        if self.cli:
            seps = [b",", b",", b",", b" ", b", ", b",,", b"\t"]
        out = bytearray()
        if rng.random() < 0.1:
            out += rng.choice(seps)
        for i, w in enumerate(words):
            if i:
                out += rng.choice(seps)
            out += render_word(w)
        if rng.random() < 0.1:
            out += rng.choice(seps)
        return words, bytes(out)


def render_group(g):
    return b"[" + b",".join(lo + (b"-" + hi if hi is not None else b"") for lo, hi in g) + b"]"


def render_word(w):
    if w[0] == "plain":
        return w[1]
    _, pre, g1, mid, g2 = w
    out = pre + render_group(g1) + mid
    if g2 is not None:
        out += render_group(g2[0]) + g2[1]
    return out


def group_names(g):
    out = []
    for lo, hi in g:
        a = int(lo)
        b = int(hi) if hi is not None else a
        w = len(lo)
        out.extend(pad(w, n) for n in range(a, b + 1))
    return out


def expand1(words):
    """AST-level first-level expansion (what hostlist_create must denote)"""
    out = []
    for w in words:
        if w[0] == "plain":
            out.append(w[1])
        else:
            _, pre, g1, mid, g2 = w
            tail = mid + (render_group(g2[0]) + g2[1] if g2 is not None else b"")
            out.extend(pre + n + tail for n in group_names(g1))
    return out


def expand2(words):
    """AST-level full expansion (what pdsh -w must target)"""
    out = []
    for w in words:
        if w[0] == "plain":
            out.append(w[1])
        else:
            _, pre, g1, mid, g2 = w
            if g2 is None:
                out.extend(pre + n + mid for n in group_names(g1))
            else:
                n2s = group_names(g2[0])
                for n1 in group_names(g1):
                    out.extend(pre + n1 + mid + n2 + g2[1] for n2 in n2s)
    return out


# ------------------------------------------------------------------ malformed generator
BIGNUMS = [(1 << 31) - 1, 1 << 31, (1 << 31) + 1, (1 << 32) - 1, 1 << 32, (1 << 32) + 1, (1 << 63) - 1, 1 << 63,
           (1 << 63) + 1, U64 - 16385, U64 - 16384, U64 - 2, U64 - 1, U64, U64 + 1, 10 ** 20 - 1, 10 ** 20, 10 ** 25 + 7,
           10 ** 30, 10 ** 39 + 12345]
ALPHA = b"[[[]]],,,---00112399aabxz  \t+"


def rand_text(rng, n, alpha=ALPHA):
    return bytes(rng.choice(alpha) for _ in range(n))


def pinned_classes():
    """Deterministic texts every run starts with (after the corpus files), one per CLASS of place a bound or a
    count is carried through (wave 5: a struct field or local narrower than unsigned long; an array of records
    that is grown or indexed):
      * every word size boundary (2^31, 2^32, 2^63 +-1, 2^64-3) at every POSITION a number can stand in -- alone,
        as low bound, as high bound, in the first / a later element of the list, with / without a suffix (the two
        paths build names differently), in a second bracket pair, and as the numeric tail of a plain name;
      * element COUNTS 2^k-1, 2^k, 2^k+1 for every k up to 8192 in ONE bracket, with / without a suffix; the
        elements are 0,2,4,.. (never coalesced: one record each, every value checkable)."""
    out = []
    for v in (2 ** 31 - 1, 2 ** 31 + 1, 2 ** 32 - 1, 2 ** 32 + 1, 2 ** 63 - 1, 2 ** 63 + 1, 2 ** 64 - 3):
        for sfx in ("", "x"):
            out.append("a[%d]%s" % (v, sfx))
            out.append("a[1,%d]%s" % (v, sfx))
            out.append("a[%d,1]%s" % (v, sfx))
            out.append("a[%d-%d]%s" % (v - 1, v + 1, sfx))
            out.append("a[7,%d-%d]%s" % (v - 1, v + 1, sfx))
            out.append("a[%d-%d,7]%s" % (v - 2, v, sfx))
        out.append("a[1-2]b[%d-%d]" % (v, v + 1))
        out.append("a%d" % v)
        out.append("%d" % v)
    for k in range(1, 14):
        for n in (2 ** k - 1, 2 ** k, 2 ** k + 1):
            body = ",".join(str(2 * i) for i in range(n))
            out.append("c[%s]" % body)
            out.append("c[%s]s" % body)
    return [x.encode() for x in out]


# ---- STATE LEFT OVER from the previous word / bracket / call (wave 6): errno that is tested but never cleared, the
# range table of the previous bracket, a buffer / width taken from the first element.  Every base text is run
# (a) as the word AFTER each in-text poison inside one hostlist_create, (b) through `sprobe` (harness): in the
# call AFTER hostlist_create(poison), nothing reset in between, (c) on the pdsh binary (checks: cli / -x / file).
POISONS = [  # (note, text, usable as a word of a text that must still be accepted)
    ("erange-suffix", b"job20240929102030123456789", True),       # plain name, digit tail overflows strtoul
    ("erange-numeric", b"99999999999999999999999", True),         # purely numeric name, the same
    ("more-ranges", b"b[1,5-7,9,11-12]", True),                   # an earlier bracket with MORE ranges
    ("long-bracket", b"q[" + b",".join(b"%d" % (3 * i) for i in range(40)) + b"]", True),
    ("wide-first-suffix", b"w[0000000000000000000000042,1]-x", True),   # wide FIRST element, suffix form
    ("wide-first", b"w[0000000000000000000000042-0000000000000000000000043]", True),
    ("failed-toomany", b"z[1-99999]", False),                     # a call that FAILED (the library sets errno itself)
    ("failed-invalid", b"z[2-1]", False),
    ("failed-unbalanced", b"z[1", False),
    ("failed-overflow", b"z[1-99999999999999999999]", False)]
STATE_GOOD = [b"a[1-3]", b"a[1,5-7]", b"n[08-11]", b"[8-12]", b"a[9-11]b", b"x[1-2]-[0-1]", b"node7", b"node007,n1",
              b"foo[00-02,1,3,5]-ib",                             # mixed zero-pad widths under a suffix
              b"n[1,0000000000000000000000005]-ib0",              # a LATER element wider than 20 and than the first
              b"sw[1-2,0000000000000000000000042]-mgmt", b"n[1,0000000000000000000000005]-[1-2]",
              b"r[7,010,0011-0012]", b"a4294967297", b"a[1-2],a4294967298"]
STATE_BAD = [b"a[1,]", b"a[1-3,]", b"a[,1]", b"a[1,,2]", b"a[]", b"a[1-]", b"a[-1]", b"a[1-3", b"a[3-1]",
             b"a[1-99999]", b"a[1,]x", b"a[1-3,]-ib"]


def poisoned_classes():
    """base texts as the word after each in-text poison (one hostlist_create), and between two poisons"""
    out = []
    for _, p, inl in POISONS:
        if not inl:
            continue
        for t in STATE_GOOD + STATE_BAD:
            out.append(p + b"," + t)
    for t in STATE_GOOD:
        out.append(POISONS[2][1] + b"," + t + b"," + POISONS[0][1] + b"," + t)
    return out


def state_pairs():
    """(note, poison, text) for `sprobe`: text probed in the call after hostlist_create(poison)"""
    return [(n, p, t) for n, p, _ in POISONS for t in STATE_GOOD + STATE_BAD]


def gen_malformed(rng, wf, dist):
    """one byte string for the C15 stream (no NUL); dist counts the shapes"""
    def note(k):
        dist[k] = dist.get(k, 0) + 1
    r = rng.random()
    if r < 0.30:
        note("random-alphabet")
        n = rng.choice([0, 1, 2, 3, 4, 5, 6, 7, 8, 10, 12, 16, 24, 40])
        return rand_text(rng, n)
    if r < 0.55:
        note("mutated-wellformed")
        _, s = wf.expr()
        s = bytearray(s[:3000])
        for _ in range(rng.choice([1, 1, 2, 3])):
            op = rng.random()
            pos = rng.randrange(0, len(s) + 1)
            ch = rng.choice(b"[],- \t+x0" + b"\n\r\x0b\x0c" + bytes([rng.randrange(1, 256)]))
            if op < 0.4 and pos < len(s):
                del s[pos]
            elif op < 0.8:
                s.insert(pos, ch)
            elif pos < len(s):
                s[pos] = ch
        return bytes(s)
    if r < 0.70:
        note("big-numbers")
        pre = rng.choice([b"a", b"", b"n1", b"foo"])
        lo = rng.choice([0, 0, 1, 5, 16383]) if rng.random() < 0.5 else rng.choice(BIGNUMS)
        hi = rng.choice(BIGNUMS) + rng.choice([0, 0, -1, 1])
        if rng.random() < 0.15:
            hi = int("9" * rng.randrange(20, 41))
        shape = rng.random()
        if shape < 0.55:
            body = b"%d-%d" % (lo, hi)
        elif shape < 0.7:
            body = b"%d" % hi
        elif shape < 0.8:
            body = b"%d-%d,%d-%d" % (hi, hi, 0, rng.choice([0, 3, 16383, 16384]))
        elif shape < 0.9:
            body = b"%d-%s%d" % (lo, rng.choice([b" -", b"\t-", b" +", b"+", b" "]), rng.choice([0, 1, 2, 16385, hi]))
        else:
            body = b"%d-%d" % (max(0, hi - rng.choice([0, 1, 16383, 16384, 16385])), hi)
        suf = rng.choice([b"x", b"-ib", b"[1-2]"]) if rng.random() < (0.12 if hi >= U64 - 1 else 0.4) else b""
        tail = rng.choice([b"", b"", b",b", b",a[0-3]"])
        return pre + b"[" + body + b"]" + suf + tail
    if r < 0.74:
        # the range text is echoed in the diagnostic: it must never be taken for a printf format
        note("format-conversions")
        convs = [b"%s", b"%n", b"%d", b"%x", b"%%", b"%1000000d", b"%*d", b"%ls", b"%hhn", b"%p", b"%c", b"%5$s", b"%"]
        conv = b"".join(rng.choice(convs) for _ in range(rng.choice([1, 2, 4, 8, 12, 16])))
        pre = rng.choice([b"n", b"a", b"", b"foo"])
        shape = rng.random()
        if shape < 0.3:
            body = b"1-" + conv
        elif shape < 0.5:
            body = conv
        elif shape < 0.65:
            body = conv + b"-3"
        elif shape < 0.8:
            body = b"1-3," + conv + b",7"
        elif shape < 0.9:
            body = b"%d-%d%s" % (0, rng.choice(BIGNUMS), conv)
        else:
            return pre + b"[1-2]x[" + conv + b"]"          # reaches the parser on the second expansion pass
        return pre + b"[" + body + b"]" + rng.choice([b"", b"", b"x", b",b"])
    if r < 0.86:
        note("brackets")
        parts = []
        for _ in range(rng.randrange(1, 5)):
            parts.append(rng.choice([b"a", b"[", b"]", b"[1]", b"[1-2]", b"[[1]]", b"a[", b"]a", b"[]", b"[,]", b"[1,]", b"[-]",
                                     b"[1-]", b"[-1]", b"[1--2]", b"[2-1]", b"[1x-3]", b"[+1-3]", b"[ 1-3]", b"[1- 3]", b",", b" ",
                                     b"b3", b"[1-2][3-4]", b"[1-2]x[3]", b"[a]", b"[1-a]", b"[1\n-2]", b"[\t7]", b"[1-2-3]",
                                     b"[0x10]", b"[1e3]", b"[1.5]", b"[\xff]", b"\x80"]))
        return b"".join(parts)
    if r < 0.89:
        note("long-words")
        n = rng.choice([1021, 1022, 1023, 1024, 1025, 2000, 4094, 4095, 4096, 4097, 8000])
        kind = rng.random()
        if kind < 0.35:
            return b"x" * n
        if kind < 0.5:
            return b"a," + b"y" * n + b",b"
        if kind < 0.75:
            return b"p[1-3]" + b"s" * n
        if kind < 0.9:
            return b"q" * n + b"[1-3]"
        return b"a[" + b"0" * n + b"1-2]" + rng.choice([b"", b"x"])
    if r < 0.996:
        note("whitespace-sign")
        ws = rng.choice([b" ", b"\t", b"\n", b"\r", b"\x0b", b"\x0c", b"+", b" +", b""])
        return b"a[" + ws + b"%d" % rng.randrange(0, 20) + rng.choice([b"", b"x", b" "]) + b"-" + \
            rng.choice([b"", ws, b" -", b"-"]) + rng.choice([b"", b"%d" % rng.randrange(0, 30)]) + b"]" + rng.choice([b"", b"z"])
    note("range-count")
    n = rng.choice([10239, 10240, 10241])
    return b"a[" + b",".join([b"%d" % rng.randrange(0, 3)] * n) + b"]" + rng.choice([b"", b"x"])


def exhaustive(alpha, maxlen):
    for n in range(0, maxlen + 1):
        for t in itertools.product(alpha, repeat=n):
            yield bytes(t)


# ------------------------------------------------------------------ running
def risky(s):
    """inputs that go through the forked probe whatever the model says (cheap syntactic test)"""
    return feat_big(s) or any(len(t) >= 1000 for t in impl_tokens(s))


class HL:
    """real hostlist.c (harness) + model + spec on the same inputs"""

    def __init__(self, ctx):
        self.ctx = ctx
        self.exe = os.path.join(ctx.scratch, "hl_harness")
        self.env = dict(os.environ, ASAN_OPTIONS="detect_leaks=0:allocator_may_return_null=1:symbolize=0")
        self.nfork = 0
        self.gave_up = False
        self.ndiverge = 0

    # buffer sizes that are literals inside function bodies (not reachable by the constants probe): the model
    # carries them as CURTOK / HOSTBUF / iterSuffix / NTHBUF.  Each belongs to a recorded defect; as long as the
    # behavioural probe (harness/consts/hostlist.c -> Gen/Hostlist.lean FIX_*) says the defect is still there,
    # the literal the model mirrors must still be in the source.
    LITERALS = {"FIX_D18_CURTOK": [r"char\s+cur_tok\[1024\]", r"strncpy\(cur_tok, tok, sizeof \(cur_tok\) - 1\)"],
                "FIX_D23_HOSTBUF": [r"char\s+host\[4096\]", r"snprintf \(host, 4096,"],
                "FIX_D17_ITERSUFFIX": [r"char\s+suffix\[16\]", r"snprintf \(suffix, 15,"],
                "FIX_D24_NTH": [r"char\s+buf\[MAXHOSTNAMELEN \+ 16\]"],
                None: [r"size = strlen\(hr->prefix\) \+ hr->width \+ 16;"]}

    def probed(self):
        """the defect switches probed from /repo by gen_consts (what the model is run with)"""
        from vlib.common import LEAN_DIR
        out = {}
        try:
            for m in re.finditer(r"def (FIX_\w+) : Bool := (true|false)",
                                 open(os.path.join(LEAN_DIR, "PdshVerif", "Gen", "Hostlist.lean")).read()):
                out[m.group(1)] = m.group(2) == "true"
        except OSError:
            pass
        return out

    def build(self):
        from vlib.common import REPO
        flags = self.probed()
        try:
            src = open(os.path.join(REPO, "src/common/hostlist.c"), errors="replace").read()
            gone = [l for k, ls in self.LITERALS.items() if not flags.get(k, False) for l in ls if not re.search(l, src)]
        except OSError as e:
            gone = [str(e)]
        if gone:
            self.ctx.broken.append(("C-BROKEN", "hostlist.c buffer literals",
                                    "the source no longer contains %s: the buffer sizes of the model "
                                    "(Hostlist/Parse.lean CURTOK, HOSTBUF; Iter.lean iterSuffix, NTHBUF) must be re-read" % gone))
        return self.ctx.cc(self.exe, [os.path.join(HARNESS, "hl_harness.c")], san=True, assertions=True)

    def model(self, lines):
        return self.ctx.model("hl", "".join(l + "\n" for l in lines), args=["model"], timeout=1800)

    def spec(self, strings):
        return self.ctx.model("hl", "".join("classify %s %d\n" % (hx(s), LIMIT) for s in strings), args=["spec"],
                              timeout=1800)

    def impl(self, lines, timeout=900):
        """one answer per line; a crash of the in-process harness is attributed to its line"""
        res = []
        ncrash = 0
        for k in range(0, len(lines), 2000):
            if ncrash > 40:
                # the implementation keeps dying or hanging: every further case costs seconds; stop comparing
                res.extend([(["skipped"], None)] * (len(lines) - k))
                if not self.gave_up:
                    self.gave_up = True
                    self.ctx.broken.append(("C-BROKEN", "hl harness", "more than 40 crashes / timeouts of the in-process "
                                            "harness in one batch: the remaining cases of this run were not executed"))
                break
            part = run_batch([self.exe], [[l] for l in lines[k:k + 2000]], timeout=timeout, env=self.env)
            ncrash += sum(1 for _, c in part if c is not None)
            res.extend(part)
        out = []
        for ans, crash in res:
            if crash is not None or not ans:
                txt = crash or ""
                cls = "harness"
                m = re.search(r"ERROR: AddressSanitizer: (\S+)", txt)
                if m:
                    cls = "asan:" + m.group(1)
                elif "runtime error:" in txt:
                    cls = "ubsan"
                elif "Assertion" in txt:
                    cls = "assert"
                elif "LIMIT TIMEOUT" in txt or "TIMEOUT" in txt:
                    out.append("timeout")
                    continue
                elif "LIMIT OOM" in txt:
                    out.append("oom")
                    continue
                out.append("crash " + cls)
            else:
                out.append(ans[0])
        return out

    def sprobe_all(self, pairs, lim=1000):
        """pairs of (poison, text) -> (impl answers of `sprobe`, model answers of `probe text`): the model is a
        function of the text alone, the real call runs in the state hostlist_create(poison) left behind"""
        m = self.model(["probe %s %d" % (hx(t), lim) for _, t in pairs])
        out = self.impl(["sprobe %s %s %d" % (hx(p), hx(t), lim) for p, t in pairs])
        return out, m

    def probe_all(self, strings, force_fork=0.02):
        """-> (impl answers, model answers): the model runs first; what it calls ub/diverge, what looks
        risky and a random sample go through `fprobe` (forked child, per-call limits), the rest in process"""
        rng = self.ctx.rng
        m = self.model(["probe %s %d" % (hx(s), LIMIT) for s in strings])
        self.ctx.log("model done")
        lines = []
        lims = []
        for s, a in zip(strings, m):
            # names listed by the real code for THIS text: what the model lists and a margin -- never the global
            # LIMIT: a tree whose walk does not end where it should would print LIMIT names for every case
            # (gigabytes per batch); below its own limit a conforming answer is the same text
            mm = re.match(r"ok \| (-?\d+) ", a)
            lim = min(LIMIT, max(int(mm.group(1)), 0) + 50) if mm else 1000
            lims.append(lim)
            fork = a.startswith("ub:") or a == "diverge" or risky(s) or rng.random() < force_fork
            self.nfork += fork
            cpu = 2000
            if a == "diverge":
                # the model predicts a loop that never ends: the first few get the full 2 s, the rest a short
                # ceiling (the answer `timeout` is compared with the prediction either way)
                self.ndiverge += 1
                if self.ndiverge > 3:
                    cpu = 250
            lines.append("%s %s %d %d" % ("fprobe", hx(s), lim, cpu) if fork else "probe %s %d" % (hx(s), lim))
        out = self.impl(lines)
        # a timeout / memory ceiling ALONE (nothing predicts it) is tried once more, in a forked probe of its own with
        # three times the CPU ceiling: on a loaded machine the CPU clock of a sanitized process runs fast
        again = [i for i, (a, b) in enumerate(zip(out, m)) if a in ("timeout", "oom") and b != "diverge"][:12]
        if again:
            self.nretried = getattr(self, "nretried", 0) + len(again)
            second = self.impl(["fprobe %s %d %d" % (hx(strings[i]), lims[i], 6000) for i in again])
            for i, a in zip(again, second):
                out[i] = a
        return out, m


# ------------------------------------------------------------------ CLI
class CliGaveUp(Exception):
    """the real pdsh keeps hitting the wall-clock ceiling: the remaining CLI cases of this run are not executed"""


class CliBudget(Exception):
    """the phase has used its wall-clock budget (a tree under test whose every run takes seconds, or a very
    loaded machine): the remaining CLI cases of this run are not executed; nothing is reported"""


def cli_phase(ctx, fn, *a, **kw):
    """run one CLI phase of a check; when the pdsh under test hangs again and again (every such run costs its
    whole ceiling) the phase ends early -- the offenders found so far are kept, the fact is recorded"""
    try:
        fn(*a, **kw)
    except CliGaveUp as e:
        ctx.log("CLI phase ended early:", str(e))
        ctx.broken.append(("C-BROKEN", "pdsh runs", str(e)))
    except CliBudget as e:
        ctx.log("CLI phase cut:", str(e))


class Cli:
    MAX_TIMEOUTS = 6        # runs that may end at their ceiling before the CLI phases give up
    RETRY_BELOW = 3         # a timeout alone is tried once more while fewer runs than this have timed out

    def __init__(self, ctx):
        self.ctx = ctx
        self.ntimeout = 0
        self.spent = 0.0
        self.nruns = 0
        self.budget = 180.0 if ctx.quick() else 3600.0
        self.repo = ctx.repo_build()
        self.pdsh = os.path.join(self.repo, "src/pdsh/pdsh") if self.repo else None
        self.cwd = os.path.join(ctx.scratch, "clicwd")
        os.makedirs(self.cwd, exist_ok=True)

    def run(self, args, timeout=20, env_extra=None):
        env = {"PATH": "/usr/bin:/bin", "HOME": self.cwd, "LC_ALL": "C"}
        if env_extra:
            env.update(env_extra)
        # A broken tree can make pdsh print without end (an iterator that never finishes) or allocate without
        # end: the output kept is capped (OUT_CAP per stream; reaching it = the run never ends = "timeout",
        # not tried again) and the address space of the child is limited (prlimit execs pdsh in its own pid),
        # so the check itself stays small.  One thread, no polling: select() on the two pipes.
        self.runaway = False
        if self.ntimeout >= self.MAX_TIMEOUTS:
            raise CliGaveUp("%d runs of the real pdsh ended at their wall-clock ceiling (or printed without end): "
                            "the remaining CLI cases of this run were not executed" % self.ntimeout)
        if self.spent > self.budget:
            raise CliBudget("%d runs of the real pdsh took %.0f s (budget of the phase: %.0f s)" %
                            (self.nruns, self.spent, self.budget))
        t_start = time.time()
        self.nruns += 1
        cmd = ([self.PRLIMIT, "--as=%d" % self.AS_CAP, "--core=0"] if self.PRLIMIT else []) + [self.pdsh] + args
        p = subprocess.Popen(cmd, stdout=subprocess.PIPE, stderr=subprocess.PIPE, cwd=self.cwd,
                             env=env, stdin=subprocess.DEVNULL)
        bufs = {p.stdout.fileno(): bytearray(), p.stderr.fileno(): bytearray()}
        fo, fe = p.stdout.fileno(), p.stderr.fileno()
        sel = selectors.DefaultSelector()
        sel.register(fo, selectors.EVENT_READ)
        sel.register(fe, selectors.EVENT_READ)
        deadline = time.time() + timeout
        nopen = 2
        timed_out = False
        while nopen:
            left = deadline - time.time()
            if left <= 0:
                timed_out = True
                break
            for key, _ in sel.select(left):
                try:
                    d = os.read(key.fd, 1 << 16)
                except OSError:
                    d = b""
                if not d:
                    sel.unregister(key.fd)
                    nopen -= 1
                    continue
                b = bufs[key.fd]
                b.extend(d[:self.OUT_CAP - len(b)])
                if len(b) >= self.OUT_CAP:
                    self.runaway = True
            if self.runaway:
                timed_out = True
                break
        sel.close()
        rc = None
        if not timed_out:
            try:
                rc = p.wait(timeout=max(0.05, deadline - time.time()))
            except subprocess.TimeoutExpired:
                timed_out = True
        if timed_out:
            p.kill()
            p.wait()
        out, err = bytes(bufs[fo]), bytes(bufs[fe])
        p.stdout.close()
        p.stderr.close()
        self.spent += time.time() - t_start
        if timed_out:
            self.ntimeout += 1
            if self.ntimeout >= self.RETRY_BELOW:
                self.runaway = True         # callers try a timeout once more unless `runaway`: no more second tries
            return "timeout", out, err
        return rc, out, err

    PRLIMIT = shutil.which("prlimit")
    OUT_CAP = 32 << 20      # bytes of stdout / stderr kept per run (the longest legitimate listing is < 1 MiB)
    AS_CAP = 4 << 30        # address space of the pdsh child

    @staticmethod
    def diag(rc, err):
        if rc == "timeout":
            return "timeout"
        if rc < 0 or rc >= 128:
            return "crash:rc%s" % rc
        if b"Invalid range" in err:
            return "fatal:invalid"
        if b"Too many hosts" in err:
            return "fatal:toomany"
        if b"no remote hosts specified" in err:
            return "nohosts"
        k = err.find(b'invalid host expression "')
        if k >= 0 and rc == 1:
            # opt.c since d1c94df: a target word whose hostlist_push() yields nothing is an error; the word is quoted
            w = err[k + len(b'invalid host expression "'):]
            w = w[:w.rfind(b'"')] if b'"' in w else w
            return "badword:" + hx(w)
        return "rc%d" % rc

    def linebuf(self):
        """LINEBUFSIZE of the tree under test (fgets piece size of wcoll.c); 2048 when it can not be read"""
        try:
            m = re.search(r"#\s*define\s+LINEBUFSIZE\s+(\d+)", open(os.path.join(self.repo, "src/common/macros.h")).read())
            return int(m.group(1)) if m else 2048
        except OSError:
            return 2048

    def query(self, expr, timeout=20):
        """pdsh -Q -w EXPR -> (class, [hosts]|None, truncated)"""
        return self.query_args(["-w", expr], timeout=timeout)

    def query_args(self, args, timeout=20, env_extra=None):
        """pdsh -Q ARGS.. -> (class, [hosts]|None, truncated); a timeout alone is tried once more"""
        for attempt in (0, 1):
            rc, out, err = self.run(["-Q"] + list(args), timeout=timeout, env_extra=env_extra)
            if rc != "timeout" or self.runaway:
                break
        if rc != 0:
            return self.diag(rc, err), None, False
        lines = out.split(b"\n")
        try:
            i = lines.index(b"-- Target nodes --")
        except ValueError:
            return "garbled", None, False
        text = b"\n".join(lines[i + 1:])
        if text.endswith(b"\n"):
            text = text[:-1]
        trunc = text.endswith(b"[truncated]")
        if trunc:
            text = text[:-len(b"[truncated]")]
        return "ok", (text.split(b",") if text else []), trunc

    def contact(self, expr):
        """pdsh -R exec -f 1 -w EXPR echo %h -> (class, [hosts in contact order])"""
        return self.contact_args(["-w", expr])

    def contact_args(self, args, env_extra=None):
        """pdsh -R exec -f 1 -N ARGS.. echo %h -> (class, [hosts in contact order]); a timeout alone is tried once more"""
        for attempt in (0, 1):
            rc, out, err = self.run(["-R", "exec", "-f", "1", "-N"] + list(args) + ["echo", "%h"], timeout=60,
                                    env_extra=env_extra)
            if rc != "timeout" or self.runaway:
                break
        if rc != 0:
            return self.diag(rc, err), None
        return "ok", [l for l in out.split(b"\n") if l]
