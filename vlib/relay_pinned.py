"""Pinned (deterministic) in-process cases of the relay checks C05/C06: every quick run executes ALL of
them first, whatever the seed.  They cover the boundary classes a maintainer's slip would hit:

  lines      of exactly 64, 65, 8191, 8192, 8193, 131071, 131072 bytes (newline included) and one over,
             followed by more output, fed at once / around the boundary / byte-wise (small ones)
  growth     a line that fills the buffer exactly to, one short of and one beyond the capacities of
             cbuf.c's growth sequence for the constants of the code under test (`pdshmodel relay growth`:
             quick = first 3 and last 3 capacities, thorough = first 4, last 4 and every 4th between), followed by more output in the same
             read; and, when the side condition `growthOk` is false, the stream that loses bytes
  tails      unterminated final fragment of 1, 8190, 8191, 8192, 8193, 16382, 16383, 16384 bytes, alone and after
             lines, on stdout and stderr
  empties    empty lines alone, leading, trailing, in runs; a stream that is only a newline; empty stream
  bursts     hundreds of 0/1-byte lines in ONE read (after a line that made the buffer grow)
  marker     the return-code marker (spelling regenerated from dsh.c) on stdout cut at EVERY position, at the very
             end without newline, twice on a line, after text; on stderr (relayed verbatim); look-alikes
             (no colon, other separator, lower case, one X, cut short) on both streams -- in the domain
  labels     every name pool (dots, leading digits, prefixes of one another, mixed domains, empty
             components) x -K x -N, every target writing a line and a tail on both streams
  eof-order  stdout at EOF (and drained) long before stderr gets its data, and the reverse; a stream that
             is closed without ever carrying a byte; polls that find nothing (EAGAIN) before, between, after
  2 hosts    every fragmentation of two small streams on two hosts (names prefixes of one another) x every
             interleaving of the two hosts' arrivals
"""
import itertools
import random

from vlib import relay


def _txt(n, ch=b"x"):
    return ch * n


def _line(total, ch=b"x"):
    """a line of `total` bytes, newline included"""
    return ch * (total - 1) + b"\n"


def mk(targets, labels, optK, streams, tags, seed=0, run_form=False):
    c = relay.Case()
    c.targets, c.labels, c.optK = list(targets), labels, optK
    c.streams = dict(streams)
    c.tags = set(tags) | {"pinned"}
    return relay.build_ops(random.Random(seed), c, run_form=run_form)


def cuts_at(payload, cuts):
    cuts = sorted(set(c for c in cuts if 0 < c < len(payload)))
    out, prev = [], 0
    for c in cuts + [len(payload)]:
        out.append(payload[prev:c])
        prev = c
    return out


def explicit(targets, labels, optK, streams, ops, tags, complete=True):
    c = relay.Case()
    c.targets, c.labels, c.optK = list(targets), labels, optK
    c.streams = dict(streams)
    c.tags = set(tags) | {"pinned"}
    c.ops = ["begin %d %d %d %s" % (labels, optK, len(targets), " ".join(relay.hexs(t) for t in targets))] + ops
    c.complete = complete
    return c


def line_cases(quick):
    out = []
    two = [b"h1", b"h10"]
    for L in (64, 65, 2047, 2048, 2049, 8191, 8192, 8193, 131071, 131072, 131073):
        follow = _line(1500, b"y") + b"zz"
        p = _line(L) + follow
        huge = ["huge"] if L > 100000 else []
        tag = ["line=%d" % L] + huge
        out.append(mk(two, True, False, {(1, "o"): [p]}, tag + ["chunk:whole"] + (["fifo-too"] if L == 131072 else [])))
        if not huge or not quick or L == 131072:
            out.append(mk(two, True, False, {(0, "e"): cuts_at(p, [L - 2, L - 1, L, L + 1])}, tag + ["chunk:around"]))
            # the line alone: the LAST thing before EOF with nothing behind it
            out.append(mk(two, True, False, {(1, "o"): [_line(L)]}, tag + ["alone"]))
        if not huge or not quick:
            out.append(mk(two, True, False, {(0, "e"): [p]}, tag + ["chunk:whole"]))
            out.append(mk(two, True, False, {(1, "o"): cuts_at(p, [L - 2, L - 1, L, L + 1])}, tag + ["chunk:around"]))
            out.append(mk(two, False, False, {(1, "o"): [p]}, tag + ["chunk:whole", "-N"], run_form=True))
        if L <= 8193:
            out.append(mk(two, True, False, {(1, "o"): [bytes([b]) for b in p[:L + 3]] + [p[L + 3:]]}, tag + ["chunk:bytes"]))
    return out


def growth_cases(growth, quick):
    """growth = parsed `pdshmodel relay growth <meta>` line"""
    out = []
    path = growth.get("path", [])
    caps = sorted(set(path[:4] + path[4:-4:4] + path[-4:])) if not quick else sorted(set(path[:3] + path[-3:]))
    mx = growth.get("max", relay.MAXLINE)
    for s in caps:
        last = s in caps[-1:]
        small = s < 20000
        # unterminated part s-1, s, s+1: one short of / exactly / beyond capacity s
        for L in ((s, s + 1, s + 2) if (small or last or not quick) else (s + 1, s + 2) if s in caps[-2:] else (s + 1,)):
            if L < 2:
                continue
            p = _line(L) + _line(1500, b"y") + b"t"
            tags = ["growth-boundary"] + (["beyond-domain"] if L > relay.MAXLINE else []) + ([] if small else ["huge"])
            out.append(mk([b"h1", b"h10"], True, False, {(1, "o"): [p]},
                          tags + ["chunk:whole"] + (["fifo-too"] if last and L == s + 1 else [])))
            if small or not quick or (last and L == s + 1):
                out.append(mk([b"h1", b"h10"], True, False, {(0, "e"): cuts_at(p, [s - 1, s, s + 1, L])}, tags + ["chunk:around"]))
    bad = growth.get("bad")
    if bad:
        s, n = bad
        # the buffer is full with s unterminated bytes and grows to n < s + min(s, chunk): a read that finds more
        # than n - s bytes overwrites.  In the domain: a line of s+1 .. min(n, 131072) bytes followed by more output.
        for L in sorted(set([s + 1, min(n, mx, relay.MAXLINE), min(s + 2, relay.MAXLINE)])):
            if L > relay.MAXLINE or L <= s:
                continue
            p = _line(L) + _line(3000, b"y")
            huge = ["huge"] if L > 20000 else []
            out.append(mk([b"h1", b"h10"], True, False, {(1, "o"): [p]}, ["growth-bad-step", "chunk:whole", "fifo-too"] + huge))
            out.append(mk([b"h1", b"h10"], True, False, {(0, "e"): [p]}, ["growth-bad-step", "chunk:whole"] + huge))
    return out


def tail_cases():
    out = []
    for n in (1, 8190, 8191, 8192, 8193, 16382, 16383, 16384):
        for key in ((1, "o"), (1, "e")):
            out.append(mk([b"h1", b"h10"], True, False, {key: [_txt(n, b"t")]}, ["tail", "tail=%d" % n]))
            p = b"first\n\nsecond\n" + _txt(n, b"t")
            out.append(mk([b"h1", b"h10"], True, False, {key: cuts_at(p, [3, 6, 7, 14, 14 + n // 2])}, ["tail", "tail=%d" % n]))
        out.append(mk([b"a.dom", b"b.other"], False, True, {(0, "o"): [_txt(n, b"t")]}, ["tail", "tail=%d" % n, "-N"]))
    return out


def empty_cases():
    out = []
    for p in (b"\n", b"\n\n", b"\n\n\n", b"\na\n", b"a\n\n", b"\n\na\n\n\nb\n\n", b"a\n\nb", b"\nt", b""):
        n = len(p)
        for chunks in ([p], [bytes([b]) for b in p]):
            for key in ((0, "o"), (1, "e")):
                out.append(mk([b"h", b"h1"], True, False, {key: list(chunks)}, ["empty-line"]))
        out.append(mk([b"h", b"h1"], False, False, {(1, "o"): [p]}, ["empty-line", "-N"], run_form=True))
    return out


def burst_cases():
    out = []
    for pre, k, w in ((1000, 300, 1), (0, 64, 0), (65, 129, 2), (1999, 800, 0), (64, 65, 1)):
        p = (_line(pre) if pre else b"") + b"".join(_line(w + 1, b"b") for _ in range(k)) + b"end"
        out.append(mk([b"node1", b"node11"], True, False, {(1, "o"): [p]}, ["burst", "chunk:whole"]))
        out.append(mk([b"node1", b"node11"], True, False, {(0, "e"): cuts_at(p, [pre, pre + 1, len(p) - 3])}, ["burst"]))
    return out


def marker_cases(magic):
    out = []
    two = [b"h1", b"h10"]
    # the real marker on stdout: outside the domain of C05 (model correspondence incl. th->rc): every cut point
    for p in (b"out\n" + magic + b"3\n", b"out\n" + magic + b"3", b"pre" + magic + b"12\nlate\n", magic + b"0\n",
              magic + b"1" + magic + b"2\n", b"a\n" + magic + b"255\n" + b"b\n" + magic + b"7\n", magic, magic + b"\n"):
        out.append(mk(two, True, False, {(1, "o"): [p]}, ["magic", "chunk:whole"]))
        out.append(mk(two, True, False, {(1, "o"): [bytes([b]) for b in p]}, ["magic", "chunk:bytes"]))
        for c in range(1, len(p)):
            out.append(mk(two, True, False, {(1, "o"): [p[:c], p[c:]]}, ["magic", "chunk:every-cut"]))
        # the same bytes on stderr are ordinary text (in the domain): relayed verbatim
        out.append(mk(two, True, False, {(1, "e"): [bytes([b]) for b in p]}, ["magic-on-stderr"]))
        out.append(mk(two, True, False, {(0, "e"): [p]}, ["magic-on-stderr"]))
    # look-alikes: in the domain on both streams
    looks = [magic[:-1], magic[:-1] + b";3", magic[1:] + b"3", magic.lower() + b"3", magic[:2] + b" " + magic[2:],
             magic[:-1] + b"X:4", magic[:5], b"X" + magic[:-1], magic[:-1] + b" :9", magic.replace(b"E", b"e", 1) + b"5"]
    looks = [l for l in looks if magic not in l]
    for l in looks:
        for p in (b"t " + l + b"\nnext\n", l + b"\n", b"x\n" + l):
            for key in ((1, "o"), (0, "e")):
                out.append(mk(two, True, False, {key: [p]}, ["marker-lookalike"]))
                out.append(mk(two, True, False, {key: [bytes([b]) for b in p]}, ["marker-lookalike", "chunk:bytes"]))
    return out


def label_cases():
    out = []
    for pool in relay.NAME_POOLS:
        for labels, optK in ((True, False), (True, True), (False, False)):
            streams = {}
            for i, _ in enumerate(pool):
                streams[(i, "o")] = [b"out of %d\n" % i, b"tail%d" % i]
                streams[(i, "e")] = [b"err of %d\nx\n" % i]
            out.append(mk(pool, labels, optK, streams, ["labels"] + (["-N"] if not labels else []) + (["-K"] if optK else []),
                          seed=len(pool)))
    return out


def eof_order_cases():
    out = []
    T = [b"h1", b"h10"]
    hx = relay.hexs
    o, e = b"o1\no2\npartial-o", b"e1\npartial-e"
    S = {(0, "o"): [o], (0, "e"): [e]}
    # stdout closes (and is drained) long before stderr carries anything
    out.append(explicit(T, True, False, S, [
        "feed 0 o " + hx(o), "eof 0 o", "drain 0 o", "feed 0 e -", "feed 0 e -", "feed 0 e " + hx(e[:4]),
        "feed 0 e -", "feed 0 e " + hx(e[4:]), "eof 0 e", "drain 0 e", "flush 0", "flush 1"], ["eof-order"]))
    # the reverse
    out.append(explicit(T, True, False, S, [
        "feed 0 e " + hx(e), "eof 0 e", "drain 0 e", "feed 0 o -", "feed 0 o " + hx(o[:7]), "feed 0 o -",
        "feed 0 o " + hx(o[7:]), "eof 0 o", "drain 0 o", "flush 0", "flush 1"], ["eof-order"]))
    # a stream closed without a byte, polls that find nothing before / between / after
    out.append(explicit(T, True, False, {(1, "o"): [], (1, "e"): [e]}, [
        "feed 1 o -", "feed 1 e -", "eof 1 o", "drain 1 o", "feed 1 e " + hx(e), "feed 1 e -", "eof 1 e", "drain 1 e",
        "flush 1", "flush 0"], ["eof-order", "empty-stream"]))
    # EOF arrives together with the last data (the handler call that sees EOF still has data to read)
    out.append(explicit(T, True, False, S, [
        "feed 0 o " + hx(o[:3]), "feed 0 e " + hx(e), "eof 0 e", "feed 0 o " + hx(o[3:]), "eof 0 o", "drain 0 e",
        "drain 0 o", "flush 0", "flush 1"], ["eof-order"]))
    return out


def two_host_cases(quick):
    """every fragmentation of two small streams x every interleaving of the two hosts' arrivals"""
    out = []
    pairs = [(b"a\nb", b"\nc")] if quick else [(b"a\nb", b"\nc"), (b"ab\n", b"c\n\n"), (b"a\nb\n", b"xy")]
    T = [b"h1", b"h10"]
    hx = relay.hexs

    def comps(s):
        n = len(s)
        for mask in range(1 << (n - 1)):
            chunks, prev = [], 0
            for j in range(1, n):
                if mask >> (j - 1) & 1:
                    chunks.append(s[prev:j])
                    prev = j
            chunks.append(s[prev:])
            yield chunks
    k = 0
    for A, B in pairs:
        for ca in comps(A):
            for cb in comps(B):
                na, nb = len(ca) + 1, len(cb) + 1          # + the eof/drain step of each stream
                for pos in itertools.combinations(range(na + nb), na):
                    k += 1
                    sa, sb = "oe"[k % 2], "oe"[(k // 2) % 2]
                    ops, ia, ib = [], 0, 0
                    for slot in range(na + nb):
                        if slot in pos:
                            if ia < len(ca):
                                ops.append("feed 0 %s %s" % (sa, hx(ca[ia])))
                            else:
                                ops += ["eof 0 %s" % sa, "drain 0 %s" % sa]
                            ia += 1
                        else:
                            if ib < len(cb):
                                ops.append("feed 1 %s %s" % (sb, hx(cb[ib])))
                            else:
                                ops += ["eof 1 %s" % sb, "drain 1 %s" % sb]
                            ib += 1
                    ops += ["flush 0", "flush 1"]
                    # every third case with -N: a line that arrives in two reads must still be ONE stdio call
                    # although no label marks its beginning (seeded C06-12)
                    out.append(explicit(T, k % 3 != 0, False, {(0, sa): list(ca), (1, sb): list(cb)}, ops,
                                        ["two-hosts-exhaustive"] + ([] if k % 3 else ["-N"])))
    return out


def percent_cases():
    """'%' in the data must mean nothing: err.c's _verr() is a printf of its own; a tail or line handed to it as
    the FORMAT loses its '%' (seeded C05-2/-5/-8).  Tails and lines, labelled and -N, first and later tail pieces"""
    out = []
    two = [b"h1", b"h10"]
    texts = [b"100% ok", b"%", b"%%", b"50%% done %", b"%s%d%p%S%m%H%P%n", b"a%sb", b"%5d|%-3s|%lu", b"trailing %",
             b"% d", b"%\n%%%"]
    for t in texts:
        for labels in (True, False):
            for key in ((1, "o"), (0, "e")):
                out.append(mk(two, labels, False, {key: [t]}, ["percent", "tail"] + ([] if labels else ["-N"])))
                out.append(mk(two, labels, False, {key: [b"line " + t + b"\n" + t]}, ["percent"] + ([] if labels else ["-N"])))
    # the '%' beyond the first piece of a tail longer than the flush buffer (pieces 2.. are unlabelled)
    for n in (8191, 8192, 16382, 16390):
        for key in ((1, "o"), (1, "e")):
            out.append(mk(two, True, False, {key: [_txt(n, b"t") + b"50% of %s %%"]}, ["percent", "long-tail"]))
    return out


def ring_cases(growth):
    """arrivals that end exactly at the physical end of the ring array (capacity+1 slots) while free space
    continues at slot 0 -- the descriptor write then reads in two pieces and the second finds nothing (EAGAIN)
    or EOF (seeded C05-1/-4) -- and growth of a buffer whose unread data wraps around the end (seeded C05-7):
    for the initial capacity S of the code under test and the next one"""
    out = []
    path = growth.get("path", [64])
    two = [b"h1", b"h10"]
    for S in path[:2]:
        ks = list(range(1, min(S, 70) + 1)) if S <= 200 else [1, 2, 3, 10, 63, 64, 65, 100, S // 2, S - 2, S - 1, S]
        for k in ks:
            # a line of k bytes (read and flushed: the indices stand at k), then exactly the rest of the array
            rest = S + 1 - k
            if rest < 1:
                continue
            first, second, last = _line(k, b"a"), _txt(rest - 1, b"b") + b"\n", b"last\n"
            hx = relay.hexs
            for strm in ("o", "e"):
                if (k + (strm == "e")) % 2 and S <= 200 and k > 12:
                    continue                      # alternate the stream to halve the count
                ops = ["feed 1 %s %s" % (strm, hx(first)), "feed 1 %s %s" % (strm, hx(second)), "feed 1 %s -" % strm,
                       "feed 1 %s %s" % (strm, hx(last)), "eof 1 %s" % strm, "drain 1 %s" % strm, "flush 0", "flush 1"]
                out.append(explicit(two, True, False, {(1, strm): [first, second, last]}, ops, ["ring-end"]))
                # ... and with EOF right behind the piece that ends at the array's end
                ops = ["feed 1 %s %s" % (strm, hx(first)), "feed 1 %s %s" % (strm, hx(second)), "eof 1 %s" % strm,
                       "drain 1 %s" % strm, "flush 0", "flush 1"]
                out.append(explicit(two, True, False, {(1, strm): [first, second]}, ops, ["ring-end", "eof-behind"]))
                # ... unterminated: the piece stays in the buffer
                sec2 = _txt(rest, b"c")
                ops = ["feed 1 %s %s" % (strm, hx(first)), "feed 1 %s %s" % (strm, hx(sec2)), "feed 1 %s -" % strm,
                       "feed 1 %s %s" % (strm, hx(b"!\n")), "eof 1 %s" % strm, "drain 1 %s" % strm, "flush 0", "flush 1"]
                out.append(explicit(two, True, False, {(1, strm): [first, sec2, b"!\n"]}, ops, ["ring-end", "unterminated"]))
    # wrapped data + growth: short lines consumed first, then a line longer than the current capacity
    for pre in (b"hi\n", b"a\nbc\n", _line(40, b"p"), _line(63, b"p") + b"q\n"):
        for S in path[:4]:
            for extra in (1, 2, 136):
                p = pre + _line(S + extra, b"L") + b"after\n" + b"t"
                out.append(mk(two, True, False, {(1, "o"): [p]}, ["wrap-grow", "chunk:whole"]))
                out.append(mk(two, True, False, {(0, "e"): cuts_at(p, [len(pre), len(pre) + S // 2, len(pre) + S])},
                              ["wrap-grow", "chunk:around"]))
    return out


def fault_cases():
    """read(2) misbehaving at EVERY handler call: short reads (the descriptor delivers at most CAP bytes), spurious
    wake-ups (EAGAIN although data is there), reads interrupted by a signal (EINTR, to be retried unnoticed) --
    on arrivals, at EOF and in the drain, around the buffer's growth steps"""
    out = []
    T = [b"h1", b"h10"]
    hx = relay.hexs
    small = b"ab\ncd\n\nef"
    big = b"x" * 70 + b"\n" + b"y" * 1500 + b"\n" + b"tail"
    k = 0
    for p, caps in ((small, ["0", "1", "2", "3", "-"]), (big, ["0", "1", "63", "64", "65", "999", "1000", "1001", "-"])):
        cutsets = [[c] for c in range(1, len(p))] if len(p) < 20 else [[10], [64], [71], [72, 1000], [500, 1571, 1573]]
        for cuts in cutsets:
            chunks = cuts_at(p, cuts)
            for cap in caps:
                for ne in ("0", "1", "3"):
                    k += 1
                    strm = "oe"[k % 2]
                    dcap = cap if cap not in ("0",) else "1"
                    ops = ["feed 1 %s %s %s %s" % (strm, hx(c), cap, ne) for c in chunks]
                    # a call that finds nothing new, one more under the same faults, then EOF and the drain
                    ops += ["feed 1 %s - %s %s" % (strm, cap, ne), "feed 1 %s - - %s" % (strm, ne),
                            "eof 1 %s %s %s" % (strm, cap, ne), "drain 1 %s %s %s" % (strm, dcap, ne), "flush 0", "flush 1"]
                    out.append(explicit(T, True, False, {(1, strm): chunks}, ops, ["read-faults", "cap=" + cap, "eintr=" + ne]))
    # the read FAILS (EIO): one diagnostic, the descriptor is closed, what was buffered is flushed at the end, the other
    # stream goes on (not judged by the oracle: the stream was cut short by the error)
    for pre, strm in ((b"", "o"), (b"whole\npart", "o"), (b"part", "e"), (b"l1\nl2\n", "e")):
        other = "e" if strm == "o" else "o"
        ops = (["feed 1 %s %s" % (strm, hx(pre))] if pre else []) + \
              ["feed 1 %s %s E" % (strm, hx(b"never read\n")), "feed 1 %s %s" % (other, hx(b"other\nstream")),
               "eof 1 %s" % other, "drain 1 %s" % other, "flush 0", "flush 1"]
        c = explicit(T, True, False, {(1, strm): [pre, b"never read\n"], (1, other): [b"other\nstream"]}, ops,
                     ["read-faults", "read-error"])
        c.complete = False
        out.append(c)
    # EOF seen by a call whose read is interrupted first; EOF on a descriptor that never carried a byte
    for ne in ("1", "2", "5"):
        out.append(explicit(T, True, False, {(0, "o"): [b"line\nrest"], (0, "e"): []},
                            ["feed 0 o " + hx(b"line\nrest") + " - " + ne, "eof 0 e - " + ne, "eof 0 o - " + ne,
                             "drain 0 o - " + ne, "flush 0", "flush 1"], ["read-faults", "eintr=" + ne]))
    return out


def rcp_cases():
    """pdcp / rpdcp (`_parallel_copy`): the remote stderr goes through the same handler and flush; judged like any
    stderr stream when it is relayed (rpdcp, or a failed pdcp client); a succeeding pdcp client never reads it"""
    out = []
    T = [b"h1", b"h10", b"a.dom"]
    hx = relay.hexs
    payloads = [b"", b"pcp: error\n", b"one\ntwo\npartial", b"x" * 70 + b"\n" + b"y" * 2100 + b"\n" + b"t" * 9000,
                b"100% full\nno %s newline", b"XXRETCODE:3\nmarker is plain text on stderr\n"]
    k = 0
    for p in payloads:
        for popt, rv in ((1, 0), (1, -1), (0, -1), (0, -7)):
            for labels in (True, False):
                k += 1
                i = k % 3
                chunks = cuts_at(p, [len(p) // 3, len(p) // 2]) if p else []
                ops = ["rcperr %d e %d %d %s" % (i, popt, rv, " ".join(hx(c) for c in chunks))] + \
                      ["flush %d" % j for j in range(3)]
                out.append(explicit(T, labels, False, {(i, "e"): chunks}, ops, ["rcp-stderr"] + ([] if labels else ["-N"])))
    # a pdcp client that succeeds does not read the remote stderr at all (not judged by the oracle: nothing is relayed)
    c = explicit(T, True, False, {(1, "e"): [b"ignored\n"]}, ["rcperr 1 e 0 0 " + hx(b"ignored\n")], ["rcp-stderr", "not-read"])
    c.complete = False
    out.append(c)
    return out


def pinned_cases(growth, magic, quick):
    return (rcp_cases() + fault_cases() + percent_cases() + ring_cases(growth) +line_cases(quick) + growth_cases(growth, quick) + tail_cases() + empty_cases() + burst_cases() +
            marker_cases(magic) + label_cases() + eof_order_cases() + two_host_cases(quick))
