"""C18: the two settings that `-q` only shows where they are STORED, observed where they are USED.

connect time-out   the scratch-built pdsh with the REAL rsh module (src/modules/xrcmd.c) against a scripted rsh peer on
                   loopback addresses of this process's own (127.<a>.<b>.x:514; copied in spirit from vlib/rshreal.py,
                   which belongs to C07): the peer accepts, reads the request and answers the handshake only after
                   SLOW seconds ("slow"), or never ("mute").  A limit of 1 s gives the host up after about 1 + WDOG_POLL
                   seconds (before the answer), a limit of 9 s or the default of 10 s lets the answer through; the mute
                   host shows that the DEFAULT is a limit at all (given up after 10..12 s, not never).
remote pdcp path   pdcp / rpdcp through tests/test-modules/pcptest.so as uid 1000 (PDSH_MODULE_DIR is ignored for root):
                   the program named by the path in force is a wrapper that records its own name ($0) and then runs
                   the real pdcp; the default (the program's own path, from argv[0]) is made observable by starting
                   the real binary under an argv[0] that names such a wrapper.
Every source (command line / environment / default), both orders of a repeated option, the option before and after
the other options.
"""
import concurrent.futures
import os
import shutil
import socket
import subprocess
import threading
import time

SLOW = 4.5          # seconds before the slow peer answers the handshake
CT_SHORT, CT_LONG = 1, 9
WDOG_POLL = 2


# ------------------------------------------------------------------------------------------------ scripted rsh peer
class SlowPeer:
    """rsh server on <net>1 (slow) and <net>2 (mute); one accept thread per address"""

    def __init__(self):
        self.socks = []
        self.net = None
        pid = os.getpid()
        last = None
        for k in range(40):             # a net of our own: another check running at the same time has another pid
            net = "127.%d.%d." % (100 + (pid + k) % 100, (pid // 100 + 7 * k) % 250 + 1)
            try:
                socks = []
                for host in (net + "1", net + "2"):
                    s = socket.socket()
                    s.setsockopt(socket.SOL_SOCKET, socket.SO_REUSEADDR, 1)
                    s.bind((host, 514))
                    s.listen(64)
                    socks.append(s)
                self.socks, self.net = socks, net
                break
            except OSError as e:
                last = e
                for s in socks:
                    s.close()
        if self.net is None:
            raise OSError("cannot listen on a loopback address at port 514: %s" % last)
        self.slow, self.mute = self.net + "1", self.net + "2"
        for s, a in zip(self.socks, (self.slow, self.mute)):
            threading.Thread(target=self.accept_loop, args=(s, a), daemon=True).start()

    def accept_loop(self, s, addr):
        while True:
            try:
                c, _ = s.accept()
            except OSError:
                return
            threading.Thread(target=self.handle, args=(c, addr), daemon=True).start()

    def handle(self, c, addr):
        c.settimeout(60)
        back = None
        try:
            peer = c.getpeername()
            data = b""
            while data.count(b"\0") < 1:
                b = c.recv(1)
                if not b:
                    return
                data += b
            port = data.split(b"\0")[0]
            if port.isdigit():                  # the stderr back channel, from a reserved port (as rshd does)
                for lp in range(1023, 511, -1):
                    try:
                        back = socket.socket()
                        back.bind((addr, lp))
                        back.connect((peer[0], int(port)))
                        break
                    except OSError:
                        back.close()
                        back = None
            while data.count(b"\0") < 4:        # local user, remote user, command
                b = c.recv(1)
                if not b:
                    return
                data += b
            if addr == self.mute:
                c.recv(1)                       # never answer; wait until pdsh gives up and closes
                return
            time.sleep(SLOW)
            c.sendall(b"\0")
            c.sendall(b"answered\n")
        except OSError:
            pass
        finally:
            try:
                c.close()
            except OSError:
                pass
            if back:
                back.close()

    def close(self):
        for s in self.socks:
            s.close()


def materialize(c, mapping):
    """replace the placeholders (@SLOW @MUTE @A @B) in option values and variables; the case as GENERATED is kept in
    opts0 / env0 (that is what a replay file records)"""
    if not hasattr(c, "opts0"):
        c.opts0, c.env0 = list(c.opts), dict(c.env)
    sub = lambda v: mapping.get(v, v)
    c.opts = [(l, sub(v) if v is not None else None) for l, v in c.opts0]
    c.env = {k: sub(v) for k, v in c.env0.items()}


def connect_cases(Case):
    """kind "slow" (is the host given up before its answer?) or "mute" (when is it given up?)"""
    R = ("R", "rsh")
    W = ("w", "@SLOW")
    out = []
    T1, T9 = ("t", str(CT_SHORT)), ("t", str(CT_LONG))
    E = "PDSH_CONNECT_TIMEOUT"
    for opts, env in (([T1], {}), ([], {E: str(CT_SHORT)}), ([T9], {E: str(CT_SHORT)}), ([T1], {E: str(CT_LONG)}), ([], {}),
                      ([T9, T1], {}), ([T1, T9], {}), ([T1, ("u", "60")], {"PDSH_COMMAND_TIMEOUT": "70"})):
        for front in ((True, False) if opts else (True,)):
            base = [R, W]
            c = Case("dsh", (opts + base) if front else (base + opts), dict(env), ["true"], kind="use")
            c.use, c.group, c.ckind = "connect", "use", "slow"
            out.append(c)
    # the default is a limit: a host that never answers is given up after CONNECT_TIMEOUT (+ one watchdog period)
    c = Case("dsh", [R, ("w", "@MUTE")], {}, ["true"], kind="use")
    c.use, c.group, c.ckind = "connect", "use", "mute"
    out.append(c)
    return out


def run_connect_case(real, peer, c):
    materialize(c, {"@SLOW": peer.slow, "@MUTE": peer.mute})
    t0 = time.time()
    rc, out, err_ = real.run("dsh", c.argv(), c.env, timeout=45)
    wall = time.time() - t0
    answered = b"answered" in out
    return rc, out, err_, {"answered": answered, "wall_tenths": int(wall * 10), "reported": bool(err_.strip())}


def connect_spec_words(c, obs, dflt_ctmo):
    if c.ckind == "slow":
        # given up BEFORE the answer (cut) or not
        return " ccut=%d cshort=%d clong=%d" % (0 if obs["answered"] else 1, CT_SHORT, CT_LONG)
    # mute: given up at all, and after how long (tenths of a second); slack 6 s for a loaded machine
    return " cgiven=%d cwait=%d cwdog=%d cslack=%d" % (0 if obs["answered"] else 1, obs["wall_tenths"], WDOG_POLL * 10, 60)


# ------------------------------------------------------------------------------------------------ remote pdcp path
class PathBench:
    """wrappers that record their own name and run the real pdcp; per-run directories owned by uid 1000"""

    def __init__(self, ctx, repo):
        self.ok = False
        self.root = os.path.join(ctx.scratch, "c18path")
        shutil.rmtree(self.root, ignore_errors=True)
        os.makedirs(self.root)
        q = subprocess.run("make pcptest.la >/dev/null 2>&1", shell=True, cwd=os.path.join(repo, "tests/test-modules"))
        self.moddir = os.path.join(repo, "tests/test-modules/.libs")
        if q.returncode != 0 or not os.path.exists(os.path.join(self.moddir, "pcptest.so")):
            self.why = "tests/test-modules/pcptest.so does not build"
            return
        self.real = os.path.join(repo, "src", "pdsh", "pdsh")
        self.bindir = os.path.join(self.root, "bin")
        os.makedirs(self.bindir)
        for n in ("pdcp", "rpdcp"):
            os.symlink(self.real, os.path.join(self.bindir, n))
        self.log = os.path.join(self.root, "who.log")
        self.ok = True

    def wrapper(self, run, tag, name="pdcp"):
        """a program `.../<run>/<tag>/<name>` that appends "<run> $0" to the log and then IS pdcp"""
        d = os.path.join(self.root, run, tag)
        os.makedirs(d, exist_ok=True)
        p = os.path.join(d, name)
        with open(p, "w") as f:
            f.write('#!/bin/sh\nprintf "%%s %%s\\n" "%s" "$0" >> "%s"\nexec "%s/pdcp" "$@"\n' % (run, self.log, self.bindir))
        os.chmod(p, 0o755)
        return p


def path_cases(Case):
    """cases whose -e / PDSH_REMOTE_PDCP_PATH values are placeholders @A @B (a wrapper of the run's own)"""
    out = []
    E = "PDSH_REMOTE_PDCP_PATH"
    sets = [("pdcp", [("e", "@A")], {}), ("pdcp", [], {E: "@B"}), ("pdcp", [("e", "@A")], {E: "@B"}), ("pdcp", [], {}),
            ("pdcp", [("e", "@A"), ("e", "@B")], {}), ("pdcp", [("e", "@B"), ("e", "@A")], {}),
            ("pdcp", [("e", "@A"), ("f", "1")], {E: "@B", "FANOUT": "2"}),
            ("rpdcp", [("e", "@A")], {}), ("rpdcp", [], {E: "@B"}), ("rpdcp", [], {}), ("rpdcp", [("e", "@A")], {E: "@B"})]
    for pers, opts, env in sets:
        for front in ((True, False) if opts else (True,)):
            base = [("R", "pcptest"), ("w", "h[1-2]")]
            c = Case(pers, (opts + base) if front else (base + opts), dict(env), [], kind="use")
            c.use, c.group = "path", "use"
            out.append(c)
    return out


def run_path_case(bench, c, i):
    run = "r%d" % i
    w = os.path.join(bench.root, run)
    os.makedirs(w, exist_ok=True)
    A, B, D = bench.wrapper(run, "A"), bench.wrapper(run, "B"), bench.wrapper(run, "D", c.pers)
    materialize(c, {"@A": A, "@B": B})
    c.dflt_path = D
    for h in ("h1", "h2"):
        os.makedirs(os.path.join(w, h, "dst"), exist_ok=True)
        with open(os.path.join(w, h, "rfile"), "w") as f:
            f.write("remote %s\n" % h)
    os.makedirs(os.path.join(w, "out"), exist_ok=True)
    with open(os.path.join(w, "lfile"), "w") as f:
        f.write("local\n")
    c.operands = ["rfile", "out"] if c.pers == "rpdcp" else ["lfile", "dst"]
    subprocess.run(["chown", "-R", "1000:1000", w])
    if not os.path.exists(bench.log):
        open(bench.log, "a").close()
        os.chmod(bench.log, 0o666)
    env = dict(c.env, PDSH_MODULE_DIR=bench.moddir, PATH=bench.bindir + ":/usr/bin:/bin")
    argv = [D] + c.argv()            # argv[0] names the wrapper D; the program that runs is the real binary
    rc, out, err_ = None, b"", b"TIMEOUT"
    for attempt in (0, 1):
        try:
            p = subprocess.run(argv, executable=bench.real, cwd=w, env=env, stdin=subprocess.DEVNULL, stdout=subprocess.PIPE,
                               stderr=subprocess.PIPE, timeout=40, user=1000, group=1000, extra_groups=[])
            rc, out, err_ = p.returncode, p.stdout, p.stderr
            break
        except subprocess.TimeoutExpired:
            continue
    who = []
    if os.path.exists(bench.log):
        for l in open(bench.log):
            r, _, name = l.rstrip("\n").partition(" ")
            if r == run:
                who.append(name)
    arrived = sum(1 for h in ("h1", "h2") if os.path.exists(os.path.join(w, h, "dst", "lfile"))) if c.pers == "pdcp" else \
        sum(1 for h in ("h1", "h2") if os.path.exists(os.path.join(w, "out", "rfile." + h)))
    return rc, out, err_, {"programs": sorted(set(who)), "invocations": len(who), "arrived": arrived}


def run_all(real, Case, peer, bench, only=None):
    """-> [(case, (rc, out, err, obs))] for the connect and the path cases, run side by side"""
    ccases = connect_cases(Case) if peer else []
    pcases = path_cases(Case) if bench and bench.ok else []
    if only is not None:                # --replay: the one recorded case
        ccases = [only] if only.use == "connect" and peer else []
        pcases = [only] if only.use == "path" and bench and bench.ok else []
    with concurrent.futures.ThreadPoolExecutor(max_workers=24) as ex:
        cf = [ex.submit(run_connect_case, real, peer, c) for c in ccases]
        pf = [ex.submit(run_path_case, bench, c, i) for i, c in enumerate(pcases)]
        cres = [f.result() for f in cf]
        pres = [f.result() for f in pf]
    return list(zip(ccases, cres)), list(zip(pcases, pres))
