"""Machinery of the C14 check (printing a host list): list generators (expressions, incremental pushes and
edits, raw record sequences, texts that end near a fixed buffer size), the protocol of the `p*` ops of
harness/hl_harness.c (hl_print_ops.h) and of `pdshmodel print`, the per-(list, n) oracle that restates the
property text on observables, and the narrow classes of the recorded findings."""
import os
import re
import subprocess

from vlib.hostlist import HL, WFGen, hx, unhx, LIMIT, parse_probe, names_field
from vlib.seqrun import run_batch

U64 = 1 << 64
META = b"[], \t"
MAX_RANGE_TEXT = 16384        # hosts per range the parser accepts (property C01/C15 text)
MAX_RANGES_TEXT = 10240       # ranges per bracket


# ------------------------------------------------------------------ records
class Rec:
    __slots__ = ("pre", "lo", "hi", "width", "single")

    def __init__(self, pre, lo, hi, width, single):
        self.pre, self.lo, self.hi, self.width, self.single = pre, lo, hi, width, single

    def field(self):
        return "%s:%d:%d:%d:%d" % (hx(self.pre), self.lo, self.hi, self.width, 1 if self.single else 0)

    def count(self):
        return 1 if self.single else self.hi - self.lo + 1

    def hosts(self):
        if self.single:
            return [self.pre]
        return [self.pre + str(k).zfill(self.width).encode() for k in range(self.lo, self.hi + 1)]

    def text_len(self):
        """length of the hosts of this record joined by commas (without materialising big ranges)"""
        if self.single:
            return len(self.pre)
        n, total, k = self.hi - self.lo + 1, 0, self.lo
        while k <= self.hi:                      # per digit-count block
            d = len(str(k))
            top = min(self.hi, 10 ** d - 1)
            total += (top - k + 1) * (len(self.pre) + max(d, self.width))
            k = top + 1
        return total + n - 1


def parse_dump(line):
    """`NHOSTS NRANGES PRE:LO:HI:WIDTH:SINGLE ...` -> (nhosts, [Rec]) or None"""
    p = line.split()
    if len(p) < 2 or not re.fullmatch(r"-?\d+", p[0]):
        return None
    recs = []
    for f in p[2:]:
        a = f.split(":")
        if len(a) != 5:
            return None
        recs.append(Rec(unhx(a[0]), int(a[1]), int(a[2]), int(a[3]), a[4] == "1"))
    return int(p[0]), recs


def all_hosts(recs):
    out = []
    for r in recs:
        out.extend(r.hosts())
    return out


# ------------------------------------------------------------------ classes of the recorded findings
def meta_name(recs):
    """a single-host NAME holds a character with a meaning in host expressions (or is empty): the leftovers of
    two-bracket words, e.g. foo1-[0-1]"""
    return any(r.single and (not r.pre or any(c in META for c in r.pre)) for r in recs)


def meta_prefix(recs):
    return any((not r.single) and any(c in META for c in r.pre) for r in recs)


def big_range(recs):
    return any((not r.single) and r.count() > MAX_RANGE_TEXT for r in recs)


def big_group(recs):
    run = 0
    prev = None
    for r in recs:
        if prev is not None and not r.single and not prev.single and r.pre == prev.pre:
            run += 1
        else:
            run = 1
        if run > MAX_RANGES_TEXT:
            return True
        prev = r
    return False


def long_name(recs):
    """a name that hostlist_create copies through cur_tok[1024] (D18, property C01)"""
    for r in recs:
        if r.single and len(r.pre) >= 1023:
            return True
        if not r.single and len(r.pre) + max(r.width, len(str(r.hi))) >= 1023:
            return True
    return False


def exact_fill(recs, n):
    """D14's class: in the expanded text a range record's text ends exactly where the buffer ends:
    a record starts at offset n (its predecessor's comma is the last byte), or a single host's name ends at n"""
    c = 0
    for i, r in enumerate(recs):
        if i >= 1 and c == n:
            return True
        t = r.text_len()
        if r.single and c + t == n:
            return True
        c += t + 1
        if c > n + 1:
            break
    return False


def parseback_signature(kind, recs, what):
    """signature of a text that does not read back as the list it was printed from"""
    k = "ranged" if kind == "r" else "deranged"
    if meta_name(recs):
        return "%s-parseback:meta-name" % k
    if meta_prefix(recs):
        return "%s-parseback:meta-prefix" % k
    if long_name(recs):
        return "%s-parseback:name>=1023" % k
    if kind == "r" and big_range(recs):
        return "ranged-parseback:range>16384"
    if kind == "r" and big_group(recs):
        return "ranged-parseback:group>10240"
    return "%s-parseback:%s" % (k, what)


# ------------------------------------------------------------------ sweep answers
def parse_sweep(line):
    """-> [(ret, k|None, flag, [oob])] for n = 1.. ; None when garbled"""
    out = []
    if line in ("no-reference", "no-list", "bad-arg", "bad-op"):
        return None
    for tok in line.split(" "):
        a = tok.split(":")
        if len(a) < 3:
            return None
        try:
            ret = int(a[0])
            k = None if a[1] == "x" else int(a[1])
            oob = [int(x) for x in a[3].split("+")] if len(a) > 3 and a[3] else []
        except ValueError:
            return None
        out.append((ret, k, a[2], oob))
    return out


def cut_class(text, n):
    """what the last byte of an n-byte buffer would have to hold if the text went on: the character text[n-1]"""
    c = text[n - 1:n]
    if c == b",":
        return "comma"
    if c in (b"[", b"]"):
        return "bracket"
    if c == b"-":
        return "dash"
    if c.isdigit():
        return "digit"
    return "name-char"


def judge_sweep(ctx, kind, recs, reflen, entries, case, counters, text=None):
    """the property text on every (list, n): stores inside [0,n) only; NUL-terminated; fits (L < n) => returns L
    and leaves the text; does not fit => reports truncation and leaves a NUL-terminated prefix"""
    kname = "ranged" if kind == "r" else "deranged"
    for i, (ret, k, flag, oob) in enumerate(entries):
        n = i + 1
        counters["calls"] += 1
        cls = ""
        bad = []
        bd = counters.setdefault("boundary", {})
        prod = "hostlist_%s_string" % kname
        if n - 1 - reflen in (-1, 0, 1):
            key = "%s, text = n-1%+d bytes (%s)" % (prod, reflen - (n - 1), {1: "one byte too many", 0: "fills the buffer exactly",
                                                                              -1: "one byte to spare"}[reflen - (n - 1)])
            bd[key] = bd.get(key, 0) + 1
        if text is not None and reflen >= n:
            key = "%s, cut with a %s on the last byte" % (prod, cut_class(text, n))
            bd[key] = bd.get(key, 0) + 1
        if oob:
            bad.append(("write-at-n" if all(j >= n for j in oob) else "write-below-0",
                        "stores outside the %d bytes given at index(es) %s" % (n, oob[:6])))
        if k is None:
            bad.append(("no-nul", "no terminator inside the %d bytes given" % n))
        if flag != "p":
            bad.append(("not-a-prefix", "the bytes left are not a prefix of the full text: %s" % flag[1:81]))
        if reflen < n:
            counters["fits"] += 1
            if ret != reflen:
                bad.append(("length-misreported", "returns %d for a text of %d bytes that fits" % (ret, reflen)))
            elif k != reflen:
                bad.append(("text-cut", "returns %d but the terminator is at %s" % (ret, k)))
        else:
            counters["truncating"] += 1
            if n in (reflen, reflen + 1):
                counters["exact-boundary"] += 1
            if ret != -1:
                bad.append(("truncation-not-reported", "returns %d where the text (%d bytes + NUL) does not fit %d"
                            % (ret, reflen, n)))
        if bad:
            if kind == "d" and exact_fill(recs, n):
                cls = ":exact-fill"
            for sig, what in bad:
                ctx.offender("%s-%s%s" % (kname, sig, cls), "hostlist_%s_string(n = %d): %s" % (kname, n, what),
                             dict(case, kind=kname, n=n, returned=ret, nul_at=k, text_len=reflen))


# ------------------------------------------------------------------ generators
POOL_PRE = [b"a", b"a", b"b", b"n0", b"x9", b"", b"7", b"foo", b"node-", b"r1c"]
POOL_NUM = [0, 1, 2, 3, 4, 5, 6, 7, 8, 9, 10, 11, 12, 19, 20, 98, 99, 100, 101, 999, 1000]
BIG_NUM = [(1 << 25) - 1, 1 << 25, (1 << 32) - 1, 1 << 32, 10 ** 14 - 1, 10 ** 14, (1 << 63) - 1, 1 << 63, U64 - 3, U64 - 2]
NAMES = [b"a", b"b", b"c", b"login", b"a1", b"a01", b"a10", b"n07", b"12", b"007", b"x-y", b"h_", b"a.b.c", b"aaaaaaa",
         b"A1B2", b"z99999999999999999999", b"q33554433", b"q33554432"]


class Gen:
    def __init__(self, rng, cap):
        self.rng, self.cap = rng, cap
        self.wf = WFGen(rng, max_hosts=40, near_max=False)
        self.dist = {}

    def note(self, k):
        self.dist[k] = self.dist.get(k, 0) + 1

    # -- through hostlist_create
    def create(self):
        from vlib.hostlist import expand1
        for _ in range(50):
            words, s = self.wf.expr()
            if len(s) > 3000:
                continue
            try:
                tot = sum(len(x) + 1 for x in expand1(words))
            except (ValueError, MemoryError):
                continue
            if tot > self.cap:
                continue
            self.note("create")
            return {"origin": "create", "ops": ["create " + hx(s)], "desc": s[:200].decode("latin1")}
        return self.pushes()

    def number(self):
        rng = self.rng
        r = rng.random()
        if r < 0.9:
            return rng.choice(POOL_NUM)
        if r < 0.97:
            return rng.choice(BIG_NUM)
        return rng.randrange(0, 1 << rng.choice([16, 32, 63]))

    def piece(self):
        """a host name or a small expression to push"""
        rng = self.rng
        r = rng.random()
        if r < 0.25:
            return rng.choice(NAMES)
        pre = rng.choice(POOL_PRE)
        lo = self.number()
        w = rng.choice([0, 0, 0, 1, 2, 3, 4]) if rng.random() < 0.95 else rng.choice([14, 15, 16, 20, 25])
        los = str(lo).zfill(w).encode()
        if r < 0.6:
            return pre + los
        hi = min(U64 - 2, lo + rng.choice([0, 1, 1, 2, 3, 5, 9, 12]))
        his = str(hi).zfill(rng.choice([w, len(str(hi))])).encode()
        if r < 0.9:
            return pre + b"[" + los + b"-" + his + b"]"
        lo2 = self.number()
        return pre + b"[" + los + b"-" + his + b"," + str(lo2).zfill(rng.choice([0, w])).encode() + b"]"

    # -- incremental pushes (tail coalescing) and edits (split ranges, sorted/uniq'ed lists)
    def pushes(self):
        rng = self.rng
        ops = ["new"]
        k = rng.choice([1, 2, 2, 3, 3, 4, 5, 6, 8, 12, 20])
        shown = []
        for _ in range(k):
            p = self.piece()
            # runs: the next number of the same prefix now and then (coalescing)
            ops.append("push " + hx(p))
            shown.append(p)
            if rng.random() < 0.25:
                m = re.fullmatch(rb"(.*?)(\d+)", p)
                if m and len(m.group(2)) < 18:
                    nxt = m.group(1) + str(int(m.group(2)) + 1).zfill(len(m.group(2))).encode()
                    ops.append("push " + hx(nxt))
                    shown.append(nxt)
        origin = "push"
        if rng.random() < 0.35:
            origin = "push+edit"
            for _ in range(rng.choice([1, 1, 2, 3])):
                e = rng.random()
                if e < 0.55:
                    ops.append("delete_nth %d" % rng.randrange(0, 6))       # `bad-arg` when out of range: harmless
                elif e < 0.75:
                    ops.append("delete_host " + hx(rng.choice(shown)))
                elif e < 0.9:
                    ops.append("sort")
                else:
                    ops.append("uniq")
        self.note(origin)
        return {"origin": origin, "ops": ops, "desc": ",".join(x.decode("latin1") for x in shown)[:200]}

    # -- raw record sequences (every shape the data structure admits)
    def raw(self):
        rng = self.rng
        recs = []
        k = rng.choice([1, 1, 2, 2, 3, 3, 4, 5, 6, 8, 10, 16])
        prev = None
        for _ in range(k):
            r = rng.random()
            if r < 0.3:
                name = rng.choice(NAMES) if rng.random() < 0.8 else bytes(rng.choice(b"abc019-_.") for _ in range(rng.randrange(1, 12)))
                if rng.random() < 0.03:
                    name = rng.choice([b"foo1-[0-1]", b"a,b", b"a b", b"x]", b""])
                    self.note("raw-meta-name")
                rec = Rec(name, 0, 0, 0, True)
            else:
                pre = prev.pre if prev is not None and not prev.single and rng.random() < 0.55 else rng.choice(POOL_PRE)
                if prev is not None and not prev.single and rng.random() < 0.4:
                    lo = min(U64 - 2, prev.hi + rng.choice([1, 1, 2, 0, 5]))       # adjacent, not coalesced
                else:
                    lo = self.number()
                d = rng.random()
                delta = 0 if d < 0.35 else rng.choice([1, 1, 2, 3, 5, 9, 11]) if d < 0.9 else rng.randrange(12, 120)
                hi = min(U64 - 2, lo + delta)
                w = rng.choice([0, 1, 1, 2, 3, 4]) if rng.random() < 0.95 else rng.choice([14, 15, 16, 20, 25])
                rec = Rec(pre, lo, hi, w, False)
            recs.append(rec)
            prev = rec
        if sum(r.text_len() + 1 for r in recs) > self.cap:
            return self.raw()
        self.note("raw")
        return {"origin": "raw", "ops": ["pmk " + " ".join(r.field() for r in recs)],
                "desc": " ".join(r.field() for r in recs)[:200]}

    # -- texts that end within +-2 of a fixed size (the 1024-byte buffer of -q/-Q, powers of two)
    def boundary(self, size=None, kind=None):
        """names such that the expanded (and, names being ungroupable, also the compressed) text has
        size-1 + d bytes, d in -2..2, optionally followed by more hosts (D14's shape)"""
        rng = self.rng
        size = size or rng.choice([16, 32, 64, 128, 256, 1024, 1024])
        d = rng.choice([-2, -1, 0, 1, 2])
        target = size - 1 + d
        names, total = [], 0
        i = 0
        unit = rng.choice([3, 5, 7, 7])

        def mk(i, ln):
            name = ((b"%c%x" % (97 + i % 26, i)) + b"z" * ln)[:ln]
            return name[:-1] + b"z" if name[-1:].isdigit() else name     # no numeric tail: stays a single host

        while True:
            sep = 1 if names else 0
            left = target - total - sep
            if left <= 0:
                break
            ln = unit if left >= unit + 2 else left
            names.append(mk(i, ln))
            total += sep + ln
            i += 1
        more = rng.choice([0, 0, 1, 2, 5])
        for j in range(more):
            names.append(b"more%dx" % j)
        self.note("boundary")
        s = b",".join(names)
        return {"origin": "boundary", "ops": ["create " + hx(s)], "desc": "%d names, text %d bytes, size %d%+d, %d more" %
                (len(names), total, size, d, more), "expr": s, "size": size}


# exhaustive small scope: every sequence of up to k records over these shapes (singles, one-host and several-host
# ranges, same / different prefixes, padded width, width 0, empty prefix, a name that ends in a digit)
SHAPES = [Rec(b"a", 0, 0, 0, True), Rec(b"bb", 0, 0, 0, True), Rec(b"a", 1, 1, 1, False), Rec(b"a", 1, 2, 1, False),
          Rec(b"a", 9, 10, 1, False), Rec(b"a", 7, 8, 2, False), Rec(b"b", 3, 3, 0, False), Rec(b"", 5, 6, 1, False)]


def small_scope(k):
    import itertools
    for n in range(0, k + 1):
        for t in itertools.product(SHAPES, repeat=n):
            yield {"origin": "small-scope", "ops": ["pmk " + " ".join(r.field() for r in t)] if t else ["new"],
                   "desc": " ".join(r.field() for r in t)}


FIXED = [b"aaaaaaa,b,c", b"aaaaaaa", b"a1,b", b"a[1-3],b", b"a[1-3,07-09],b5", b"a1,a3,a5", b"a[9-11],a[011-012]", b"n0[5-7],n05",
         b"12,13,14", b"[1-3]", b"7", b"a1,a2,a3", b"foo1,foo01,foo001", b"a[1-2],a[1-2]", b"x,y,x", b"a[18446744073709551612-18446744073709551614]"]


# ------------------------------------------------------------------ running
class PrintRunner:
    OPS = ["dump", "ptext r", "ptext d", "psweep r +2", "psweep d +2", "pback r", "pback d", "pranges s", "pranges p", "pranges S", "pranges P",
           "pranges n"]
    NR = len(OPS) - 1         # `pranges n` (final call skipped on a full array) or `pranges N` (always made): probe_nextrange
    EXACT = ["pexact r +2", "pexact d +2"]

    # the literal sizes of list_push_hostlist's first block (Print.lean XLIST_BUF): only the UNREPAIRED retry condition makes
    # them observable (the 4095-byte threshold, probed behaviourally by xlist_check); a changed literal is a note, not an
    # alarm.  opt_list's display buffer is NOT read from the source at all: its capacity is measured on the real binary
    # (PrintCli.display_capacity) and handed to the model - how big a caller's buffer is is the caller's policy.
    LITERALS = [("src/pdsh/opt.c", r"size_t\s+n\s*=\s*4096;"), ("src/pdsh/opt.c", r"hostlist_ranged_string \(hl, n-1, s\)")]

    def __init__(self, ctx):
        self.ctx = ctx
        self.hl = HL(ctx)
        self.exe = self.hl.exe
        self.env = self.hl.env
        self.variant = None
        self.xvariant = "unchanged"      # list_push_hostlist's retry condition; probed by the CLI part (xlist_check)
        self.rmvariant = "unchanged"     # record bookkeeping of hostlist_shift_range / hostlist_pop_range (probe_rangemove)

    def margs(self):
        return ["model", self.variant, self.xvariant, self.rmvariant]

    def probe_rangemove(self):
        """which record bookkeeping do hostlist_shift_range / hostlist_pop_range have (F14-RANGEMOVE)?  behavioural: `f[1-2]`,
        `f[3-4]` side by side and unjoined, one call of each in a forked child under the sanitizers; repaired = one call
        returns the whole group, leaves an empty list and nothing is reported."""
        res = run_batch([self.exe], [["new", "prmprobe"]], env=self.env, timeout=60)
        ans, crash = res[0]
        v = ans[1] if crash is None and len(ans) == 2 else None
        if v not in ("fixed", "unchanged"):
            self.ctx.disagreement("range-move variant probe", "hl_harness gave no usable answer: %s %s" % (ans, (crash or "")[-300:]))
            v = "unchanged"
        self.rmvariant = v
        return v

    def build(self):
        from vlib.common import REPO
        for f, pat in self.LITERALS:
            try:
                src = open(os.path.join(REPO, f), errors="replace").read()
            except OSError as e:
                src = ""
            if not re.search(pat, src):
                self.ctx.notes.append("%s no longer contains /%s/: list_push_hostlist's first block size (Print.lean XLIST_BUF) "
                                      "is judged by behaviour only" % (f, pat))
        # built here (not through HL.build): that one also re-reads the parser's buffer literals, C01/C15's concern
        from vlib.common import HARNESS
        return self.ctx.cc(self.exe, [os.path.join(HARNESS, "hl_harness.c")], san=True, assertions=True)

    def probe_variant(self):
        """which form of hostlist_deranged_string's truncation test does the code under test contain?
        behavioural: `aaaaaaa,b,c` into 8 bytes (unchanged: returns 9, stores at buf[8]; repaired: returns -1)"""
        res = run_batch([self.exe], [["create " + hx(b"aaaaaaa,b,c"), "psweep d 8"]], env=self.env, timeout=60)
        ans, crash = res[0]
        ent = parse_sweep(ans[1]) if crash is None and len(ans) == 2 else None
        if not ent or len(ent) != 8:
            self.ctx.disagreement("variant probe", "hl_harness gave no usable answer: %s %s" % (ans, (crash or "")[-300:]))
            self.variant = "unchanged"
        else:
            ret, k, flag, oob = ent[7]
            self.variant = "fixed" if (ret == -1 and not oob) else "unchanged"
        return self.variant

    def probe_nextrange(self):
        """which form of _iterator_advance_range does the code under test have (F14-NEXTRANGE)?  behavioural: a forked
        child iterates hostlist_next_range over a list whose record array is full; repaired = it survives under ASan.
        On the repaired form every list is iterated to its NULL (`pranges N`)."""
        res = run_batch([self.exe], [["new", "pnrprobe"]], env=self.env, timeout=60)
        ans, crash = res[0]
        self.nrvariant = ans[1] if crash is None and len(ans) == 2 and ans[1] in ("fixed", "unchanged") else None
        if self.nrvariant is None:
            self.ctx.disagreement("next_range variant probe", "hl_harness gave no usable answer: %s %s" % (ans, (crash or "")[-300:]))
            self.nrvariant = "unchanged"
        self.OPS = list(self.OPS)
        self.OPS[self.NR] = "pranges N" if self.nrvariant == "fixed" else "pranges n"
        return self.nrvariant

    def impl(self, cases, exact=()):
        seqs = []
        for i, c in enumerate(cases):
            seqs.append(c["ops"] + self.OPS + (self.EXACT if i in exact else []))
        return run_batch([self.exe], seqs, env=self.env, timeout=1800)

    def model(self, dumps, exact=()):
        lines = []
        for i, d in enumerate(dumps):
            lines.append("list " + d)
            lines += self.OPS[1:]
            if i in exact:
                lines += self.EXACT
        out = self.ctx.model("print", "".join(l + "\n" for l in lines), args=self.margs(), timeout=1800)
        res, pos = [], 0
        for i, d in enumerate(dumps):
            k = 1 + len(self.OPS) - 1 + (len(self.EXACT) if i in exact else 0)
            res.append(out[pos:pos + k])
            pos += k
        return res


# ------------------------------------------------------------------ CLI
ASAN_MAKE = "make -j8 CFLAGS='-g -O1 -fsanitize=address -fno-omit-frame-pointer' LDFLAGS='-fsanitize=address'"


def start_pdsh_builds(ctx):
    """both scratch builds of the working tree - the normal one (same recipe and place as ctx.repo_build) and the
    AddressSanitizer one - started IN PARALLEL and in the BACKGROUND at the beginning of the run; the CLI part waits
    for them (PrintCli), by which time the harness and model work has usually hidden their cost"""
    from vlib.common import REPO
    d1, d2 = os.path.join(ctx.scratch, "repo"), os.path.join(ctx.scratch, "repo-asan")
    one = ("(cp -a %s %s && cd %s && rm -rf .git && (make clean >/dev/null 2>&1; rm -f src/pdsh/testconfig.c; "
           "%s >%s 2>&1))")
    cmd = (one % (REPO, d1, d1, "make -j8", "build.log")) + " & " + \
          (one % (REPO, d2, d2, ASAN_MAKE, "build-asan.log")) + " & wait"
    return subprocess.Popen(cmd, shell=True, stdout=subprocess.DEVNULL, stderr=subprocess.DEVNULL, start_new_session=True)


def stop_pdsh_builds(builds):
    """the CLI part did not run (harness build failed, replay of a non-CLI case): do not leave make running"""
    import signal
    if builds is not None and builds.poll() is None:
        try:
            os.killpg(builds.pid, signal.SIGTERM)
        except OSError:
            pass
        builds.wait()


def numeric_list(want, tail_adjust=True):
    """an expression of numeric ranges (cheap for pdsh at any size: every record shrinks and grows at its ends only) whose
    EXPANDED text has exactly `want` bytes (>= 64): blocks `pa[1-N]`, `pb[1-N]`, .. and a final plain name that pads the
    text to the byte.  Returns (expression, expanded text)."""
    names, parts, total, k = [], [], 0, 0
    while True:
        pre = b"p" + bytes([97 + k % 26]) + (b"%d_" % (k // 26) if k >= 26 else b"")
        block = [pre + b"%d" % i for i in range(1, 16385)]
        size = sum(len(x) + 1 for x in block)
        if total + size + 40 > want:
            # a partial block, then the padding name
            i = 0
            while i < len(block) and total + len(block[i]) + 1 + 40 <= want:
                total += len(block[i]) + 1
                i += 1
            if i:
                names += block[:i]
                parts.append(pre + b"[1-%d]" % i if i > 1 else block[0])
            break
        names += block
        parts.append(pre + b"[1-16384]")
        total += size
        k += 1
    pad = want - total
    last = b"z" * max(pad, 1)
    names.append(last)
    parts.append(last)
    return b",".join(parts), b",".join(names)


class PrintCli:
    def __init__(self, ctx, builds=None):
        self.ctx = ctx
        d1 = os.path.join(ctx.scratch, "repo")
        if builds is not None:
            try:
                builds.wait(timeout=900)
            except subprocess.TimeoutExpired:
                builds.kill()
            if ctx.repo_copy is None and os.path.exists(os.path.join(d1, "src/pdsh/pdsh")):
                ctx.repo_copy = d1            # what ctx.repo_build() would have produced (same recipe, same place)
            elif ctx.repo_copy is None:
                import shutil
                shutil.rmtree(d1, ignore_errors=True)
        self.repo = ctx.repo_build()
        self.pdsh = os.path.join(self.repo, "src/pdsh/pdsh") if self.repo else None
        self.cwd = os.path.join(ctx.scratch, "clicwd14")
        os.makedirs(self.cwd, exist_ok=True)
        self.asan = self.build_asan() if self.repo else None

    def build_asan(self):
        """a second scratch copy of the same working tree, compiled with AddressSanitizer: the two fixed callers in
        opt.c (wcoll_str[1024] on the stack, the heap block of list_push_hostlist) are then watched by the sanitizer
        in the real binary, not only through their observable output"""
        from vlib.common import run
        dst = os.path.join(self.ctx.scratch, "repo-asan")
        exe = os.path.join(dst, "src/pdsh/pdsh")
        if not os.path.exists(exe):           # not pre-built in the background (or that failed): build it now
            import shutil
            shutil.rmtree(dst, ignore_errors=True)
            run(["cp", "-a", self.repo, dst], check=True)
            run("make clean >/dev/null 2>&1; rm -f src/pdsh/testconfig.c; %s >build-asan.log 2>&1" % ASAN_MAKE,
                cwd=dst, timeout=900)
        ok = os.path.exists(exe)
        if ok:
            q = run("nm %s | grep -c __asan_init" % exe)
            ok = q.stdout.strip() not in (b"", b"0")
        if not ok:
            log = os.path.join(dst, "build-asan.log")
            self.ctx.broken.append(("C-BROKEN", "AddressSanitizer build of pdsh",
                                    open(log, errors="replace").read()[-1500:] if os.path.exists(log) else "no build log"))
            return None
        return exe

    def run(self, args, timeout=20, asan=False):
        env = {"PATH": "/usr/bin:/bin", "HOME": self.cwd, "LC_ALL": "C",
               "ASAN_OPTIONS": "detect_leaks=0:symbolize=0:abort_on_error=0:exitcode=99"}
        try:
            p = subprocess.run([self.asan if asan else self.pdsh] + args, stdout=subprocess.PIPE, stderr=subprocess.PIPE, cwd=self.cwd,
                               env=env, timeout=timeout, stdin=subprocess.DEVNULL)
            return p.returncode, p.stdout, p.stderr
        except subprocess.TimeoutExpired as e:
            return "timeout", e.stdout or b"", e.stderr or b""

    def display_capacity(self, limit=1 << 22):
        """the caller policy of opt_list as it can be OBSERVED: the display capacity = size of the last buffer it hands to
        the printing function.  `pdsh -Q` on numeric ranges whose expanded text has 1100, 2200, 4400, .. bytes: the first
        listing that ends in [truncated] after P characters gives capacity P + 1 (the code as found: 1024); None when
        nothing below `limit` bytes is truncated (a caller that grows without bound).  Returns (capacity, problems)."""
        want, problems = 1100, []
        while want <= 2 * limit:
            expr, text = numeric_list(want)
            cls, line = self.targets("-Q", ["-w", expr.decode()], timeout=120)
            if cls != "ok" or line is None:
                problems.append("pdsh -Q on a %d-byte list: %s" % (len(text), cls))
                return 1024, problems
            if line == text:
                want *= 2
                continue
            if line.endswith(b"[truncated]") and text.startswith(line[:-11]) and len(line) - 11 < len(text):
                return len(line) - 11 + 1, problems
            problems.append("pdsh -Q on a %d-byte list prints neither the list nor a marked prefix: `..%s`" %
                            (len(text), line[-60:]))
            return 1024, problems
        return None, problems

    def targets(self, flag, wargs, timeout=20, asan=False):
        """pdsh -q|-Q -w ... -> (class, last line of the listing | None)"""
        rc, out, err = self.run([flag] + wargs, timeout=timeout, asan=asan)
        if rc == "timeout":
            return "timeout", None
        m = re.search(rb"ERROR: AddressSanitizer: (\S+)", err)
        if m:
            return "crash:asan:" + m.group(1).decode("latin1"), None
        if rc != 0:
            if rc < 0 or rc >= 128 or b"stack smashing" in err or b"Sanitizer" in err:
                return "crash:rc%s" % rc, None
            return "rc%d" % rc, None
        lines = out.split(b"\n")
        try:
            i = lines.index(b"-- Target nodes --")
        except ValueError:
            return "garbled", None
        text = b"\n".join(lines[i + 1:])
        if text.endswith(b"\n"):
            text = text[:-1]
        return "ok", text
