"""Engine `sched`: build and drive the controlled scheduler around the unmodified dsh.c
(harness/sched/*), parse its traces, project them for the Lean acceptors, explore schedules.

A *case* is a dict:
  {"fanout": 2, "hosts": [{"name": "h0", "connect": "ok"|"refuse"|"hang", "connect_at": 0,
                            "out": [[at, hex|"EOF"|"ERR"], ...], "err": [...], "rc": 0}, ...],
   "opts": {"labels": 1, "sopt": 0, "S": 0, "k": 0, "batch": 0, "ct": 10, "ut": 0, "pers": "dsh"},
   "yield": "fan"|"all"|"fan,io,...", "inline": 0|1,
   "strategy": "list"|"first"|"uniform"|"pct"|"starveD"|"eagerD", "seed": 1,
   "spurious": [permille, max], "choices": ["D", "W0", "sD", "t", ...], "budget": 20000,
   "signals": [[step, signo], ...], "clock0": 1000000}
A *result* is a dict with the parsed trace (see run_case).
"""
import concurrent.futures
import hashlib
import os
import subprocess
import threading

from vlib.common import HARNESS, REPO

WRAPPED = ("pthread_create pthread_mutex_lock pthread_mutex_unlock pthread_cond_wait pthread_cond_signal "
           "pthread_cond_broadcast pthread_kill pthread_cancel pthread_join pthread_sigmask sigwait raise time sleep poll read "
           "close fcntl fputs fflush exit gethostbyname").split()
REPO_SRCS = ["src/pdsh/cbuf.c", "src/pdsh/rcmd.c", "src/common/err.c", "src/common/list.c", "src/common/hostlist.c",
             "src/common/xstring.c", "src/common/xmalloc.c", "src/common/fd.c", "src/common/xpoll.c"]
NWORKERS = 8


def build(ctx, san=True, name=None, mem=False):
    """Compile the harness against /repo's current working tree.  Returns the executable or None.
    mem=True: the flavour in which every load / store of `threadcount` in dsh.c is an operation (class `mem`):
    dsh_tu.c is compiled with -fsanitize=thread (instrumentation calls only), harness/sched/mem_hooks.c supplies
    the called functions, the ThreadSanitizer runtime is not linked."""
    exe = os.path.join(ctx.scratch, name or ("sched_run_mem" if mem else "sched_run_san" if san else "sched_run"))
    sd = os.path.join(HARNESS, "sched")
    first = os.path.join(sd, "dsh_tu.c")
    if mem:
        san = False
        obj = os.path.join(ctx.scratch, "dsh_tu_mem.o")
        p = subprocess.run(["gcc", "-c", "-g", "-O1", "-w", "-fno-builtin", "-fsanitize=thread", "-DHAVE_CONFIG_H",
                            "-D_GNU_SOURCE", "-I" + REPO, "-I" + REPO + "/src/pdsh", "-I" + REPO + "/src/common",
                            "-I" + REPO + "/src", "-I" + HARNESS, "-I" + sd, first, "-o", obj], stderr=subprocess.PIPE)
        if p.returncode != 0:
            ctx.broken.append(("C-BROKEN", "harness build (mem flavour)", p.stderr.decode("utf-8", "replace")[-1500:]))
            return None
        first = obj
    srcs = [first] + [os.path.join(sd, f) for f in ("sched.c", "rcmd_stub.c", "mem_hooks.c")] + \
           [os.path.join(REPO, f) for f in REPO_SRCS]
    flags = ["-fno-builtin", "-I" + sd] + ["-Wl,--wrap=" + w for w in WRAPPED]
    # shipped flavour: assertions as configured in /repo (NDEBUG) -- dsh.c is run as it is built
    ok = ctx.cc(exe, srcs, flags=flags, san=san, assertions=False)
    return exe if ok else None


def case_text(c):
    L = ["fanout %d" % c["fanout"]]
    for k, v in sorted((c.get("opts") or {}).items()):
        L.append("%s %s" % (k, v))
    L.append("yield %s" % c.get("yield", "fan"))
    L.append("inline %d" % c.get("inline", 0))
    if "clock0" in c:
        L.append("clock0 %d" % c["clock0"])
    L.append("budget %d" % c.get("budget", 20000))
    if "cmd" in c:
        L.append("cmd %s" % c["cmd"].encode().hex())
    for h in c["hosts"]:
        L.append("host %s" % h["name"])
        if h.get("connect", "ok") != "ok" or h.get("connect_at"):
            L.append("connect %s %d" % (h.get("connect", "ok"), h.get("connect_at", 0)))
        if h.get("rc"):
            L.append("rc %d" % h["rc"])
        if h.get("destroyhang"):
            L.append("destroyhang 1")
        if "life" in h:
            L.append("life %d" % h["life"])
        if h.get("ignoreterm"):
            L.append("ignoreterm 1")
        if h.get("termgrace"):
            L.append("termgrace %d" % h["termgrace"])
        for key in ("out", "err"):
            for at, d in h.get(key, []):
                L.append("%s %d %s" % (key, at, d))
    L.append("strategy %s" % c.get("strategy", "first"))
    L.append("seed %d" % c.get("seed", 1))
    sp = c.get("spurious")
    if sp:
        L.append("spurious %d %d" % (sp[0], sp[1]))
    if "tickrate" in c:
        L.append("tickrate %d" % c["tickrate"])
    if "pct" in c:
        L.append("pct %d %d" % (c["pct"][0], c["pct"][1]))
    for st, sg in c.get("signals", []):
        L.append("signal %d %d" % (st, sg))
    ch = c.get("choices") or []
    for i in range(0, len(ch), 400):
        L.append("choices " + " ".join(ch[i:i + 400]))
    return "\n".join(L) + "\n"


def parse_kv(tokens):
    d = {}
    for t in tokens:
        if "=" in t:
            k, v = t.split("=", 1)
            d[k] = v
    return d


def parse_trace(text):
    """-> dict(steps=[(S dict, E token list)], inline=[(after_step_index, tokens)], choices, M, bug, header)"""
    steps, inline, cur = [], [], [None]
    res = {"steps": steps, "inline": inline, "choices": [], "M": None, "bug": None, "header": {}, "garbled": None}
    for line in text.split("\n"):
        if not line:
            continue
        try:
            _parse_line(line, res, steps, inline, cur)
        except (ValueError, IndexError, KeyError):
            res["garbled"] = line[:200]      # a crash cut the output short
    res["last_S"] = cur[0]      # state line of a step that was never taken (deadlock / budget)
    return res


def _parse_line(line, res, steps, inline, cur):
    t = line.split(" ")
    tag = t[0]
    if tag == "S":
        st = parse_kv(t[2:])
        st["k"] = int(t[1])
        for key in ("tc", "R", "P", "X", "h"):
            st[key]                      # a truncated state line is garbled, not a state
        cur[0] = st
    elif tag == "E":
        steps.append((cur[0], t[2:]))
        cur[0] = None
    elif tag == "I":
        inline.append((len(steps), t[1:]))
    elif tag == "C":
        res["choices"] = t[1:] if len(t) > 1 and t[1] else []
    elif tag == "M":
        res["M"] = parse_kv(t[1:])
    elif tag == "K":
        res["sites"] = [x for x in t[1:] if x]
    elif tag == "H":
        res["header"] = parse_kv(t[1:])
    elif tag == "L":
        res["limits"] = parse_kv(t[1:])
    elif tag == "T":
        res.setdefault("finals", {})[t[1]] = parse_kv(t[3:])
    elif tag == "BUG":
        res["bug"] = line[4:]


_tl = threading.local()
_cpu_counter = [0]
_cpu_lock = threading.Lock()


def run_case(exe, case, scratch, timeout=15):
    """Run one case in its own process.  Returns the parsed result; result['crash'] is None or text."""
    if not hasattr(_tl, "path"):
        with _cpu_lock:
            _cpu_counter[0] += 1
            _tl.cpu = _cpu_counter[0] % max(1, (os.cpu_count() or 1))
        _tl.path = os.path.join(scratch, "case-%d-%d.txt" % (os.getpid(), threading.get_ident()))
    with open(_tl.path, "w") as f:
        f.write(case_text(case))
    env = dict(os.environ, ASAN_OPTIONS="detect_leaks=0:abort_on_error=0", SCHED_CPU=str(_tl.cpu))
    try:
        p = subprocess.run([exe, _tl.path], stdout=subprocess.PIPE, stderr=subprocess.PIPE, timeout=timeout, env=env)
        rc, out, err = p.returncode, p.stdout, p.stderr
    except subprocess.TimeoutExpired as e:
        rc, out, err = -999, e.stdout or b"", b"TIMEOUT (harness process did not end)"
    res = parse_trace(out.decode("utf-8", "replace"))
    res["crash"] = None
    if rc != 0 or res["M"] is None:
        res["crash"] = "rc=%s %s" % (rc, err.decode("utf-8", "replace")[-1200:])
    res["case"] = case
    res["exe"] = os.path.basename(exe)
    return res


def run_many(exe, cases, scratch, workers=NWORKERS, timeout=15):
    with concurrent.futures.ThreadPoolExecutor(max_workers=workers) as ex:
        return list(ex.map(lambda c: run_case(exe, c, scratch, timeout), cases))


# ---------------------------------------------------------------------------- projection (fan)
D_EVENTS = {"lock": "lock", "wait": "wait", "relock": "relock", "unlock": "unlock"}
W_EVENTS = ("connectBegin", "connectEnd", "destroyBegin", "destroyEnd")


def fan_event(ev):
    """E tokens (thread, event, args...) -> acceptor event tokens or None when invisible to the Fan model"""
    if len(ev) < 2:
        return None
    ev = list(ev) + ["", ""]          # a crash may have cut the line short
    th, e = ev[0], ev[1]
    if th == "D":
        if e in ("lock", "unlock") and ev[2] == "tc":
            return ["D", e]
        if e == "wait" and ev[2] == "tc":
            return ["D", "wait"]
        if e == "wake" and ev[2] == "tc":
            return ["D", "wake", ev[3]]
        if e == "relock" and ev[2] == "tc":
            return ["D", "relock"]
        if e == "create" and ev[2].startswith("W"):
            return ["D", "create", ev[2][1:]]
        if e == "return":
            return ["D", "return"]
        return None
    if th.startswith("W"):
        if e in W_EVENTS:
            return [th, e]
        if e in ("lock", "unlock") and ev[2] == "tc":
            return [th, e]
        if e in ("signal", "broadcast") and ev[2] == "tc":
            return [th, e]              # which call it was is passed on: the acceptor decides what it stands for
        return None
    if th in ("G", "Z", "-"):
        # watchdog / signals thread / clock: outside the Fan model unless they touch the protocol objects
        if ev[2] == "tc" and e in ("lock", "unlock", "wait", "signal", "relock", "wake"):
            return [th, e]          # unknown to the acceptor -> reject (C20's model covers these)
        return None
    return None


def discipline(res):
    """The signalling discipline the code under test USES, read off what its workers did (wrapped calls on
    threadcount_cond / threadcount_mutex between a worker's lock and its end): set of (call, place) with call in
    {signal, broadcast} and place in {inside, after} the critical section."""
    seen = set()
    holding = {}
    unlocked = set()
    for _, ev in res["steps"]:
        if len(ev) < 3 or not ev[0].startswith("W") or ev[2] != "tc":
            continue
        w, e = ev[0], ev[1]
        if e == "lock":
            holding[w] = True
        elif e == "unlock":
            holding[w] = False
            unlocked.add(w)
        elif e in ("signal", "broadcast"):
            seen.add((e, "inside" if holding.get(w) else "after" if w in unlocked else "outside"))
    return seen


def fan_filter(names):
    if names in (None, "-", ""):
        return "-"
    keep = [n for n in names.split(",") if n == "D" or n.startswith("W")]
    return ",".join(keep) if keep else "-"


def relay_capable(case):
    """runs whose relay events can be replayed through the COMPOSED LTS (Dsh/FanRelay.lean): protocol granularity
    with the workers' reads / closes logged inline, command personality, no timeouts that make a worker give up on
    its streams, no ^C^Z"""
    return (case.get("yield", "fan") == "fan" and case.get("inline") == 1 and not case.get("timed") and
            not case.get("signals_case") and not case.get("signals") and
            (case.get("opts") or {}).get("pers", "dsh") != "pcp")


def relay_lines(tokens):
    """inline operations of a worker on its connection -> lines for the composed acceptor"""
    out = []
    for t in tokens:
        if len(t) < 3 or not t[0].startswith("W"):
            continue
        if t[1] == "read" and len(t) >= 6 and int(t[2]) >= 1000 and int(t[4]) > 0:
            fd = int(t[2])
            out.append("rd W%d %d %s" % ((fd - 1000) // 2, (fd - 1000) % 2, t[5]))
        elif t[1] == "close" and int(t[2]) >= 1000:
            fd = int(t[2])
            out.append("fin W%d %d" % ((fd - 1000) // 2, (fd - 1000) % 2))
        elif t[1] == "connectEnd" and int(t[3]) < 0:
            out.append("cfail %s" % t[0])
    return out


def project_fan(res, variant, relay=False):
    """acceptor input lines for one run; relay=True: in relay mode (the protocol composed with the relay: the
    workers' reads and closes are events too)"""
    m = res["M"] or {}
    f, n = res["header"].get("fanout", m.get("fanout", "0")), res["header"].get("n", m.get("n", "0"))
    lim = res.get("limits") or {}
    opts = res["case"].get("opts") or {}
    if relay:
        L = ["initr %s %s %s %d" % (variant, f, n, 1 if opts.get("sopt") else 0)]
    elif lim:
        # the environment LTS (Dsh/FanX.lean): -k, the descriptor limits dsh() was called with
        L = ["initx %s %s %s %d %s %s" % (variant, f, n, 1 if opts.get("k") else 0, lim["soft0"], lim["hard0"])]
    else:
        L = ["init %s %s %s" % (variant, f, n)]
    if lim:
        # `_increase_nofile_limit` as a function: fanout and soft limit it left behind
        L.append("lim %s %s %s %s %s" % (f, lim["soft0"], lim["hard0"], lim["fanout_used"], lim["soft"]))
    cfl = {}
    for idx, t in ([] if relay else res["inline"]):
        if len(t) >= 3 and t[1] == "createfail":
            cfl.setdefault(idx, []).append("ev D createfail %s" % t[2].lstrip("W"))
    inl = {}
    for idx, t in (res["inline"] if relay else []):
        inl.setdefault(idx, []).append(t)
    for k, (s, ev) in enumerate(res["steps"]):
        L += cfl.get(k, [])
        L += relay_lines(inl.get(k, []))            # what happened inline after step k-1
        fe = fan_event(ev)
        if fe is None:
            continue
        if s is not None:
            L.append("st %s %s %s %s" % (s["tc"], fan_filter(s["R"]), fan_filter(s["P"]), fan_filter(s["X"])))
        L.append("ev " + " ".join(fe))
        if relay and ev[0].startswith("W") and ev[1] == "connectEnd" and int(ev[3]) < 0:
            L.append("cfail %s" % ev[0])
    L += cfl.get(len(res["steps"]), [])
    L += relay_lines(inl.get(len(res["steps"]), []))
    status = m.get("status", "crash")
    if status == "exit":
        L.append("end exit %s" % m.get("code", "?"))
        return L
    if status == "deadlock" and res.get("last_S"):
        s = res["last_S"]
        L.append("st %s %s %s %s" % (s["tc"], fan_filter(s["R"]), fan_filter(s["P"]), fan_filter(s["X"])))
    L.append("end " + status)
    return L


def trace_key(lines):
    return hashlib.sha1("\n".join(l for l in lines if l.startswith("ev ")).encode()).hexdigest()


def accept_all(ctx, batches):
    """batches: list of line lists.  Returns per batch the first non-ok answer (index, line, answer) or None."""
    text = "".join(l + "\n" for b in batches for l in b)
    ans = ctx.model("fan", text)
    out, pos = [], 0
    for b in batches:
        a = ans[pos:pos + len(b)]
        pos += len(b)
        bad = None
        for i, (l, x) in enumerate(zip(b, a)):
            if x != "ok":
                bad = (i, l, x)
                break
        if bad is None and len(a) != len(b):
            bad = (len(a), "", "driver produced too few answers")
        out.append(bad)
    return out


# ---------------------------------------------------------------------------- spec-level monitors
def first_spurious_step(res):
    for s, ev in res["steps"]:
        if len(ev) >= 4 and ev[1] == "wake" and ev[3] == "1":
            return s["k"] if s else 0
    return None


def recount(res):
    """Monitors recomputed from the event lines (cross-check of the harness's own M line)."""
    n = int(res["header"].get("n", 0))
    begins, dends = [0] * n, [0] * n
    infl = peak = 0
    items = [(i, ev) for i, (s, ev) in enumerate(res["steps"])]
    for i, ev in items:
        if ev[1] == "connectBegin":
            begins[int(ev[2])] += 1
            infl += 1
            peak = max(peak, infl)
        elif ev[1] == "destroyEnd":
            if len(ev) > 4 and ev[4].startswith("EINTR"):
                continue                # waitpid interrupted: nothing was torn down
            dends[int(ev[2])] += 1
            infl -= 1
    return {"peak": peak, "connects": begins, "destroys": dends}


def parked_with_room(res):
    """C04, second clause, on observable events only: the dispatcher sits in pthread_cond_wait and has NOT
    been signalled, during the dispatch phase (a target has not been started yet), while fewer than `fanout`
    workers are created-and-not-yet-through-their-epilogue.  A worker is through its epilogue when it has released
    threadcount_mutex AND has nothing more to do: its thread is gone (it is in none of the harness's runnable /
    parked / blocked lists).  A worker that has unlocked but still owes its wake-up call (`lock; threadcount--;
    unlock; signal` -- a legitimate discipline) is therefore still counted: somebody is on the way to wake the
    dispatcher.  Then a slot is free, the worker that freed it is completely done, and nothing is on the way to wake
    the dispatcher: the next target waits for something other than the dispatcher being scheduled.  A dispatcher
    that is parked but signalled, or woken and not yet scheduled, is fine and is not reported.  Returns the step
    number or None."""
    n = int(res["header"].get("n", 0))
    f = int(res["header"].get("fanout", 0))
    created = 0
    unlocked = set()

    def names(s, key):
        v = s.get(key) or "-"
        return set() if v == "-" else set(v.split(","))
    for s, ev in res["steps"] + ([(res.get("last_S"), None)] if res.get("last_S") else []):
        if s is not None and created < n:
            parked = "D" in names(s, "P")
            alive = names(s, "R") | names(s, "P") | names(s, "B") | names(s, "X")
            finished = sum(1 for w in unlocked if w not in alive)
            if parked and created - finished < f:
                return s["k"]
        if ev is None or len(ev) < 3:
            continue
        if ev[0] == "D" and ev[1] == "create" and ev[2].startswith("W"):
            created += 1
        elif ev[0].startswith("W") and ev[1] == "unlock" and ev[2] == "tc":
            unlocked.add(ev[0])
    return None


def delivered_before_return(res):
    """hosts whose scripted stdout never reached an fputs before dsh() returned (needs inline=1 or yield io)"""
    seen = set()
    evs = [ev for _, ev in res["steps"]] + [ev for _, ev in res["inline"]]
    blob = [bytes.fromhex(ev[3]) for ev in evs if len(ev) >= 4 and ev[1] == "fputs" and ev[3] != "-"]
    missing = []
    for hi, h in enumerate(res["case"]["hosts"]):
        if h.get("connect", "ok") != "ok":
            continue
        want = b"".join(bytes.fromhex(d) for _, d in h.get("out", []) if d not in ("EOF", "ERR"))
        for line in want.split(b"\n"):
            if line and not any(line in b for b in blob):
                missing.append(h["name"])
                break
    return missing


def offenders(res):
    """-> list of (property, signature, what): the property texts decided on the observable behaviour"""
    out = []
    if res["crash"] is not None:
        txt = res["crash"]
        k = txt.find("ERROR: ")
        out.append(("*", "crash", "harness process aborted (sanitizer / assertion / signal / timeout): " +
                    (txt[k:k + 160] if k >= 0 else txt[:160]).replace("\n", " ")))
        return out
    if res["bug"]:
        if "not a target" in res["bug"]:
            out.append(("C03", "started-for-non-target", res["bug"]))
        else:
            out.append(("*", "harness-bug", res["bug"]))
        return out
    m = res["M"]
    f, n = int(m["fanout"]), int(m["n"])
    status = m["status"]
    peak = int(m["peak"])
    sp = first_spurious_step(res)
    if peak > f:
        before = sp is not None and sp <= int(m["peak_step"])
        sig = "inflight-exceeds-fanout:" + ("spurious-wakeup" if before else "no-spurious-wakeup")
        out.append(("C04", sig, "%d connections in flight with fanout %d (N=%d, step %s)%s" %
                    (peak, f, n, m["peak_step"], ", after a spurious wake-up of the dispatcher" if before else "")))
    pw = parked_with_room(res)
    if pw is not None:
        out.append(("C04", "parked-with-room", "dispatcher parked in cond_wait with room for another target (step %d)" % pw))
    if int(m.get("wrongaddr", 0) or 0) > 0:
        out.append(("C03", "command-sent-to-another-targets-address",
                    "%s connect(s) were handed an address that is not the target's own (the transport resolves hosts: "
                    "every target is looked up, the resolver has one static result buffer), N=%d f=%d" %
                    (m["wrongaddr"], n, f)))
    if status == "deadlock":
        out.append(("C03", "deadlock", "no runnable thread while dsh() has not returned (lost wake-up), N=%d f=%d" % (n, f)))
    elif status in ("budget", "spin"):
        out.append(("C03", "no-termination", "step budget exceeded / a thread spins with a bounded number of spurious wake-ups"))
    elif status == "exit":
        out.append(("C03", "exit:%s" % m["code"], "pdsh called exit(%s) during the run" % m["code"]))
    elif status != "ok":
        out.append(("*", "harness-bug", "status " + status))
    connects = [int(x) for x in m["connects"].split(",")] if m["connects"] else []
    if status == "ok":
        for i, c in enumerate(connects):
            if c == 0:
                out.append(("C03", "not-started", "target #%d never had its command started" % i))
                break
        if int(m["early"]):
            out.append(("C03", "early-return", "dsh() returned before every started command was torn down"))
        if (res["case"].get("opts") or {}).get("pers") == "pcp":
            pass                        # a copy relays no command output
        elif res["case"].get("inline") or "io" in res["case"].get("yield", "") or "all" in res["case"].get("yield", ""):
            miss = delivered_before_return(res)
            if miss:
                out.append(("C03", "output-not-delivered", "output of %s not written before dsh() returned" % miss[0]))
    for i, c in enumerate(connects):
        if c > 1:
            out.append(("C03", "started-twice", "target #%d had its command started %d times" % (i, c)))
            break
    for _, ev in list(res["steps"]) + [(None, t) for _, t in res["inline"]]:
        if len(ev) > 1 and ev[1] == "fwd" and "stale-efd" in ev:
            out.append(("*", "signal-on-stale-descriptor", "a signal for target #%s was sent over a descriptor number that "
                        "is not (any more) that target's open stderr connection" % ev[2]))
            break
    rc = recount(res)
    if rc["peak"] != peak or rc["connects"] != connects:
        out.append(("*", "harness-bug", "monitor line and event lines disagree: %s vs %s" % (m, rc)))
    return out


# ---------------------------------------------------------------------------- call sites
WRAP_KIND = {"__wrap_pthread_cond_wait": "wait", "__wrap_pthread_cond_signal": "signal",
             "__wrap_pthread_cond_broadcast": "broadcast", "__wrap_pthread_create": "create"}


def static_sites(exe):
    """The call sites of pthread_cond_wait / _signal / _broadcast and pthread_create that EXIST in the code compiled
    from dsh.c (read off the harness executable: disassembly + debug info), as {"kind:hexoffset": "function file:line"}
    with the same offsets the harness prints on its K line.  None if the tools are missing."""
    import re
    try:
        nm = subprocess.run(["nm", exe], stdout=subprocess.PIPE, stderr=subprocess.DEVNULL, timeout=60).stdout.decode()
        base = next(int(l.split()[0], 16) for l in nm.splitlines() if l.endswith(" __executable_start"))
        dis = subprocess.run(["objdump", "-d", "--no-show-raw-insn", exe], stdout=subprocess.PIPE,
                             stderr=subprocess.DEVNULL, timeout=120).stdout.decode("utf-8", "replace").splitlines()
    except (OSError, StopIteration, subprocess.TimeoutExpired):
        return None
    found = []
    for i, l in enumerate(dis):
        m = re.match(r"^\s*([0-9a-f]+):\s+call\w*\s+[0-9a-f]+ <(__wrap_pthread_\w+)>", l)
        if not m or m.group(2) not in WRAP_KIND:
            continue
        nxt = next((re.match(r"^\s*([0-9a-f]+):", x) for x in dis[i + 1:i + 4] if re.match(r"^\s*[0-9a-f]+:", x)), None)
        if nxt:
            found.append((WRAP_KIND[m.group(2)], int(m.group(1), 16), int(nxt.group(1), 16)))
    if not found:
        return {}
    try:
        a2l = subprocess.run(["addr2line", "-f", "-e", exe] + ["%x" % c for _, c, _ in found], stdout=subprocess.PIPE,
                             stderr=subprocess.DEVNULL, timeout=60).stdout.decode().splitlines()
    except (OSError, subprocess.TimeoutExpired):
        return None
    out = {}
    for j, (kind, call, ret) in enumerate(found):
        fn = a2l[2 * j] if 2 * j < len(a2l) else "?"
        where = a2l[2 * j + 1] if 2 * j + 1 < len(a2l) else "?"
        if "dsh.c" not in where:
            continue                  # the harness's own calls, other translation units
        out["%s:%x" % (kind, ret - base)] = "%s %s" % (fn, os.path.basename(where.split(" ")[0]))
    return out


def site_report(ctx, exe, seen, what):
    """seen = set of "kind:offset" tokens collected from the K lines of the runs made with `exe`.  A call site that
    exists in dsh.c and that NO run reached is a hole in the correspondence (a new / moved path nobody exercises):
    reported as a broken tie.  -> table for the evidence"""
    st = static_sites(exe)
    if st is None:
        return {"skipped": "nm / objdump / addr2line not available"}
    missing = sorted(v for k, v in st.items() if k not in seen)
    table = {v: ("reached" if k in seen else "NEVER REACHED") for k, v in sorted(st.items(), key=lambda kv: kv[1])}
    if not st:
        ctx.disagreement("call sites of dsh.c", "no call site of pthread_cond_wait/signal/broadcast/pthread_create found "
                         "in the code compiled from dsh.c (%s)" % what)
    elif missing:
        ctx.disagreement("call sites of dsh.c", "%d of %d call sites of pthread_cond_wait/_signal/_broadcast/pthread_create "
                         "in dsh.c were never reached by any run of %s: %s -- the trace correspondence says nothing "
                         "about the code path they are on" % (len(missing), len(st), what, "; ".join(missing)))
    return table


# ---------------------------------------------------------------------------- variant detection
def detect_variant(exe, scratch):
    """Which construct guards the wait for room in the tree being checked?  Decided by behaviour:
    f=1, N=2, the dispatcher parks with threadcount == fanout and is woken spuriously; an `if` then
    creates the next worker, a `while` waits again."""
    case = {"fanout": 1, "hosts": [{"name": "p0"}, {"name": "p1"}], "yield": "fan", "strategy": "list",
            "choices": ["D", "D", "D", "D", "D", "sD", "D"], "budget": 400}
    res = run_case(exe, case, scratch)
    devs = [ev for _, ev in res["steps"] if ev[0] == "D"]
    for i, ev in enumerate(devs):
        if ev[1] == "relock" and i + 1 < len(devs):
            nxt = devs[i + 1]
            if nxt[1] == "create":
                return "if", res
            if nxt[1] == "wait":
                return "while", res
            break
    return None, res


# ---------------------------------------------------------------------------- exhaustive exploration
def explore(exe, scratch, base_case, max_spurious, on_result, max_runs=400000, batch=64, stop=None):
    """Stateful DFS over all schedules of `base_case` (yield fan): every (state, choice) edge is executed at
    least once, states identified by the harness's signature (per-thread event history + shared state).
    Each run replays a prefix and continues with the first enabled thread.  on_result(res) sees every run."""
    visited = set()
    stack = [[]]
    runs = 0
    edges = 0
    while stack and runs < max_runs and not (stop and stop()):
        todo = [stack.pop() for _ in range(min(batch, len(stack)))]
        cases = [dict(base_case, strategy="list", choices=p, spurious=None) for p in todo]
        results = run_many(exe, cases, scratch)
        runs += len(results)
        for prefix, res in zip(todo, results):
            on_result(res)
            taken = res["choices"]
            nsp = sum(1 for c in prefix if c.startswith("s"))
            for k, (s, ev) in enumerate(res["steps"]):
                if s is None:
                    continue
                if k >= len(taken):
                    break
                if k < len(prefix):
                    continue
                h = s["h"]
                if h in visited:
                    break
                visited.add(h)
                opts = [x for x in s["R"].split(",") if x != "-"]
                if nsp < max_spurious:
                    opts += ["s" + x for x in s["P"].split(",") if x != "-"]
                for c in opts:
                    edges += 1
                    if c != taken[k]:
                        stack.append(taken[:k] + [c])
                if taken[k].startswith("s"):
                    nsp += 1
    return {"states": len(visited), "runs": runs, "edges": edges, "complete": not stack}
