"""Shared body of the C03 and C04 checks (one LTS, one harness, two property oracles)."""
import json
import os
import re

from vlib import sched

TRUSTED = ["Lean 4.33 kernel", "axioms: propext, Classical.choice, Quot.sound at most (audited per theorem)",
           "hand-written LTS Dsh/FanG.lean (Dsh/Fan.lean with the signalling discipline left open) tied to dsh.c by "
           "trace acceptance (same `step` in theorems and acceptor)",
           "harness/sched/* (scheduler, wrappers, stub transport below the real rcmd.c), vlib/sched.py, gcc, ASan/UBSan"]


def assumptions(variant):
    return ["POSIX semantics of pthread_mutex_lock/unlock and pthread_cond_wait/signal/broadcast as modelled (wait "
            "releases and parks; wake-up on signal or spuriously; re-acquire; a signal without waiter is lost; the "
            "dispatcher is the only waiter on threadcount_cond, so signal and broadcast are the same transition -- a "
            "wait by any other thread is rejected by the acceptor)",
            "code between two wrapped calls of one thread is atomic w.r.t. the protocol (it touches only data "
            "protected by the mutex held, or thread-local data)",
            "fanout >= 1 (fanout 0 is C18's concern); every worker's command ends; when pthread_create fails pdsh "
            "exits through errx (FanX.createFail: modelled and under the acceptor; that -k then reaches the running "
            "commands is judged by the monitors only); getrlimit / setrlimit work (root: raising the soft limit to the "
            "hard limit succeeds)",
            "wait-for-room construct of the checked tree, detected by behaviour: %s (C04 inflight_le_fanout is "
            "about `while`; `if` is covered by the witness theorem; the C03 theorems hold for both)" % variant]


def gen_case(rng, nmax, quick_small=True):
    """one random schedule-exploration case within the properties' domain: fanout >= 1, N >= 1"""
    r = rng.random()
    if r < 0.55:
        n = rng.randrange(1, min(nmax, 8) + 1)
    elif r < 0.85:
        n = rng.randrange(2, min(nmax, 5) + 1)
    else:
        n = rng.randrange(1, nmax + 1)
    f = rng.randrange(1, n + 2)
    if rng.random() < 0.3:
        f = rng.choice([1, 2, max(1, n - 1), n])
    hosts = []
    style = rng.random()
    for i in range(n):
        name = ("h%d" % i) if style < 0.5 else ("n%d.d%d.org" % (i, i % 2)) if style < 0.7 else ("%c%d" % ("abc"[i % 3], i))
        h = {"name": name}
        k = rng.random()
        if k < 0.5:
            h["out"] = [[0, ("o%d-%d\n" % (i, j)).encode().hex()] for j in range(rng.randrange(1, 3))]
        elif k < 0.6:
            h["out"] = [[0, ("part%d" % i).encode().hex()], [0, b"-rest\n".hex()]]
        if rng.random() < 0.08:
            h["connect"] = "refuse"
        if rng.random() < 0.1:
            h["rc"] = rng.randrange(1, 4)
        hosts.append(h)
    c = {"fanout": f, "hosts": hosts, "seed": rng.randrange(1, 1 << 30), "budget": 4000 + 600 * n}
    c["yield"] = "fan" if rng.random() < 0.6 else "all"
    c["inline"] = 1 if (c["yield"] == "fan" and n <= 8 and rng.random() < 0.5) else 0
    c["strategy"] = rng.choices(["uniform", "pct", "starveD", "eagerD"], [50, 20, 15, 15])[0]
    if c["strategy"] == "pct":
        c["pct"] = [rng.randrange(2, 5), 30 * n if c["yield"] == "fan" else 80 * n]
    if rng.random() < 0.25:
        c["spurious"] = [rng.choice([30, 100, 250, 500]), rng.randrange(1, 7)]
    c["opts"] = {"labels": rng.choice([0, 1]), "sopt": 1 if rng.random() < 0.2 else 0, "S": 1 if rng.random() < 0.2 else 0}
    if rng.random() < 0.12:
        c["opts"]["pers"] = "pcp"       # pdcp personality: workers are _rcp_thread (same epilogue, own code)
    if rng.random() < 0.3:
        # descriptor NUMBERS: pdsh started with stdin closed (1) / stdin+stdout (3) / all of stdio (7) closed -- the
        # transport hands out the lowest free number first, so connections get 0, 1, 2; rcmd_connect() == 0 is a success
        c["opts"]["lowfds"] = rng.choice([1, 1, 1, 3, 7])
    return c


def corpus_cases():
    """schedules kept because they once mattered"""
    two = [{"name": "h0"}, {"name": "h1"}]
    return [
        # D3: spurious wake-up of the parked dispatcher with threadcount == fanout, both workers then connect
        {"fanout": 1, "hosts": two, "yield": "fan", "strategy": "list", "budget": 400,
         "choices": "D D D D D sD D D W0 W1".split()},
        # a worker finishes completely before the dispatcher next waits
        {"fanout": 1, "hosts": two, "yield": "fan", "strategy": "list", "budget": 400,
         "choices": "D D D W0 W0 W0 W0 W0 W0 W0".split()},
        # two workers finish back to back while the dispatcher is woken but has not re-acquired the mutex
        {"fanout": 2, "hosts": two + [{"name": "h2"}], "yield": "fan", "strategy": "list", "budget": 600,
         "choices": "D D D D D D D D W0 W0 W0 W0 W0 W0 D W0 W1 W1 W1 W1 W1 W1 W1".split()},
    ]


def pinned_cases():
    """Scenarios every run executes whatever the seed (fixed seeds and strategies):
    (a) descriptor numbers 0, 1, 2 handed to connections (pdsh started with stdin / stdin+stdout / all of stdio
        closed), dsh and pdcp personality, with output to relay;
    (b) timed scenarios: every kind of host that holds its slot longer than its streams say (hangs after the
        connect, keeps talking, outlives its streams, ignores / is slow to obey SIGTERM, hangs in connect) FIRST and
        LAST among healthy hosts, N = 3 > fanout = 1 and 2, two timeout settings;
    (c) ^C then ^Z delivered at EVERY step 0..47 of a two- and a three-target run, at the granularities at which a
        freshly created worker has not yet looked at its slot."""
    from vlib import timedcheck as T
    out = []
    for low in (1, 3, 7):
        for pers in ("dsh", "pcp"):
            for f in (1, 2):
                hosts = [{"name": "p%d" % i, "out": [[0, ("l%d\n" % i).encode().hex()]]} if pers == "dsh" else
                         {"name": "p%d" % i} for i in range(3)]
                out.append({"fanout": f, "hosts": hosts, "seed": 9000 + len(out), "budget": 6000,
                            "yield": "fan", "inline": 1, "strategy": ["uniform", "starveD", "eagerD"][len(out) % 3],
                            "opts": {"labels": 1, "sopt": len(out) % 2, "lowfds": low, "pers": pers}})
    for ct, ut in ((2, 1), (1, 2)):
        A = T.alphabet(ct, ut)
        for k in ("hang-after", "chatty", "chatty-odd", "outlives", "stubborn", "lingers", "cmd-far", "cmd-over",
                  "hang-connect", "refuse", "close-out-early"):
            for f in (1, 2):
                for vec in ([k, "ok", "ok2"], ["ok", "ok2", k], [k, k, "ok"]):
                    c = T.mk_case([A[x] for x in vec], f, ct, ut, len(out) % 2 == 0, 9000 + len(out),
                                  strategy=["uniform", "starveD", "eagerD"][len(out) % 3])
                    c["timed"] = True
                    if not T.excluded(c):
                        out.append(c)
    for n, f in ((2, 1), (3, 2)):
        for k in range(0, 48):
            for yl in ("fan,time", "all"):
                out.append({"fanout": f, "hosts": [{"name": "g%d" % i, "out": [[0, ("l%d\n" % i).encode().hex()]]}
                                                   for i in range(n)],
                            "seed": 9000 + len(out), "budget": 9000, "yield": yl, "inline": 0,
                            "strategy": ["uniform", "eagerD", "starveD"][k % 3],
                            "signals": [[k, 2], [k + 1 + k % 3, 20]], "signals_case": True})
    # (d) resource limits x fanout: the descriptor limit of the process must not change what the fanout means
    for nofile in (30, 32, 33, 40, 64):
        for f in (1, 2):
            out.append({"fanout": f, "hosts": [{"name": "r%d" % i, "out": [[0, ("l%d\n" % i).encode().hex()]]}
                                               for i in range(3)],
                        "seed": 9000 + len(out), "budget": 6000, "yield": "fan", "inline": 1,
                        "strategy": ["uniform", "starveD", "eagerD"][len(out) % 3],
                        "opts": {"labels": 1, "sopt": 0, "nofile": nofile}})
    #     soft limit below the hard limit: the prologue raises it iff it does not exceed 2*fanout+32 (protocol
    #     granularity without inline logging: these go through the environment LTS, Dsh/FanX.lean)
    for hard, soft in ((64, 30), (40, 33), (64, 34), (64, 36), (64, 37), (200, 100), (35, 34)):
        for f in (1, 2):
            out.append({"fanout": f, "hosts": [{"name": "r%d" % i, "out": [[0, ("l%d\n" % i).encode().hex()]]}
                                               for i in range(3)],
                        "seed": 9000 + len(out), "budget": 6000, "yield": "fan", "inline": 0,
                        "strategy": ["uniform", "starveD", "eagerD"][len(out) % 3],
                        "opts": {"labels": 1, "sopt": 0, "nofile": hard, "nofile_soft": soft}})
    # (e) pthread_create fails once (EAGAIN) for the worker of target i, while others run or not: pdsh may give up
    #     (exit non-zero, as it does) or try again -- but it must not go on WITHOUT that target, nor hang
    for i in range(3):
        for f in (1, 2, 3):
            out.append({"fanout": f, "hosts": [{"name": "k%d" % j, "out": [[0, ("l%d\n" % j).encode().hex()]]}
                                               for j in range(3)],
                        "seed": 9000 + len(out), "budget": 6000, "yield": "fan", "inline": 0,
                        "strategy": ["uniform", "starveD", "eagerD"][len(out) % 3],
                        "opts": {"labels": 1, "sopt": 0, "createfail": i, "k": (i + f) % 2},
                        "createfail_case": True})
    # (f) a transport that wants resolved addresses (like rsh; `resolve 1`): every target is looked up through the
    #     harness's resolver (one static result buffer, like libc's) and the stub checks the address it is handed;
    #     every mutex operation and the instant after an unlock are scheduling points
    for f in (2, 3):
        for sd in range(60):
            out.append({"fanout": f, "hosts": [{"name": "a%d" % j} for j in range(3)],
                        "seed": 9500 + 31 * sd + f, "budget": 40000, "yield": "all,misc", "inline": 0,
                        "strategy": "uniform",
                        "opts": {"labels": 1, "sopt": 0, "resolve": 1}, "resolve_case": True})
    for c in out:
        c["pinned"] = True
    return out


def replay_case(ctx, prop, exe, variant):
    rp = json.load(open(ctx.replay))
    case = (rp.get("case") or {}).get("case") or rp.get("case")
    if not isinstance(case, dict) or "hosts" not in case:
        # a theorem/correspondence replay: the first recorded disagreement carries its case, if any
        for b in rp.get("broken", []):
            k = str(b[-1]).find(":: case=")
            if k >= 0:
                try:
                    case = json.loads(str(b[-1])[k + 8:])["case"]
                    break
                except ValueError:
                    pass
    if not isinstance(case, dict) or "hosts" not in case:
        ctx.log("replay: the file names no schedule; re-run the tier instead")
        return None
    mem = "mem" in case.get("yield", "")
    if "mem" in case.get("yield", "") and getattr(ctx, "exe_mem", None):
        exe = ctx.exe_mem                   # recorded at memory-access granularity
    res = sched.run_case(exe, case, ctx.scratch)
    if mem:
        res["bug"] = res["bug"] or None
    bad = None if mem else sched.accept_all(ctx, [sched.project_fan(res, variant, relay=sched.relay_capable(case))])[0] \
        if res["crash"] is None and not res["bug"] else None
    if bad is not None:
        ctx.disagreement("Fan LTS (%s variant) vs dsh.c" % variant,
                         "projected trace line %d `%s`: %s" % (bad[0], bad[1], bad[2]), pack(res))
    offs = [o for o in sched.offenders(res) if o[0] in (prop, "*") and
            not (case.get("createfail_case") and o[1].startswith("exit:") and o[1] != "exit:0")]
    ctx.log("replay: monitors %s" % (res["M"],))
    for p, sig, what in offs:
        ctx.log("replay: %s %s" % (sig, what))
        ctx.offender(sig, what, pack(res))
    if not offs:
        ctx.log("replay: the property holds on this schedule")
    return res


def pack(res):
    """a replayable failing input: the case with the schedule made explicit"""
    c = dict(res["case"])
    c["strategy"] = "list"
    c["choices"] = res["choices"]
    c.pop("spurious", None)
    ev = [" ".join(ev) for _, ev in res["steps"] if sched.fan_event(ev) is not None]
    if res.get("crash"):
        c = dict(res["case"])         # the trace of a crashed run is lost; the case itself (seeded) reproduces it
    return {"case": c, "monitors": res["M"], "projected_trace": ev[:400], "crash": res.get("crash"),
            "how": "harness/sched: `sched_run <case file>` (vlib.sched.case_text(case)); "
                   "choices = thread to run at each scheduling point, sD = spurious wake-up of the dispatcher"}


def run(ctx, prop, PROPS, LEVEL):
    ctx.lean_build([PROPS, "pdshmodel"])
    ctx.audit(PROPS)
    exe_san = sched.build(ctx, san=True)
    exe = sched.build(ctx, san=False)
    ctx.exe_mem = sched.build(ctx, mem=True)       # loads / stores of threadcount are operations (monitors only)
    cov = {"evaluations": 0, "distinct_nontrivial": 0, "samples": [],
           "rule": "one evaluation = one complete run of the unmodified dsh() (built from the working tree) under the "
                   "controlled scheduler with one schedule.  (a) exhaustive: state-hashed DFS over ALL schedules "
                   "(every (state, choice) edge executed; state = per-thread event history + shared state) of tiny "
                   "configurations (N, fanout, max spurious wake-ups) listed under distribution.dfs (quick: N<=3; "
                   "thorough: all N<=3 x f<=3 with <=2 spurious wake-ups, and N=4 f=2); (b) random schedules (uniform / "
                   "PCT priorities / starve-the-dispatcher / eager-dispatcher, ~25% with POSIX-legal spurious wake-ups "
                   "of pthread_cond_wait) over N<=8 (quick) or N<=40 (thorough), fanout 1..N+1, granularity `fan` "
                   "(protocol operations only) or `all` (every wrapped libc/pthread call a scheduling point), dsh and "
                   "pdcp personality, refused connects, non-zero exit codes; (c) granularity `fan,mem`: a harness flavour in "
                   "which every load / store of `threadcount` in the unmodified dsh.c is a scheduling point (dsh_tu.c "
                   "compiled with -fsanitize=thread instrumentation calls, served by harness/sched/mem_hooks.c, no TSan "
                   "runtime), exhaustive for tiny configurations and random beyond; these runs are judged by the monitors "
                   "only; (d) timed scenarios from the C07 generator (virtual clock, -t/-u, hosts that hang, keep talking past the "
                   "deadline, outlive their streams, ignore SIGTERM), N > fanout mostly: same monitors, a connection "
                   "counting as in flight until rcmd_destroy() has returned having reaped the command; (e) ^C then ^Z "
                   "injected at random points at a granularity where a fresh worker has not yet looked at its slot: no "
                   "hang, no early return, no excess (monitors only).  C04 also runs the scratch-built pdsh -R exec -u 1 "
                   "with commands that count their live siblings (real part).  Distinct = distinct projected event "
                   "trace; non-trivial = N>=2 and the dispatcher waited at least once"}
    dist = {"strategy": {}, "yield": {}, "with_spurious": 0, "N": {}, "dfs": [], "status": {}, "rejects": 0,
            "signalling_discipline_observed": {}}
    cov["distribution"] = dist
    variant = None
    if exe_san and exe:
        variant, probe = sched.detect_variant(exe, ctx.scratch)
        if variant is None:
            ctx.disagreement("fan variant probe", "the dispatcher neither re-waits (while) nor creates (if) after a "
                             "spurious wake-up: " + " | ".join(" ".join(ev) for _, ev in probe["steps"])[:600])
            variant = "while"
        cov["source_wait_construct"] = variant
        ctx.log("wait-for-room construct of the tree (by behaviour): %s" % variant)
        if ctx.replay:
            replay_case(ctx, prop, exe_san, variant)
            cov["evaluations"] = 1
            cov["rule"] = "replay of one recorded schedule"
        else:
            explore_all(ctx, prop, exe_san, exe, variant, cov, dist)
    return variant, cov


def explore_all(ctx, prop, exe_san, exe, variant, cov, dist):
    rng = ctx.rng
    distinct = set()
    pending = []          # offenders, reported smallest first so that the replay is a small one

    newcount, known_kept, known_total = [0], {}, {}
    sites_seen = set()

    def is_known(sig):
        return any(f["property"] == ctx.prop and f.get("status") == "open" and re.fullmatch(f["signature"], sig)
                   for f in ctx.findings.get("findings", []))

    def consume(results):
        """monitors + acceptor for a list of runs"""
        # runs at memory-access granularity are judged by the monitors only: the LTS attributes the code between
        # two calls to the earlier call, which is exactly what those runs do not do
        batches = [sched.project_fan(r, variant, relay=sched.relay_capable(r["case"]))
                   if r["crash"] is None and not r["bug"] and
                   "mem" not in r["case"].get("yield", "") and not r["case"].get("signals_case") else None
                   for r in results]
        dist["through_composed_acceptor"] = dist.get("through_composed_acceptor", 0) + \
            sum(1 for b in batches if b is not None and b[0].startswith("initr"))
        idx = [i for i, b in enumerate(batches) if b is not None]
        verdicts = sched.accept_all(ctx, [batches[i] for i in idx]) if idx else []
        for i, bad in zip(idx, verdicts):
            r = results[i]
            if bad is not None:
                dist["rejects"] += 1
                if dist["rejects"] <= 3:
                    ctx.disagreement("Fan LTS (%s variant) vs dsh.c" % variant,
                                     "projected trace line %d `%s`: %s" % (bad[0], bad[1], bad[2]), pack(r))
        for r, b in zip(results, batches):
            if r.get("exe") == os.path.basename(exe):
                sites_seen.update(r.get("sites") or [])
            cov["evaluations"] += 1
            m = r["M"] or {}
            st = m.get("status", "crash")
            dist["status"][st] = dist["status"].get(st, 0) + 1
            for call, place in sched.discipline(r):
                k = "%s %s the critical section" % (call, place)
                dist["signalling_discipline_observed"][k] = dist["signalling_discipline_observed"].get(k, 0) + 1
            # connections that were handed descriptor number 0, 1 or 2 (pdsh started with stdio closed)
            dist["connections_on_low_descriptors"] = dist.get("connections_on_low_descriptors", 0) + \
                sum(1 for _, ev in r["steps"] if len(ev) > 1 and ev[1] == "connectEnd" and ev[-1] == "lowfd") + \
                sum(1 for _, t in r["inline"] if len(t) > 1 and t[1] == "connectEnd" and t[-1] == "lowfd")
            if b is not None:
                nwait = sum(1 for l in b if l == "ev D wait")
                if int(m.get("n", 0)) >= 2 and nwait >= 1:
                    distinct.add(sched.trace_key(b))
                if len(cov["samples"]) < 3 and len(b) < 90 and nwait >= 1 and int(m.get("spurious", 0)) >= 1:
                    cov["samples"].append({"fanout": m["fanout"], "n": m["n"], "schedule": " ".join(r["choices"]),
                                           "trace": [l[3:] for l in b if l.startswith("ev ")], "peak": m["peak"]})
            for p, sig, what in sched.offenders(r):
                if r["case"].get("timed") and sig == "output-not-delivered":
                    continue              # a host given up on has, by design, not been relayed completely
                if r["case"].get("signals_case") and sig in ("not-started", "output-not-delivered", "parked-with-room"):
                    continue              # the user cancelled the pending targets
                if r["case"].get("createfail_case") and sig.startswith("exit:") and sig != "exit:0":
                    continue              # thread creation failed: giving up with an error is legitimate
                if p in (prop, "*"):
                    if not is_known(sig):
                        newcount[0] += 1
                    elif known_kept.get(sig, 0) >= 300:
                        known_total[sig] = known_total.get(sig, 0) + 1
                        continue                  # enough examples of a known finding are kept
                    known_kept[sig] = known_kept.get(sig, 0) + 1
                    known_total[sig] = known_total.get(sig, 0) + 1
                    pending.append((len(r["steps"]), sig, what, r))

    def enough():
        """enough offending runs that no open finding explains => stop exploring, report"""
        return newcount[0] >= 30 or dist["rejects"] >= 200

    # 1. corpus and pinned scenarios, then exhaustive exploration of tiny configurations (gives the smallest failing
    #    schedules)
    consume(sched.run_many(exe_san, corpus_cases(), ctx.scratch))
    pinned = pinned_cases()
    dist["pinned"] = len(pinned)
    consume(sched.run_many(exe_san, pinned[::3], ctx.scratch) +
            sched.run_many(exe, [c for j, c in enumerate(pinned) if j % 3], ctx.scratch))
    ctx.log("pinned scenarios (descriptors 0-2, slot-holding hosts first / last in the window, ^C^Z at every step): "
            "%d runs" % len(pinned))
    if ctx.quick():
        configs = [(1, 1, 2), (2, 1, 2), (2, 2, 1), (3, 2, 0)]
    else:
        configs = [(1, 1, 2), (1, 2, 2), (2, 1, 2), (2, 2, 2), (2, 3, 2), (3, 1, 2), (3, 2, 2), (3, 3, 1), (4, 2, 1)]
    configs = [(n, f, msp, "dsh") for n, f, msp in configs] + [(2, 1, 1, "pcp")]
    for n, f, msp, pers in configs:
        if enough():
            break
        base = {"fanout": f, "hosts": [{"name": "x%d" % i} for i in range(n)], "yield": "fan", "inline": 0,
                "budget": 2000, "opts": {"pers": pers}}
        buf = []

        def on(res):
            buf.append(res)
            if len(buf) >= 1500:
                consume(buf[:])
                del buf[:]
        st = sched.explore(exe, ctx.scratch, base, msp, on, max_runs=30000 if ctx.quick() else 600000,
                           stop=enough)
        consume(buf)
        st.update({"N": n, "fanout": f, "max_spurious": msp, "personality": pers})
        dist["dfs"].append(st)
        ctx.log("exhaustive N=%d f=%d spurious<=%d %s: %d states, %d edges, %d runs, complete=%s" %
                (n, f, msp, pers, st["states"], st["edges"], st["runs"], st["complete"]))
        if not st["complete"]:
            ctx.notes.append("DFS N=%d f=%d cut off at %d runs" % (n, f, st["runs"]))

    # 1b. memory-access granularity (`threadcount++` = load, <others>, store): exhaustive for two targets, random beyond
    if ctx.exe_mem and newcount[0] < 30:      # also when the correspondence is already broken: look for a failing input
        for n, f in ([(2, 1)] if ctx.quick() else [(2, 1), (2, 2), (3, 2)]):
            base = {"fanout": f, "hosts": [{"name": "y%d" % i} for i in range(n)], "yield": "fan,mem", "inline": 0,
                    "budget": 4000}
            buf = []
            st = sched.explore(ctx.exe_mem, ctx.scratch, base, 0, buf.append, max_runs=20000 if ctx.quick() else 300000,
                               stop=lambda: newcount[0] >= 30)
            consume(buf)
            st.update({"N": n, "fanout": f, "max_spurious": 0, "personality": "dsh", "granularity": "fan,mem"})
            dist["dfs"].append(st)
            ctx.log("exhaustive N=%d f=%d at memory-access granularity: %d states, %d edges, %d runs, complete=%s" %
                    (n, f, st["states"], st["edges"], st["runs"], st["complete"]))
        memcases = []
        for _ in range(500 if ctx.quick() else 6000):
            c = gen_case(rng, 6)
            c["yield"] = "fan,mem"
            c["inline"] = 0
            c["budget"] = 8000 + 1500 * len(c["hosts"])
            memcases.append(c)
        dist["yield"]["fan,mem"] = len(memcases)
        consume(sched.run_many(ctx.exe_mem, memcases, ctx.scratch))

    # 1c. timed scenarios (virtual clock, -t / -u, hosts that hang, keep talking, outlive their streams, ignore
    #     SIGTERM): the same monitors.  A connection is in flight from connectBegin until rcmd_destroy() has RETURNED
    #     having reaped the command -- not when the worker merely gave up on the host.
    if newcount[0] < 30:
        from vlib import timedcheck as T
        tcases = []
        for _ in range(500 if ctx.quick() else 5000):
            ct, ut = rng.choice([1, 2, 3]), rng.choice([1, 1, 2, 3])
            A = T.alphabet(ct, ut)
            n = rng.randrange(2, 6)
            f = rng.randrange(1, n) if rng.random() < 0.85 else n
            keys = rng.choices(["ok", "ok2", "hang-after", "chatty", "chatty-odd", "chatty-ends", "outlives", "stubborn",
                                "cmd-far", "cmd-over", "hang-connect", "refuse", "close-out-early", "silent", "lingers"],
                               [14, 6, 10, 8, 6, 5, 10, 10, 6, 4, 5, 4, 4, 4, 6], k=n)
            c = T.mk_case([A[k] for k in keys], f, ct, ut, rng.random() < 0.4, rng.randrange(1, 1 << 30),
                          strategy=rng.choice(["uniform", "uniform", "starveD", "eagerD"]))
            c["timed"] = True
            if T.excluded(c):
                continue
            tcases.append(c)
        dist["yield"]["fan (timed scenarios)"] = len(tcases)
        for i in range(0, len(tcases), 1000):
            chunk = tcases[i:i + 1000]
            consume(sched.run_many(exe_san, chunk[::4], ctx.scratch) +
                    sched.run_many(exe, [c for j, c in enumerate(chunk) if j % 4], ctx.scratch))
        ctx.log("timed scenarios (-t/-u, hanging / talking / outliving / SIGTERM-ignoring hosts): %d runs" % len(tcases))

    # 1d. ^C then ^Z (cancel pending targets) delivered at arbitrary points, at a granularity where a freshly created
    #     worker has not yet looked at its slot: every created worker must still go through its epilogue, dsh() must
    #     return.  (Which targets get cancelled is C20's business; here only: no hang, no early return, no excess.)
    if newcount[0] < 30:
        scases = []
        for _ in range(500 if ctx.quick() else 5000):
            n = rng.randrange(2, 6)
            f = rng.randrange(1, n + 1)
            k = rng.randrange(0, 14 + 10 * n)
            c = {"fanout": f, "hosts": [{"name": "g%d" % i, "out": [[0, ("l%d\n" % i).encode().hex()]]} for i in range(n)],
                 "seed": rng.randrange(1, 1 << 30), "budget": 6000 + 1500 * n,
                 "yield": rng.choice(["fan,time", "fan,time", "fan,time,thd", "all"]), "inline": 0,
                 "strategy": rng.choice(["uniform", "uniform", "pct", "starveD", "eagerD"]), "pct": [3, 60 + 30 * n],
                 "signals": [[k, 2], [k + rng.randrange(1, 8), 20]], "signals_case": True}
            scases.append(c)
        dist["yield"]["^C^Z injected"] = len(scases)
        for i in range(0, len(scases), 1000):
            chunk = scases[i:i + 1000]
            consume(sched.run_many(exe_san, chunk[::4], ctx.scratch) +
                    sched.run_many(exe, [c for j, c in enumerate(chunk) if j % 4], ctx.scratch))
        ctx.log("^C^Z injected at random points: %d runs" % len(scases))

    # 2. random schedules
    nrand = 2400 if ctx.quick() else 40000
    nmax = 8 if ctx.quick() else 40
    cases = []
    for _ in range(nrand):
        c = gen_case(rng, nmax)
        cases.append(c)
    CH = 1000
    for i in range(0, len(cases), CH):
        if enough():
            ctx.log("enough offending runs; exploration stopped early")
            break
        chunk = cases[i:i + CH]
        for c in chunk:
            dist["strategy"][c["strategy"]] = dist["strategy"].get(c["strategy"], 0) + 1
            dist["yield"][c["yield"]] = dist["yield"].get(c["yield"], 0) + 1
            dist["N"][str(len(c["hosts"]))] = dist["N"].get(str(len(c["hosts"])), 0) + 1
            dist["with_spurious"] += 1 if c.get("spurious") else 0
        # every fourth case runs under ASan/UBSan, the rest on the plain build (same sources)
        res = sched.run_many(exe_san, chunk[::4], ctx.scratch) + \
            sched.run_many(exe, [c for j, c in enumerate(chunk) if j % 4], ctx.scratch)
        consume(res)
        if (i // CH) % 5 == 4 or i + CH >= len(cases):
            ctx.log("random schedules: %d/%d" % (min(i + CH, len(cases)), len(cases)))

    # every call site of the protocol operations that exists in dsh.c must have been reached by some run
    if newcount[0] == 0 and not ctx.broken:
        cov["call_sites_of_dsh_c"] = sched.site_report(ctx, exe, sites_seen, "this check (plain build)")
    pending.sort(key=lambda t: t[0])
    seen = {}
    for _, sig, what, r in pending:
        seen[sig] = seen.get(sig, 0) + 1
        if seen[sig] <= 50:
            ctx.offender(sig, what, pack(r))
    cov["notes"] = list(ctx.notes)
    cov["distinct_nontrivial"] = len(distinct)
    cov["traces_validated_against_impl"] = cov["evaluations"]
    for k, v in known_total.items():
        seen[k] = max(seen.get(k, 0), v)
    cov["offending_runs"] = {k: v for k, v in seen.items()}
