"""`preload` engine shared by C17 and C09: the real scratch-built pdsh under harness/preload_shim.c
with a pool of generated modules (harness/modtmpl.c).  See DESIGN.md appendix A.2."""
import os
import re
import subprocess
from concurrent.futures import ThreadPoolExecutor

from vlib.common import HARNESS, REPO, run

DSH, PCP = 1, 2


class Desc:
    """descriptor of one pool entry (a file that can appear in a module directory)"""

    def __init__(self, id, kind="mod", type="misc", name=None, prio=100, pers=DSH | PCP, opts=(), init=0,
                 rcmd=False, no_opts=False, has_prio=True, link_to=None, outside=False):
        self.id = id
        self.kind = kind          # mod | text (dlopen fails) | noinfo | notype | noname | dir | ghost | link
        self.link_to = link_to    # kind link: a second NAME (symbolic link in the pool directory) for that pool module
        self.outside = outside    # the object lives in another directory, the pool entry is a symbolic link to it
        self.type = type
        self.name = name
        self.prio = prio
        self.has_prio = has_prio  # False: no pdsh_module_priority symbol (loader default)
        self.pers = pers
        self.opts = list(opts)    # (char, hasarg, pers)
        self.init = init          # 0 | -1 | None (no init function)
        self.rcmd = rcmd
        self.no_opts = no_opts    # opt_table == NULL
        self.file = {"text": id + ".txt", "dir": id + ".d", "ghost": id + ".so"}.get(kind, id + ".so")

    def source(self):
        d = ['#define MOD_ID "%s"' % self.id, "#define MOD_PERS %d" % self.pers]
        if self.kind == "noinfo":
            d.append("#define MOD_NO_INFO 1")
        d.append("#define MOD_NO_TYPE 1" if self.kind == "notype" else '#define MOD_TYPE "%s"' % self.type)
        d.append("#define MOD_NO_NAME 1" if self.kind == "noname" else '#define MOD_NAME "%s"' % self.name)
        if self.has_prio:
            d.append("#define MOD_PRIO (%d)" % self.prio)
        if self.init is None:
            d.append("#define MOD_NO_INIT 1")
        else:
            d.append("#define MOD_INIT_RC (%d)" % self.init)
        if self.rcmd:
            d.append("#define MOD_RCMD 1")
        if self.no_opts:
            d.append("#define MOD_NO_OPTS 1")
        rows = "".join('{ (char) %d, %s, MOD_ID, %d, (optFunc) optf }, ' %
                       (ord(c), '"ARG"' if a else "NULL", p) for c, a, p in self.opts)
        d.append("#define MOD_OPTS " + rows)
        d.append('#include "modtmpl.c"')
        return "\n".join(d) + "\n"

    def effective_prio(self, default_prio=100):
        return self.prio if self.has_prio else default_prio


B = DSH | PCP


def make_pool():
    P = []
    a = P.append
    # ---- misc modules: planned overlaps -------------------------------------------------------
    a(Desc("m01", name="alpha", opts=[("a", 0, B)]))
    a(Desc("m02", name="beta", opts=[("a", 0, B)]))                       # same letter, later name
    a(Desc("m03", name="gamma", opts=[("g", 0, B), ("i", 1, B)]))
    a(Desc("m04", name="delta", opts=[("j", 0, B), ("g", 0, B)]))         # partial overlap with gamma/eps
    a(Desc("m05", name="eps", prio=200, opts=[("j", 1, B)]))              # higher priority first
    a(Desc("m06", name="zeta", prio=50, opts=[("m", 0, B)]))
    a(Desc("m07", name="eta", opts=[("n", 0, B), ("q", 0, B)]))           # 'q' is a built-in option
    a(Desc("m08", name="theta", opts=[("r", 0, B), ("o", 0, B)]))         # 'r' built-in for pdcp only
    a(Desc("m09", name="iota", pers=DSH, opts=[("S", 0, PCP), ("o", 0, DSH)]))   # 'S' row is PCP-only
    a(Desc("m10", name="kappa", pers=PCP, opts=[("o", 0, B)]))
    a(Desc("m11", name="lambda", opts=[]))                                # empty table
    a(Desc("m12", name="mu", no_opts=True))                               # NULL table
    a(Desc("m13", name="nu", opts=[("s", 0, B)], init=-1))                # init fails after registration
    a(Desc("m14", name="xi", opts=[("s", 1, B)]))
    a(Desc("m15", name="omicron", prio=0, opts=[("v", 0, B), ("v", 1, B)]))   # letter twice in one table
    a(Desc("m16", name="pi", prio=-1, opts=[("A", 0, B)]))
    a(Desc("m17", name="rho", has_prio=False, opts=[("B", 1, B)]))        # no priority symbol
    a(Desc("m18", name="alpha", prio=150, opts=[("a", 0, B), ("C", 0, B)]))   # duplicate, higher
    a(Desc("m19", name="alpha", prio=100, opts=[("D", 0, B)]))            # duplicate, EQUAL priority
    a(Desc("m20", name="beta", prio=50, opts=[("E", 0, B)]))              # duplicate, lower
    a(Desc("m21", name="sigma", init=None, opts=[("F", 0, B)]))           # no init function
    a(Desc("m22", name="tau", opts=[("a", 1, B)]))
    a(Desc("m23", name="ups", opts=[("X", 1, DSH), ("Y", 0, PCP)]))
    a(Desc("m24", name="phi", prio=120, pers=PCP, opts=[("G", 0, B)]))    # higher-priority duplicate, pdcp only
    a(Desc("m25", name="phi", prio=90, opts=[("G", 0, B)]))
    a(Desc("m26", name="tie", opts=[("Y", 0, B)]))                        # same (priority,name) as rcmd/tie
    a(Desc("m27", name="chi", prio=100, opts=[("H", 0, B), ("a", 0, PCP)]))   # conflict only for pdcp
    a(Desc("m28", name="psi", prio=300, opts=[("m", 1, B), ("O", 0, B)]))
    a(Desc("m29", name="omega", prio=100, opts=[("O", 0, B)], init=-1))
    a(Desc("m30", name="lambda", prio=100, opts=[("P", 0, B)]))           # duplicate of option-less lambda, equal
    a(Desc("m31", name="beta", prio=170, opts=[("U", 0, B)]))             # third beta, highest
    a(Desc("m32", name="zz", opts=[("n", 0, B)]))                         # wants the 'n' that eta {n, q} must not keep
    a(Desc("m33", name="aaa", prio=100, opts=[("H", 0, B), ("o", 0, B)]))  # first by name; chi/theta/iota/kappa later
    a(Desc("m34", name="outer", opts=[("1", 0, B)], outside=True))   # symlink to an object outside the directory
    a(Desc("s01", kind="link", link_to="m06"))                            # second name for zeta's file
    # second names on the OTHER side of a duplicate's file name (F17-SAMEOBJ-TIE): a19 < m01 < m19, a20 < m02 < m20
    a(Desc("a19", kind="link", link_to="m19"))
    a(Desc("a20", kind="link", link_to="m20"))
    # priorities at the ends of int: _cmp_f subtracts them
    a(Desc("m35", name="pmax", prio=2147483647, opts=[("2", 0, B)]))
    a(Desc("m36", name="pmin", prio=-2147483648, opts=[("2", 0, B), ("a", 0, B)]))
    # ---- rcmd modules (fake transports) ---------------------------------------------------------
    a(Desc("r01", type="rcmd", name="t1", rcmd=True))
    a(Desc("r02", type="rcmd", name="t2", rcmd=True))
    a(Desc("r03", type="rcmd", name="t3", rcmd=True, opts=[("W", 0, B)]))
    a(Desc("r04", type="rcmd", name="ssh", rcmd=True))
    a(Desc("r05", type="rcmd", name="tie", rcmd=True, opts=[("Y", 0, B)]))
    a(Desc("r06", type="rcmd", name="rsh", rcmd=True))
    a(Desc("r07", type="rcmd", name="exec", rcmd=True))
    a(Desc("r08", type="rcmd", name="mrsh", rcmd=True, prio=10))
    a(Desc("r09", type="rcmd", name="t1", rcmd=True, prio=200, opts=[("a", 0, B)]))   # duplicate of t1
    a(Desc("r10", type="rcmd", name="alpha", rcmd=True, opts=[("Z", 0, B)]))   # same name as misc/alpha
    a(Desc("r11", type="rcmd", name="xcpu", rcmd=True, pers=PCP))
    # ---- other types / broken objects -----------------------------------------------------------
    a(Desc("o01", type="jedi", name="yoda", opts=[("J", 0, B)]))
    a(Desc("x01", kind="text"))
    a(Desc("x02", kind="noinfo"))
    a(Desc("x03", kind="notype", name="anon"))
    a(Desc("x04", kind="noname", type="misc"))
    a(Desc("x05", kind="dir"))
    a(Desc("x06", kind="ghost"))
    return P


class Pool:
    def __init__(self, ctx, depth=2):
        """builds shim + pool into ctx.scratch/<a>/<b>/pool ; returns None from build() on failure"""
        self.ctx = ctx
        self.descs = make_pool()
        self.by_id = {d.id: d for d in self.descs}
        self.by_file = {d.file: d for d in self.descs}
        for d in self.descs:
            if d.kind == "link":
                t = self.by_id[d.link_to]
                d.type, d.name, d.prio, d.has_prio, d.pers, d.opts, d.init, d.no_opts = \
                    t.type, t.name, t.prio, t.has_prio, t.pers, list(t.opts), t.init, t.no_opts
        self.root = os.path.join(ctx.scratch, "mp")
        self.dir = os.path.join(self.root, "lvl1", "lvl2", "pool")
        self.outside = os.path.join(self.root, "outside")
        # a symbolic link to the pool directory that lives in a world-writable directory without the sticky bit:
        # the ancestors pdsh walks (dir/.., dir/../..) are those of the link's TARGET
        self.linkdir = os.path.join(self.root, "ww", "poollink")
        self.shim = os.path.join(ctx.scratch, "preload_shim.so")
        self.log = os.path.join(ctx.scratch, "preload.log")

    def build(self):
        ctx = self.ctx
        os.makedirs(self.dir, exist_ok=True)
        for d in (self.root, os.path.join(self.root, "lvl1"), os.path.join(self.root, "lvl1", "lvl2"), self.dir):
            os.chmod(d, 0o755)
        os.chmod(ctx.scratch, 0o755)
        p = run(["gcc", "-shared", "-fPIC", "-O1", "-w", os.path.join(HARNESS, "preload_shim.c"), "-o", self.shim,
                 "-ldl"])
        if p.returncode != 0:
            ctx.broken.append(("C-BROKEN", "harness build preload_shim", p.stderr.decode("utf-8", "replace")[-1500:]))
            return False
        src = os.path.join(self.root, "src")
        os.makedirs(src, exist_ok=True)
        vmap = os.path.join(src, "version.map")
        with open(vmap, "w") as f:
            f.write("{ global: pdsh_module_info; pdsh_module_priority; local: *; };\n")

        os.makedirs(self.outside, exist_ok=True)
        os.chmod(self.outside, 0o755)
        os.makedirs(os.path.dirname(self.linkdir), exist_ok=True)
        os.chmod(os.path.dirname(self.linkdir), 0o777)
        if not os.path.islink(self.linkdir):
            os.symlink(self.dir, self.linkdir)

        def one(d):
            if d.kind == "link":
                lp = os.path.join(self.dir, d.file)
                if not os.path.islink(lp):
                    os.symlink(self.by_id[d.link_to].file, lp)
                return None
            if d.kind == "text":
                with open(os.path.join(self.dir, d.file), "w") as f:
                    f.write("# not a shared object\n")
                return None
            if d.kind == "dir":
                os.makedirs(os.path.join(self.dir, d.file), exist_ok=True)
                return None
            if d.kind == "ghost":
                return None
            c = os.path.join(src, d.id + ".c")
            with open(c, "w") as f:
                f.write(d.source())
            target = os.path.join(self.outside if d.outside else self.dir, d.file)
            q = run(["gcc", "-shared", "-fPIC", "-O0", "-w", "-DHAVE_CONFIG_H", "-D_GNU_SOURCE", "-I" + REPO,
                     "-I" + REPO + "/src/pdsh", "-I" + REPO + "/src/common", "-I" + HARNESS, c, "-o",
                     target, "-Wl,--version-script=" + vmap])
            if q.returncode == 0 and d.outside:
                os.chmod(target, 0o644)
                if not os.path.islink(os.path.join(self.dir, d.file)):
                    os.symlink(os.path.join("..", "..", "..", "outside", d.file), os.path.join(self.dir, d.file))
            return None if q.returncode == 0 else d.id + ": " + q.stderr.decode("utf-8", "replace")[-800:]
        with ThreadPoolExecutor(8) as ex:
            errs = [e for e in ex.map(one, self.descs) if e]
        if errs:
            ctx.broken.append(("C-BROKEN", "harness build module pool", "\n".join(errs)[:2000]))
            return False
        for d in self.descs:
            if d.kind not in ("dir", "ghost", "link") and not d.outside:
                os.chmod(os.path.join(self.dir, d.file), 0o644)
        return True

    def ancestors(self, path=None):
        """realpaths of dir, dir/.., ... up to / (the order _path_permissions_ok stats them)"""
        p = os.path.realpath(path or self.dir)
        out = [p]
        while p != "/":
            p = os.path.dirname(p)
            out.append(p)
        return out


IMPORTS_NEEDED = ("stat", "opendir", "readdir", "closedir", "getuid", "geteuid", "dlopen")


def check_imports(ctx, exe):
    """the shim only works while the binary imports these as ordinary dynamic symbols"""
    p = run(["nm", "-D", exe])
    und = set(re.findall(r"^\s+U (\w+)", p.stdout.decode(), re.M))
    missing = [s for s in IMPORTS_NEEDED if s not in und]
    if missing:
        ctx.broken.append(("C-BROKEN", "preload shim", "binary does not import %s dynamically (nm -D): the shim "
                           "cannot control it" % ",".join(missing)))
        return False
    return True


def run_pdsh(pool, exe, args, uid=1000, euid=None, moddir_env=None, fake_dir=None, dirlist=None, statmap=None,
             extra_env=None, timeout=20, argv0=None):
    """one run of the real binary under the shim; returns dict(rc, out, err, log lines)"""
    try:
        os.unlink(pool.log)
    except OSError:
        pass
    env = {"PATH": "/usr/bin:/bin", "LD_PRELOAD": pool.shim, "VERIF_LOG": pool.log, "VERIF_UID": str(uid),
           "VERIF_EUID": str(uid if euid is None else euid), "HOME": pool.ctx.scratch}
    if moddir_env is not None:
        env["PDSH_MODULE_DIR"] = moddir_env
    if fake_dir is not None and dirlist is not None:
        env["VERIF_MODDIR"] = fake_dir
        env["VERIF_DIRLIST"] = "/".join(dirlist)
    if statmap:
        env["VERIF_STATMAP"] = ";".join("%s=%s" % kv for kv in statmap.items())
    if extra_env:
        env.update(extra_env)
    try:
        p = subprocess.run([argv0 or exe] + list(args), executable=exe, env=env, stdout=subprocess.PIPE,
                           stderr=subprocess.PIPE, stdin=subprocess.DEVNULL, timeout=timeout, cwd=pool.ctx.scratch)
        rc, out, err = p.returncode, p.stdout.decode("utf-8", "replace"), p.stderr.decode("utf-8", "replace")
    except subprocess.TimeoutExpired as e:
        rc, out, err = -999, (e.stdout or b"").decode("utf-8", "replace"), "TIMEOUT"
    log = []
    if os.path.exists(pool.log):
        log = open(pool.log, errors="replace").read().splitlines()
    return {"rc": rc, "out": out, "err": err, "log": log}


def parse_L(out):
    """`pdsh -L` -> list of (type/name, active, [descr ids of listed options]) in list order"""
    mods = []
    cur = None
    for line in out.splitlines():
        if line.startswith("Module: "):
            cur = [line[8:].strip(), None, None]
            mods.append(cur)
        elif line.startswith("Descr:") and cur is not None:
            cur[2] = line.split(":", 1)[1].strip()
        elif line.startswith("Active: ") and cur is not None:
            cur[1] = line[8:].strip() == "yes"
    return [(m[0], m[1], m[2]) for m in mods]


def hx(s):
    b = s.encode("latin-1") if isinstance(s, str) else s
    return b.hex() if b else "-"


def unhx(s):
    if s == "-":
        return ""
    return bytes.fromhex(s).decode("latin-1")
