"""C20 (interrupts): projection of `sched` harness traces for the `sig` acceptor (Dsh/Signals.lean),
spec-level monitors on the observable behaviour of the real dsh.c run, generators and explorers.

Signals are delivered by the schedule: `signals: [[step, signo]]` (absolute step) or a choice token
`i<signo>`.  A blocked standard signal is pending at most once (POSIX); the harness queues instead, so
runs in which a signal is delivered while the same signal is still pending are outside the domain
(counted, not judged): by POSIX they are the runs with one signal less.
"""
import json
import os
import re

from vlib import sched
from vlib.common import REPO

SIGINT, SIGSTOP, SIGTSTP = 2, 19, 20
WINDOW = 1          # "a second interrupt within one second", "^Z right after ^C" (the property text, not dsh.h)
SGN = {SIGINT: "int", SIGTSTP: "tstp"}

TRUSTED = ["Lean 4.33 kernel", "axioms: propext, Classical.choice, Quot.sound at most (audited per theorem)",
           "hand-written LTS Dsh/Signals.lean tied to dsh.c by trace acceptance (same `step` in theorems and acceptor)",
           "harness/sched/* (scheduler, wrappers incl. sigwait/raise/exit, stub transport below the real rcmd.c), "
           "vlib/sched.py, vlib/sigcheck.py, vlib/sigphase.py, harness/sigthread_harness.c + vlib/sigthread.py (gated "
           "transport, settable clock, kill(2)), harness/execsig_harness.c, gcc, ASan/UBSan"]


# ---------------------------------------------------------------------------- trace in order
def ordered(res):
    """[(kind 'E'|'I', S dict or None, tokens)] in the order of the trace (I = performed inline)"""
    out = []
    inl = res["inline"]
    j = 0
    while j < len(inl) and inl[j][0] == 0:
        out.append(("I", None, inl[j][1]))
        j += 1
    for k, (s, ev) in enumerate(res["steps"]):
        out.append(("E", s, ev))
        while j < len(inl) and inl[j][0] == k + 1:
            out.append(("I", None, inl[j][1]))
            j += 1
    return out


def sig_event(ev, sform="pinned"):
    """trace tokens (thread, event, args...) -> acceptor event tokens, or None when invisible to the model.
    Operations the model does not know on the protocol objects map to tokens the acceptor rejects.
    sform = "stopwdog": the tree carries the repair of F07-STALEID (watchdog joinable, thd_mutex around each slot, dsh()
    cancels and joins it before the signals thread): its events belong to the model."""
    if sform == "stopwdog" and len(ev) >= 2:
        if ev[0] == "D" and len(ev) >= 3 and ev[2] == "G" and ev[1] in ("create", "cancel", "join"):
            return ["D", ev[1] + "G"]
        if ev[0] == "G":
            if len(ev) >= 3 and ev[1] in ("lock", "unlock") and ev[2] == "thd":
                return ["G", ev[1] + "T"]
            if ev[1] == "sleep":
                return ["G", "wake"]
            if ev[1] in ("cancelled", "end", "time", "kill"):
                return None             # (kill: checked by `obs gkill`, see project_sig)
    if len(ev) < 2:
        return None
    ev = list(ev) + ["", "", ""]
    th, e, a = ev[0], ev[1], ev[2]
    if e == "exit":
        return [("Z" if th == "Z" else th), "exit", a]
    if e in ("lock", "unlock") and a == "thd":
        return [th, e + "T"]
    if th == "D":
        if e in ("lock", "unlock", "wait", "relock") and a == "tc":
            return ["D", e]
        if e == "wake" and a == "tc":
            return ["D", "wake", ev[3]]
        if e == "create":
            if a.startswith("W"):
                return ["D", "create", a[1:]]
            return ["D", "createS"] if a == "Z" else None
        if e == "cancel" and a == "Z":
            return ["D", "cancelS"]
        if e == "return":
            return ["D", "return"]
        if e == "sigmask":
            # dsh()'s _mask_signals: SIG_BLOCK (0) at its start, SIG_UNBLOCK (1) after the signals thread was stopped;
            # steps of the wrapper Dsh/SignalsMask.lean.  (SIG_SETMASK: a saved mask restored - told apart by order)
            return ["D", "mask" if a == "0" else "unmask" if a == "1" else "setmask"]
        if e in ("fwd", "signal"):
            return ["D", e, a]
        return None
    if th.startswith("W"):
        if e in ("lock", "unlock") and a == "tc":
            return [th, e]
        if e in ("signal", "broadcast") and a == "tc":
            return [th, "signal"]       # the dispatcher is the only waiter on threadcount_cond: the two are the same
        if e == "connectEnd":
            try:
                return [th, "connectEnd", "1" if int(ev[3]) >= 0 else "0"]
            except ValueError:
                return [th, "connectEnd", "?"]
        if e in ("connectBegin", "destroyBegin", "destroyEnd"):
            return [th, e]
        if e == "fwd" and a == th[1:] and ev[3] == "15":
            return None                 # the worker ends its own command after a time-out (SIGTERM): not a protocol step
        if e in ("fwd", "wait", "kill"):
            return [th, e, a]
        return None
    if th == "Z":
        if e == "sigwait":
            return ["Z", "sigwait", SGN.get(int(a) if a.isdigit() else -1, a)]
        if e == "time":
            return ["Z", "time", a]
        if e in ("lock", "unlock") and a == "tc":
            return ["Z", e]
        if e == "fwd":
            return ["Z", "fwd", a]
        if e == "raise":
            return ["Z", "stop"] if a == str(SIGSTOP) else ["Z", "raise", a]
        if e in ("wait", "signal", "broadcast", "kill", "cancel", "create"):
            return ["Z", e, a]
        return None
    if th == "-":
        if e == "deliver":
            return ["E", "deliver", SGN.get(int(a) if a.isdigit() else -1, a)]
        if e == "tick":
            return ["E", "tick", a]
        return None
    # watchdog and anything else: outside the model unless it touches the protocol objects
    if a in ("tc", "thd") or e in ("kill", "fwd", "cancel"):
        return [th, e, a]
    return None


def keep_names(names):
    if names in (None, "-", ""):
        return "-"
    keep = [x for x in names.split(",") if x in ("D", "Z", "G") or x.startswith("W")]
    return ",".join(keep) if keep else "-"


LIST_RE = re.compile(r"^[^:]*: (.+): (command in progress|connecting)$")
CANC_RE = re.compile(r"Canceled (\d+) pending threads")


def ztext(ev):
    """text of an fputs on stderr, or None"""
    if len(ev) >= 4 and ev[1] == "fputs" and ev[2] == "2" and ev[3] != "-":
        try:
            return bytes.fromhex(ev[3]).decode("utf-8", "replace")
        except ValueError:
            return None
    return None


def project_sig(res, variant, wform="blind", sform="pinned"):
    """acceptor input lines for one run; `variant` = wait construct (if|while), `wform` = form of the worker's first
    state write (blind|guarded), both probed by behaviour"""
    m = res["M"] or {}
    case = res["case"]
    opts = case.get("opts") or {}
    names = [h["name"] for h in case["hosts"]]
    L = ["init %s %s %s %d %d %s %s" % (variant, res["header"].get("fanout", m.get("fanout", "0")),
                                        res["header"].get("n", m.get("n", "0")), 1 if int(opts.get("batch", 0)) else 0,
                                        case.get("clock0", 1000000), wform, sform)]
    stage = {}            # worker -> conn (connected) updT (in _update_connect_state) updL (updated) body res
    polled = {}
    zlist, zcanc, fwds = [], None, []
    zopen = [False]       # Z took thd_mutex for the signal it is handling and `obs list` was not sent yet

    zcopen = [False]      # Z took threadcount_mutex in _cancel_pending_threads and `obs canc` was not sent yet

    def flush_list(final=False):
        # what the listing named is compared when the signals thread is done with the signal (before its next sigwait,
        # its end, the end of the run) - not at the unlock: the lines may be printed from a snapshot after the unlock
        if zopen[0]:
            L.append("obs list " + (",".join(map(str, zlist)) or "-"))
            zopen[0] = False
        # the same for "Canceled n pending threads.": printed inside the critical section (dsh.c as pinned) or after
        # threadcount_mutex was released (harmless change C20-H4) - compared when the handler is done.  A run that ends
        # inside the handler may not have printed it yet
        if zcopen[0]:
            if not (final and zcanc is None):
                L.append("obs canc %s" % ("?" if zcanc is None else zcanc))
            zcopen[0] = False
    evs = ordered(res)
    for pos, (kind, s, ev) in enumerate(evs):
        th = ev[0]
        if th == "Z" and len(ev) > 1 and ev[1] == "cancelled":
            # the deferred cancellation takes effect: the signals thread has come back to sigwait
            flush_list()
            L.append("ev Z die")
            continue
        if th.startswith("W") and len(ev) > 1 and ev[1] in ("poll", "read"):
            polled[th] = True
        if th == "Z":
            tx = ztext(ev)
            if tx is not None:
                mm = LIST_RE.match(tx)
                if mm and mm.group(1) in names:
                    zlist.append(names.index(mm.group(1)))
                mm = CANC_RE.search(tx)
                if mm:
                    zcanc = int(mm.group(1))
        if len(ev) > 2 and ev[1] == "fputs" and ev[2] in ("1", "2") and (th == "Z" or (th.startswith("W") and th[1:].isdigit())) \
                and (not L or L[-1] != "obs emit " + th):
            L.append("obs emit " + th)          # who is inside a stdio call where (product model Dsh/SignalsOutput.lean)
        fe = sig_event(ev, sform)
        if fe is None and th.startswith("W") and len(ev) > 1 and ev[1] == "time" and stage.get(th) == "updT":
            fe = [th, "time"]       # the time() call inside _update_connect_state (precedes the state update)
        if th == "G" and len(ev) > 1 and ev[1] == "kill" and sform == "stopwdog":
            L.append("obs gkill")
        if fe is None:
            continue
        if fe == ["D", "setmask"]:
            fe = ["D", "unmask" if any(l in ("ev D mask", "ev D unmask") for l in L) else "mask"]
        if fe[0].startswith("W") and fe[1] == "lockT" and stage.get(fe[0]) == "body":
            # the read loop was given up (time-out, read error): the result written under thd_mutex is DSH_FAILED
            nts = next_ts(evs, pos)
            w = int(fe[0][1:])
            gave_up = bool(nts and nts != "-" and w < len(nts) and nts[w] == "4")
            if opts.get("pers") != "pcp":       # a copy (stub pcp_client) does not poll: the path is not observable
                # (a loop given up at its top, before the first poll, was entered all the same: a canceled host is DONE)
                L.append("obs path %s %s" % (fe[0][1:], "reading" if polled.get(fe[0]) or gave_up else "closing"))
            stage[fe[0]] = "res"
            if gave_up:
                fe = [fe[0], "lockTF"]
        if fe[0] == "Z" and fe[1] == "sigwait":
            flush_list()
        if kind == "E" and s is not None:
            L.append("st %s %s %s %s %s" % (s["tc"], keep_names(s["R"]), keep_names(s["P"]), keep_names(s["X"]),
                                            s.get("ts", "-")))
        L.append("ev " + " ".join(fe))
        if fe == ["D", "cancelS"] and not cancel_deferred(evs, pos):
            # pthread_cancel is deferred.  The signals thread is in sigwait (a cancellation point): it ends at once.
            # Otherwise it is in the middle of a handler and runs on until it comes back to sigwait (`Z cancelled`);
            # the model has both (St.scan, SAct.die) and the whole tail is validated against it
            flush_list()
            L.append("ev Z die")
        if fe[0].startswith("W"):
            st = stage.get(fe[0])
            if fe[1] == "connectEnd" and fe[2] == "1":
                stage[fe[0]] = "conn"
            elif fe[1] == "lockT" and st == "conn":
                stage[fe[0]] = "updT"
            elif fe[1] == "time" and st == "updT":
                stage[fe[0]] = "updL"
            elif fe[1] == "unlockT" and st == "updL":
                stage[fe[0]] = "body"
                polled[fe[0]] = False
        elif fe[0] == "Z":
            if fe[1] == "lockT":
                del zlist[:]
                zopen[0] = True
            elif fe[1] == "lock":
                zcanc = None
                zcopen[0] = True
            elif fe[1] == "fwd":
                fwds.append(fe[2])
    flush_list(final=True)
    L.append("obs fwds " + (",".join(fwds) or "-"))
    status = m.get("status", "crash")
    if status == "deadlock" and res.get("last_S"):
        s = res["last_S"]
        L.append("st %s %s %s %s %s" % (s["tc"], keep_names(s["R"]), keep_names(s["P"]), keep_names(s["X"]),
                                        s.get("ts", "-")))
    if status == "exit":
        L.append("end exit %s" % m.get("code", "?"))
    else:
        L.append("end " + status)
    return L


def next_ts(evs, pos):
    """t[i].state digits of the first state line after evs[pos] (the state the step leads to), or None"""
    for kind, s, ev in evs[pos + 1:]:
        if kind == "E" and s is not None:
            return s.get("ts")
    return None


def cancel_deferred(evs, pos):
    """evs[pos] is `D cancel Z`: is the signals thread still there afterwards (not at a cancellation point)?"""
    for kind, s, ev in evs[pos + 1:]:
        if kind == "E" and s is not None:
            return any("Z" in (s.get(k) or "").split(",") for k in ("R", "X", "B"))
        if kind == "I" and ev[0] == "Z":
            return True
    return False


def late_interrupt_crash(res):
    """Is this crash the signals thread walking t[] after dsh() has freed it?  (pthread_cancel(thread_sig) is deferred;
    a handler that is running when dsh() cancels the thread goes on, and _fwd_signal / _list_slowthreads /
    _cancel_pending_threads dereference the NULL or freed t.)  Plain build: the harness names the faulting thread and
    the trace shows the cancel; sanitizer build: the report names a line of dsh.c inside one of these functions."""
    m = res.get("M") or {}
    if m.get("status") == "segv":
        fault = [ev for _, ev in res["inline"] if len(ev) >= 2 and ev[1] == "fault"]
        cancelled = any(ev[:3] == ["D", "cancel", "Z"] for _, ev in list(res["steps"]) + list(res["inline"]))
        return bool(fault) and fault[-1][0] == "Z" and cancelled
    txt = res.get("crash") or ""
    if "null pointer of type 'struct thd_t'" in txt or "heap-use-after-free" in txt:
        try:
            src = open(os.path.join(REPO, "src", "pdsh", "dsh.c")).read().split("\n")
        except OSError:
            return False
        spans = []
        for fn in ("_fwd_signal", "_list_slowthreads", "_cancel_pending_threads"):
            for i, l in enumerate(src):
                if re.match(r"^%s\s*\(" % fn, l) or re.match(r"^static \w+ %s\s*\(" % fn, l):
                    j = i
                    while j < len(src) and src[j] != "}":
                        j += 1
                    spans.append((i + 1, j + 1))
        for mm in re.finditer(r"dsh\.c:(\d+)", txt):
            if any(a <= int(mm.group(1)) <= b for a, b in spans):
                return True
    return False


def accept_all(ctx, batches):
    """batches: list of line lists.  Returns per batch the first non-ok answer (index, line, answer) or None."""
    text = "".join(l + "\n" for b in batches for l in b)
    ans = ctx.model("sig", text)
    out, pos = [], 0
    for b in batches:
        a = ans[pos:pos + len(b)]
        pos += len(b)
        bad = None
        for i, (l, x) in enumerate(zip(b, a)):
            if x != "ok":
                bad = (i, l, x)
                break
        if bad is None and len(a) != len(b):
            bad = (len(a), "", "driver produced too few answers")
        out.append(bad)
    return out


# ---------------------------------------------------------------------------- worker form detection
LOST_CANCEL_CASE = {"fanout": 1, "hosts": [{"name": "h0", "out": [[0, b"o0-0\n".hex()], [0, "EOF"]]}], "inline": 1,
                    "budget": 1500, "yield": "fan,thd,sig", "strategy": "list",
                    "opts": {"labels": 1, "ct": 0, "ut": 0, "tstates": 1, "batch": 0},
                    "choices": "D D D D D D i2 Z Z Z i20 Z Z Z W0".split()}


def detect_shutdown_form(exe, scratch):
    """Does dsh() stop the watchdog (cancel + join) before it returns (the repair of F07-STALEID, which also makes the
    watchdog take thd_mutex around each slot) or does the watchdog run on (the pinned source)?  Decided by behaviour: is
    the watchdog thread still alive when dsh() returns, and did dsh() join it?"""
    case = dict(LOST_CANCEL_CASE, choices=[], strategy="first")
    res = sched.run_case(exe, case, scratch)
    if res["crash"] is not None or res["M"] is None:
        return None, res
    alive = [x for x in res["M"].get("alive", "").split(",") if x]
    joined = any(ev[:3] == ["D", "join", "G"] for _, ev in res["steps"])
    if "G" in alive and not joined:
        return "pinned", res
    if "G" not in alive and joined:
        return "stopwdog", res
    return None, res


def detect_worker_form(exe, scratch):
    """Is the worker's first state write blind (`a->state = DSH_RCMD`, the pinned source: F20-LOSTCANCEL) or guarded
    (the repair)?  Decided by behaviour on the minimal lost-cancel schedule: N=1, the thread of slot 0 exists but has
    not marked itself when ^C ^Z cancels the slot; a blind worker then connects, a guarded one goes to its epilogue."""
    res = sched.run_case(exe, LOST_CANCEL_CASE, scratch)
    canceled = False
    wevs = []
    for _, ev in res["steps"]:
        if ev[0] == "Z" and len(ev) >= 3 and ev[1] == "unlock" and ev[2] == "tc":
            canceled = True
        elif canceled and ev[0] == "W0":
            wevs.append(ev[1:3])
    if not canceled or len(wevs) < 3 or wevs[0] != ["lock", "thd"] or wevs[1] != ["unlock", "thd"]:
        return None, res
    if wevs[2][0] == "connectBegin":
        return "blind", res
    if wevs[2] == ["lock", "tc"]:
        return "guarded", res
    return None, res


# ---------------------------------------------------------------------------- what happened (observables only)
def analyse(res):
    """Facts about one run read off the event lines: per host the positions of its protocol events and its
    emissions, per handled signal an *episode* (what the signals thread did), per delivery the clock."""
    case = res["case"]
    n = len(case["hosts"])
    names = [h["name"] for h in case["hosts"]]
    keys = ("create", "rcmd_lock", "cbegin", "cend", "upd_lock", "upd_unlock", "res_lock", "dbegin", "dend", "eof")
    H = [dict((k, None) for k in keys) for _ in range(n)]
    for h in H:
        h.update(cend_ok=None, polled=False, out=b"", err=b"", fwd=[], timedout=False)
    clock = case.get("clock0", 1000000)
    episodes, delivers = [], []
    pending = {}
    cur = None
    zexit = None
    other_exit = None
    cancel_s = None        # position of `D cancel Z` and the S line before it
    evs = ordered(res)
    for pos, (kind, s, ev) in enumerate(evs):
        ev = list(ev) + ["", "", ""]
        th, e, a = ev[0], ev[1], ev[2]
        if cur is not None and cur.get("want_ts") and kind == "E" and s is not None:
            cur["ts_after"] = s.get("ts")
            cur["want_ts"] = False
        if th == "-":
            if e == "tick":
                clock = int(a)
            elif e == "deliver":
                sg = int(a)
                delivers.append({"pos": pos, "sig": sg, "clock": clock, "dup": pending.get(sg, 0) > 0})
                pending[sg] = pending.get(sg, 0) + 1
            continue
        if th == "G" and e == "kill" and a.startswith("W") and a[1:].isdigit() and int(a[1:]) < n:
            H[int(a[1:])]["timedout"] = True       # the watchdog interrupts the worker: connect / command time-out
        if th == "D":
            if e == "create" and a.startswith("W"):
                H[int(a[1:])]["create"] = pos
            elif e == "cancel" and a == "Z":
                cancel_s = (pos, s)
            elif e == "exit":
                other_exit = (th, a)
            continue
        if th.startswith("W") and th[1:].isdigit() and int(th[1:]) < n:
            h = H[int(th[1:])]
            if e == "lock" and a == "thd":
                if h["cend"] is None:
                    h["rcmd_lock"] = pos
                elif h["cend_ok"] and h["upd_lock"] is None:
                    h["upd_lock"] = pos
                else:
                    h["res_lock"] = pos
            elif e == "unlock" and a == "thd":
                if h["upd_lock"] is not None and h["upd_unlock"] is None and h["res_lock"] is None:
                    h["upd_unlock"] = pos
            elif e == "connectBegin":
                h["cbegin"] = pos
            elif e == "connectEnd":
                h["cend"] = pos
                h["cend_ok"] = int(ev[3]) >= 0
            elif e == "destroyBegin":
                h["dbegin"] = pos
            elif e == "destroyEnd":
                h["dend"] = pos
            elif e in ("poll", "read"):
                h["polled"] = True
            elif e == "fputs" and ev[3] not in ("", "-"):
                b = bytes.fromhex(ev[3])
                if a == "1":
                    h["out"] += b
                elif a == "2":
                    h["err"] += b
                    if b"timeout" in b:
                        h["timedout"] = True    # noticed by the worker itself at the top of its poll loop
            elif e == "exit":
                other_exit = (th, a)
            continue
        if th == "Z":
            if e == "sigwait":
                sg = int(a)
                pending[sg] = max(0, pending.get(sg, 0) - 1)
                arr = [d for d in delivers if d["sig"] == sg and not d.get("taken")]
                if arr:
                    arr[0]["taken"] = True
                cur = {"sig": sg, "pos": pos, "arrival": arr[0]["clock"] if arr else None, "times": [],
                       "thdwin": None, "tcwin": None, "fwd": [], "listing": [], "canc": None, "exit": None,
                       "stop": False, "zops": 0, "ts_after": None, "want_ts": False, "clock_at": clock}
                episodes.append(cur)
                continue
            if cur is None:
                continue
            cur["zops"] += 1
            if e == "time":
                cur["times"].append(int(a))
            elif e == "lock" and a == "thd":
                cur["thdwin"] = [pos, None]
            elif e == "unlock" and a == "thd" and cur["thdwin"]:
                cur["thdwin"][1] = pos
            elif e == "lock" and a == "tc":
                cur["tcwin"] = [pos, None]
                cur["want_ts"] = True
            elif e == "unlock" and a == "tc" and cur["tcwin"]:
                cur["tcwin"][1] = pos
            elif e == "fwd":
                cur["fwd"].append((int(a), int(ev[3])))
            elif e == "raise":
                cur["stop"] = cur["stop"] or a == str(SIGSTOP)
            elif e == "exit":
                cur["exit"] = int(a)
                cur["exit_pos"] = pos
                zexit = int(a)
            else:
                tx = ztext(ev)
                if tx is not None:
                    mm = LIST_RE.match(tx)
                    if mm:
                        cur["listing"].append(names.index(mm.group(1)) if mm.group(1) in names else mm.group(1))
                    mm = CANC_RE.search(tx)
                    if mm:
                        cur["canc"] = int(mm.group(1))
    return {"H": H, "episodes": episodes, "delivers": delivers, "zexit": zexit, "other_exit": other_exit,
            "cancel_s": cancel_s, "len": len(evs), "clock": clock}


def expected_out(case, i):
    """what host i's command writes on stdout according to its script (hosts whose connect succeeds)"""
    h = case["hosts"][i]
    if h.get("connect", "ok") != "ok" or (case.get("opts") or {}).get("pers") == "pcp":
        return None                     # nothing is relayed for a refused host / by the stub copy protocol
    return b"".join(bytes.fromhex(d) for _, d in h.get("out", []) if d not in ("EOF", "ERR"))


def strip_labels(case, i, emitted):
    """undo `host: ` labelling line by line"""
    if not int((case.get("opts") or {}).get("labels", 1)):
        return emitted
    pre = (case["hosts"][i]["name"] + ": ").encode()
    out = b""
    for line in emitted.split(b"\n"):
        if line.startswith(pre):
            line = line[len(pre):]
        out += line + b"\n"
    return out[:-1]


def offenders(res, base):
    """C20 decided on the observable behaviour of one run.  `base` = analysis + monitors of the signal-free
    run of the same case (None when not available).  -> (list of (signature, what), facts)"""
    out = []
    facts = {"episodes": [], "domain": True}
    if res["crash"] is not None:
        txt = res["crash"]
        if late_interrupt_crash(res):
            return [("late-interrupt-crash:signals-thread-on-freed-t",
                     "an interrupt taken by sigwait just before dsh() finishes: pthread_cancel(thread_sig) is deferred, the "
                     "handler runs on after dsh() has freed t[] and dereferences it (SIGSEGV / sanitizer report)")], facts
        k = txt.find("ERROR: ")
        return [("crash", "harness process aborted (sanitizer / assertion / signal / timeout): " +
                 (txt[k:k + 160] if k >= 0 else txt[:160]).replace("\n", " "))], facts
    if res["bug"]:
        return [("harness-bug", res["bug"])], facts
    m = res["M"]
    case = res["case"]
    n = int(m["n"])
    batch = int((case.get("opts") or {}).get("batch", 0))
    status = m["status"]
    A = analyse(res)
    H, eps = A["H"], A["episodes"]
    facts["A"] = A
    if any(d["dup"] for d in A["delivers"]):
        facts["domain"] = False       # the same signal delivered while pending: POSIX coalesces, the harness queues
        return out, facts
    # ---- never a deadlock, pdsh ends
    if status == "deadlock":
        out.append(("deadlock", "no runnable thread while dsh() has neither returned nor exited (N=%d f=%s)" % (n, m["fanout"])))
    elif status == "self-deadlock":
        who = [ev for _, ev in res["inline"] if len(ev) >= 3 and ev[1] == "self-lock"]
        out.append(("deadlock", "thread %s locks %s_mutex, which it already holds (a non-recursive mutex: it hangs for good) "
                    "(N=%d f=%s)" % (who[-1][0] if who else "?", {"tc": "threadcount", "thd": "thd"}.get(who[-1][2], who[-1][2])
                                     if who else "?", n, m["fanout"])))
    elif status in ("budget", "spin"):
        out.append(("no-termination", "step budget exceeded / a thread spins"))
    elif status not in ("ok", "exit"):
        out.append(("harness-bug", "status " + status))
    if A["other_exit"]:
        out.append(("exit-by-%s" % A["other_exit"][0][0], "%s called exit(%s)" % A["other_exit"]))
    zbound = 12 + 4 * n
    last_report = None         # the most recent INT episode that only reported
    cancels = []               # cancel episodes
    aborted = False
    for k, ep in enumerate(eps):
        last = k == len(eps) - 1
        did_exit = ep["exit"] is not None
        # the handler ran to its end without exiting: Z came back to sigwait, or sits blocked when dsh() cancels it
        completed = (not last) or (status == "ok" and A["cancel_s"] is not None and A["cancel_s"][1] is not None and
                                   "Z" in (A["cancel_s"][1].get("X") or "").split(",") and A["cancel_s"][0] > ep["pos"])
        kind = None            # what the property demands: abort | report | cancel | stop | either
        if ep["sig"] == SIGINT:
            if batch:
                kind = "abort"
            elif last_report is None:
                kind = "report" if ep["clock_at"] > 2 else "either"
            else:
                a1, l1 = last_report
                d2 = ep["times"][0] if ep["times"] else ep["clock_at"]
                a2 = ep["arrival"] if ep["arrival"] is not None else ep["clock_at"]
                # the first arrived at a1 and was recorded at l1 >= a1; the second arrived at a2 and is decided at
                # d2 >= a2.  Decided within one second of the first's ARRIVAL: it arrived within one second, and any
                # recorded time is at least as late, so both the text and every faithful implementation abort; arrived
                # two or more seconds after the first was RECORDED: not within one second by any reading; in between,
                # the latency of the handlers decides
                kind = "abort" if d2 - a1 <= WINDOW else "report" if a2 - l1 >= WINDOW + 1 else "either"
        elif ep["sig"] == SIGTSTP:
            if last_report is None:
                kind = "stop"
            else:
                a1, l1 = last_report
                d2 = ep["times"][0] if ep["times"] else ep["clock_at"]
                a2 = ep["arrival"] if ep["arrival"] is not None else ep["clock_at"]
                kind = "cancel" if d2 - a1 <= WINDOW else "stop" if a2 - l1 >= WINDOW + 1 else "either"
        did_fwd = bool(ep["fwd"])
        did_cancel = ep["tcwin"] is not None
        facts["episodes"].append({"sig": ep["sig"], "kind": kind, "exit": ep["exit"], "fwd": len(ep["fwd"]),
                                  "listing": len(ep["listing"]), "cancel": did_cancel, "completed": completed})
        tag = "batch" if batch else ("int%d" % (1 + sum(1 for e in eps[:k] if e["sig"] == SIGINT))
                                     if ep["sig"] == SIGINT else "tstp")
        # ---- abort: forward to every running command, exit non-zero, promptly
        if did_exit or did_fwd:
            aborted = True
            if kind in ("report", "stop", "cancel"):
                out.append(("abort-on-harmless:%s" % tag, "%s that must not abort: signal forwarded to %s, exit(%s)" %
                            (SGN.get(ep["sig"]), [f[0] for f in ep["fwd"]], ep["exit"])))
            win = ep["thdwin"]
            if not (win and win[1] is not None) and did_exit:
                win = [ep["pos"], ep["exit_pos"]]      # exit without a (complete) forwarding pass
            if win and win[1] is not None:
                must, may = set(), set()
                for i, h in enumerate(H):
                    if h["cend_ok"] and h["cend"] < win[1] and (h["res_lock"] is None or h["res_lock"] > win[0]):
                        may.add(i)
                    if h["upd_unlock"] is not None and h["upd_unlock"] < win[0] and \
                            (h["res_lock"] is None or h["res_lock"] > win[1]):
                        canceled_before = any(c["tcwin"][0] < h["upd_unlock"] for c in cancels)
                        if not canceled_before:
                            must.add(i)
                got = set(f[0] for f in ep["fwd"])
                if not must <= got:
                    out.append(("not-forwarded:%s" % tag, "abort: no signal forwarded to running host(s) %s (forwarded to %s)" %
                                (sorted(must - got), sorted(got))))
                if not got <= may:
                    out.append(("forwarded-to-idle:%s" % tag, "abort: signal forwarded to host(s) %s that run no command" %
                                sorted(got - may)))
                if any(f[1] != SIGINT for f in ep["fwd"]):
                    out.append(("wrong-signal:%s" % tag, "forwarded signal numbers %s" % sorted(set(f[1] for f in ep["fwd"]))))
                if len(ep["fwd"]) != len(got):
                    out.append(("forwarded-twice:%s" % tag, "a host was signalled twice: %s" % [f[0] for f in ep["fwd"]]))
            if did_exit and ep["exit"] == 0:
                out.append(("exit-zero-on-abort:%s" % tag, "abort ended with exit(0)"))
            if did_exit and ep["zops"] > zbound:
                out.append(("abort-not-prompt:%s" % tag, "%d operations of the signals thread between sigwait and exit" % ep["zops"]))
            if not did_exit and (completed or ep["zops"] > zbound):
                out.append(("no-exit-after-forward:%s" % tag, "signal forwarded but pdsh did not exit"))
        elif kind == "abort" and completed:
            out.append(("no-abort:%s" % tag, "%s must abort (forward + exit non-zero) but the signals thread went back to waiting" %
                        ("batch-mode interrupt" if batch else "second interrupt within one second")))
        # ---- report only
        if ep["sig"] == SIGINT and not did_exit and not did_fwd and ep["thdwin"] and ep["thdwin"][1] is not None:
            win = ep["thdwin"]
            must, may = set(), set()
            first_cancel = min([c["tcwin"][0] for c in cancels] or [None], key=lambda x: x if x is not None else 1 << 60)
            for i, h in enumerate(H):
                if h["create"] is not None and h["create"] < win[1] and (h["dbegin"] is None or h["dbegin"] > win[0]):
                    may.add(i)
                if h["cbegin"] is not None and h["cbegin"] < win[0] and (h["res_lock"] is None or h["res_lock"] > win[1]):
                    if first_cancel is None or (h["upd_unlock"] is not None and h["upd_unlock"] < first_cancel):
                        must.add(i)
            got = set(x for x in ep["listing"] if isinstance(x, int))
            if any(not isinstance(x, int) for x in ep["listing"]):
                out.append(("listing-unknown-host", "the listing names %s" % [x for x in ep["listing"] if not isinstance(x, int)]))
            if not must <= got:
                out.append(("listing-misses", "interrupt listing omits host(s) %s still connecting/running (listed %s)" %
                            (sorted(must - got), sorted(got))))
            if not got <= may:
                out.append(("listing-extra", "interrupt listing names host(s) %s neither connecting nor running" % sorted(got - may)))
            if len(ep["listing"]) != len(got):
                out.append(("listing-twice", "a host is listed twice: %s" % ep["listing"]))
            l1 = max(ep["times"]) if ep["times"] else ep["clock_at"]
            a1 = ep["arrival"] if ep["arrival"] is not None else ep["clock_at"]
            last_report = (a1, l1)
        # ---- ^Z
        if ep["sig"] == SIGTSTP:
            if did_cancel and kind == "stop":
                out.append(("cancel-without-interrupt", "^Z not preceded by ^C within INTR_TIME canceled pending hosts"))
            if kind == "cancel" and completed and not did_cancel:
                out.append(("no-cancel", "^Z right after ^C did not cancel the pending hosts"))
            if did_cancel and ep["tcwin"][1] is not None:
                cancels.append(ep)
                c = ep["tcwin"][0]
                ts = ep["ts_after"]
                for i, h in enumerate(H):
                    was_reading = h["upd_unlock"] is not None and h["upd_unlock"] < c and not \
                        any(cc["tcwin"][0] < h["upd_unlock"] for cc in cancels[:-1])
                    marked = ts is not None and ts != "-" and i < len(ts) and ts[i] == "5"
                    if marked and (was_reading or (h["res_lock"] is not None and h["res_lock"] < c)):
                        out.append(("cancel-hit-running", "host %d was running or finished when ^Z canceled it" % i))
                    if marked and h["cbegin"] is not None and h["cbegin"] < c and h["polled"] and \
                            h["upd_unlock"] is not None and h["upd_unlock"] > c:
                        out.append(("canceled-host-ran", "host %d was canceled while connecting (state CANCELED, counted in the "
                                    "message) and its command output was relayed all the same" % i))
                    # a host that had marked itself RCMD before the cancel is "still connecting" by pdsh's books even
                    # if rcmd_connect itself begins a moment later (it then drops the connection): not judged
                    if marked and h["cbegin"] is not None and h["cbegin"] > c and \
                            not (h["rcmd_lock"] is not None and h["rcmd_lock"] < c):
                        sig = "canceled-host-connected:%s" % ("created-before-cancel" if h["create"] is not None and h["create"] < c
                                                             else "created-after-cancel")
                        out.append((sig, "host %d was canceled (state CANCELED, counted in the message) at step %d and is "
                                         "connected afterwards (thread created at %s)" % (i, c, h["create"])))
                if ep["canc"] is not None:
                    unbegun = [i for i, h in enumerate(H) if h["rcmd_lock"] is None or h["rcmd_lock"] > c]
                    inconn = [i for i, h in enumerate(H) if h["rcmd_lock"] is not None and h["rcmd_lock"] < c and
                              (h["upd_unlock"] is None or h["upd_unlock"] > c) and (h["res_lock"] is None or h["res_lock"] > c)]
                    begun_after = [i for i in unbegun if H[i]["cbegin"] is not None]
                    if status == "ok" and len(begun_after) > len(unbegun) + len(inconn) - ep["canc"]:
                        q = "created-before-cancel" if all(H[i]["create"] is not None and H[i]["create"] < c
                                                           for i in begun_after) else "created-after-cancel"
                        out.append(("canceled-count-exceeds-withheld:" + q,
                                    "pdsh reported %d canceled hosts, at most %d were pending, yet %d of them were connected "
                                    "afterwards" % (ep["canc"], len(unbegun) + len(inconn), len(begun_after))))
    facts["aborted"] = aborted
    facts["cancels"] = len(cancels)
    # ---- exit status
    if status == "exit" and A["zexit"] is None and not A["other_exit"]:
        out.append(("exit-unexplained", "exit(%s) without the signals thread calling it" % m["code"]))
    # ---- hosts that complete have complete, uncorrupted output; hosts not canceled complete
    marked_any = set()
    for c in cancels:
        ts = c["ts_after"]
        if ts and ts != "-":
            marked_any |= set(i for i in range(min(n, len(ts))) if ts[i] == "5")
    for i, h in enumerate(H):
        want = expected_out(case, i)
        got = strip_labels(case, i, h["out"])
        ran = h["polled"] and h["upd_lock"] is not None
        if status == "ok":
            if i not in marked_any or ran:
                if h["cbegin"] is None and i not in marked_any and not aborted:
                    out.append(("not-started", "host %d was not canceled and never had its command started" % i))
                elif h["cbegin"] is not None and h["dend"] is None:
                    out.append(("not-torn-down", "dsh() returned before host %d was torn down" % i))
                elif want is not None and ran and got != want and not (h["timedout"] and want.startswith(got)):
                    # (a host pdsh gave up on after a time-out did not complete: what it printed before is relayed)
                    out.append(("output-corrupted", "host %d completed with output %r instead of %r" % (i, got[:80], want[:80])))
                elif want is not None and h["cbegin"] is not None and not ran and i not in marked_any and not h["timedout"]:
                    out.append(("output-missing", "host %d was not canceled but its output was not relayed" % i))
            elif got:
                out.append(("canceled-host-output", "host %d was canceled while connecting but relayed %r" % (i, got[:60])))
        elif want is not None and not want.startswith(got):
            out.append(("output-corrupted", "host %d relayed %r, not a prefix of %r" % (i, got[:80], want[:80])))
    # ---- harmless runs equal the signal-free run
    if base is not None and status == "ok" and not aborted and not cancels:
        bm, bA = base
        if bm.get("status") == "ok" and m["code"] != bm["code"]:
            out.append(("rc-differs", "dsh() returned %s, the signal-free run %s" % (m["code"], bm["code"])))
        for i, h in enumerate(H):
            if bm.get("status") == "ok" and (h["out"] != bA["H"][i]["out"] or h["err"] != bA["H"][i]["err"]):
                out.append(("output-differs", "host %d: emissions differ from the signal-free run" % i))
                break
    seen, uniq = set(), []
    for o in out:
        if o[0] not in seen:
            seen.add(o[0])
            uniq.append(o)
    return uniq, facts


# ---------------------------------------------------------------------------- cases
def gen_hosts(rng, n):
    hosts = []
    for i in range(n):
        h = {"name": "h%d" % i}
        k = rng.random()
        t0 = rng.choice([0, 0, 1, 2])
        if k < 0.75:
            nl = rng.randrange(1, 3)
            h["out"] = [[t0 + (j if rng.random() < 0.5 else 0), ("o%d-%d\n" % (i, j)).encode().hex()] for j in range(nl)]
            h["out"].append([max(x[0] for x in h["out"]) + rng.choice([0, 0, 1]), "EOF"])
        elif k < 0.9:
            h["out"] = [[t0, ("part%d" % i).encode().hex()], [t0 + 1, b"-rest\n".hex()], [t0 + 1, "EOF"]]
        else:
            h["out"] = [[t0, "EOF"]]
        r = rng.random()
        if r < 0.1:
            h["connect"] = "refuse"
            h["connect_at"] = rng.choice([0, 1])
        elif r < 0.45:
            h["connect_at"] = rng.choice([1, 1, 2, 3])
        if rng.random() < 0.15:
            h["rc"] = rng.randrange(1, 4)
        hosts.append(h)
    return hosts


def gen_case(rng, nmax):
    r = rng.random()
    n = rng.randrange(1, 4) if r < 0.45 else rng.randrange(2, min(nmax, 6) + 1) if r < 0.85 else rng.randrange(1, nmax + 1)
    f = rng.randrange(1, n + 2)
    if rng.random() < 0.35:
        f = rng.choice([1, 2, max(1, n - 1)])
    c = {"fanout": f, "hosts": gen_hosts(rng, n), "seed": rng.randrange(1, 1 << 30), "budget": 6000 + 900 * n,
         "inline": 1}
    c["yield"] = rng.choices(["fan,thd,sig,time", "all", "fan,thd,sig", "fan"], [50, 25, 15, 10])[0]
    c["strategy"] = rng.choices(["uniform", "pct", "starveD", "eagerD"], [55, 20, 10, 15])[0]
    if c["strategy"] == "pct":
        c["pct"] = [rng.randrange(2, 5), 60 * n]
    if rng.random() < 0.12:
        c["spurious"] = [rng.choice([30, 100, 250]), rng.randrange(1, 4)]
    c["tickrate"] = rng.choice([0, 20, 100, 100, 300])
    c["opts"] = {"labels": 1 if rng.random() < 0.8 else 0, "sopt": 1 if rng.random() < 0.15 else 0,
                 "S": 1 if rng.random() < 0.3 else 0, "batch": 1 if rng.random() < 0.35 else 0, "ct": 0, "ut": 0,
                 "tstates": 1}
    if rng.random() < 0.08:
        c["opts"]["pers"] = "pcp"       # pdcp personality: workers are _rcp_thread (same protocol, own code)
    return c


PLANS = {"int": [SIGINT], "int-int": [SIGINT, SIGINT], "int-tstp": [SIGINT, SIGTSTP], "tstp": [SIGTSTP],
         "int-tstp-int": [SIGINT, SIGTSTP, SIGINT], "int-int-far": [SIGINT, SIGINT]}


def plan_signals(rng, plan, length):
    """absolute delivery steps for a plan over a run of `length` steps"""
    sigs = PLANS[plan]
    p = rng.randrange(0, length + 2)
    out = [[p, sigs[0]]]
    for s in sigs[1:]:
        if plan == "int-int-far":
            p = p + rng.randrange(8, 60)
        elif rng.random() < 0.7:
            p = p + rng.randrange(1, 14)
        else:
            p = rng.randrange(p + 1, max(p + 2, length + 6))
        out.append([p, s])
    return out


def pack(res, facts=None):
    """a replayable failing input: the case with the schedule made explicit"""
    c = dict(res["case"])
    if not res.get("crash"):
        c["strategy"] = "list"
        c["choices"] = res["choices"]
        c.pop("spurious", None)
        c.pop("signals", None)          # deliveries are `i<signo>` tokens of the schedule
    ev = [" ".join(ev) for kind, s, ev in ordered(res) if sig_event(ev) is not None]
    return {"case": c, "monitors": res["M"], "projected_trace": ev[:500], "crash": res.get("crash"),
            "episodes": (facts or {}).get("episodes"),
            "how": "harness/sched: `sched_run <case file>` (vlib.sched.case_text(case)); choices = thread to run at each "
                   "scheduling point, i2 = deliver SIGINT, i20 = deliver SIGTSTP, t = clock tick, sD = spurious wake-up"}


# ---------------------------------------------------------------------------- exhaustive exploration with signals
def explore_sig(exe, scratch, base_case, plan, on_result, max_runs=200000, batch=64, stop=None, ticks=True):
    """State-hashed DFS over all schedules of `base_case` AND all delivery points of the signals of `plan`
    (a list of signal numbers delivered in this order; a signal is not delivered while the same signal is
    pending) and clock ticks where time can help.  Every (state, choice) edge is executed at least once;
    state = harness signature (per-thread event history + shared state + clock) x number of signals delivered."""
    visited = set()
    stack = [[]]
    runs = edges = 0
    while stack and runs < max_runs and not (stop and stop()):
        todo = [stack.pop() for _ in range(min(batch, len(stack)))]
        cases = [dict(base_case, strategy="list", choices=p, spurious=None, signals=[]) for p in todo]
        results = sched.run_many(exe, cases, scratch)
        runs += len(results)
        for prefix, res in zip(todo, results):
            on_result(res)
            taken = res["choices"]
            nd = 0
            pend = {}
            for k, (s, ev) in enumerate(res["steps"]):
                if s is None or k >= len(taken):
                    break
                if k >= len(prefix):
                    key = (s["h"], nd)
                    if key in visited:
                        break
                    visited.add(key)
                    opts = [x for x in s["R"].split(",") if x != "-"]
                    if ticks and s.get("T") == "1":
                        opts.append("t")
                    if nd < len(plan) and not pend.get(plan[nd]):
                        opts.append("i%d" % plan[nd])
                    for c in opts:
                        edges += 1
                        if c != taken[k]:
                            stack.append(taken[:k] + [c])
                if taken[k].startswith("i"):
                    nd += 1
                    sg = int(taken[k][1:])
                    pend[sg] = pend.get(sg, 0) + 1
                elif len(ev) >= 3 and ev[0] == "Z" and ev[1] == "sigwait":
                    sg = int(ev[2])
                    pend[sg] = max(0, pend.get(sg, 0) - 1)
    return {"states": len(visited), "runs": runs, "edges": edges, "complete": not stack}
