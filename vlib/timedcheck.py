"""C07: faulty / slow hosts, timeouts, watchdog -- cases, projection for the `timed` acceptor, spec monitors.

Runs use the `sched` engine with `reltime 1` (a host's script is relative to the moment it is contacted),
`tickrate 0` (MAXIMAL PROGRESS: the virtual clock advances only when no thread is runnable) and, for the
model correspondence, yield mask `fan` (scheduling points = protocol operations + every call that blocks).

A host *behaviour* is a dict {"conn": ["ok"|"refuse"|"hang", d], "out": [[t, nbytes|"EOF"|"ERR"], ...], "err": [...],
"rc": n}; t = -1 means never.  Data items are whole text lines so that output can be compared per host.
"""
import json
import re

from vlib import sched

WDOG_POLL = 2
CLOCK0 = 1000000


# ---------------------------------------------------------------------------- cases
# The property asks for a report on stderr under the failing host's own name; it does not fix the WORDING.  A report =
# a line with pdsh's own prefix that names the host.  Which of a worker's reports is the command-timeout one is
# decided by when it comes (after a successful connect) and loosely by its text: timeout / timed out / time-out.
TIMEOUT_RE = re.compile(rb"(?i)time(d[ -]?|[ -])?out")


def names_host(data, name):
    return re.match(rb"^pdsh@[^:]*: " + re.escape(name.encode()) + rb": ", data) is not None


def line_bytes(i, stream, j, n):
    """the j-th data item of host i on a stream: exactly n bytes, one text line"""
    body = ("%s%d.%d" % (stream, i, j)).ljust(n - 1, "+")[:n - 1]
    return (body + "\n").encode()


def mk_host(i, beh):
    h = {"name": "t%d" % i, "connect": beh["conn"][0], "connect_at": beh["conn"][1] if len(beh["conn"]) > 1 else 0}
    for key in ("out", "err"):
        items, j = [], 0
        for t, what in beh.get(key, []):
            if what in ("EOF", "ERR"):
                items.append([t, what])
            else:
                items.append([t, line_bytes(i, key[0], j, what).hex()])
                j += 1
        h[key] = items
    if beh.get("rc"):
        h["rc"] = beh["rc"]
    if "life" in beh:
        h["life"] = beh["life"]          # the remote command exits this many seconds after the connect (-1: never)
    if beh.get("ignoreterm"):
        h["ignoreterm"] = 1              # ... and a forwarded SIGTERM does not end it
    if beh.get("termgrace"):
        h["termgrace"] = beh["termgrace"]  # ... or ends it only that many seconds later
    return h


def mk_case(behs, fanout, ct, ut, sopt, seed, strategy="uniform", yld="fan", spurious=None):
    c = {"fanout": fanout, "hosts": [mk_host(i, b) for i, b in enumerate(behs)], "behaviours": behs,
         "yield": yld, "inline": 1, "strategy": strategy, "seed": seed, "tickrate": 0,
         "budget": 6000 + 800 * len(behs),
         "opts": {"ct": ct, "ut": ut, "sopt": 1 if sopt else 0, "labels": 1, "reltime": 1, "connerr": 1}}
    if spurious:
        c["spurious"] = spurious
    return c


def alphabet(ct, ut):
    """the behaviour alphabet of the property, with the timing boundaries of this timeout setting"""
    A = {
        "ok": {"conn": ["ok", 0], "out": [[0, 6], [0, "EOF"]], "err": [[0, "EOF"]]},
        "ok2": {"conn": ["ok", 1], "out": [[0, 5], [1, 7], [1, "EOF"]], "err": [[0, 4], [1, "EOF"]]},
        "silent": {"conn": ["ok", 0], "out": [[0, "EOF"]], "err": [[0, "EOF"]]},
        "refuse": {"conn": ["refuse", 0]},
        "refuse-late": {"conn": ["refuse", 1]},
        "hang-connect": {"conn": ["hang"]},
        "hang-after": {"conn": ["ok", 0], "out": [[0, 8], [-1, "EOF"]], "err": [[-1, "EOF"]]},
        "hang-silent": {"conn": ["ok", 0], "out": [[-1, "EOF"]], "err": [[-1, "EOF"]]},
        "exit3": {"conn": ["ok", 0], "out": [[0, 3], [0, "EOF"]], "err": [[0, "EOF"]], "rc": 3},
        "killed": {"conn": ["ok", 0], "out": [[0, 70], [0, "EOF"]], "err": [[0, "EOF"]], "rc": 137},
        "close-out-early": {"conn": ["ok", 0], "out": [[0, "EOF"]], "err": [[0, 5], [2, 5], [2, "EOF"]]},
        "close-err-early": {"conn": ["ok", 0], "out": [[0, 5], [2, 5], [2, "EOF"]], "err": [[0, "EOF"]]},
        "read-error": {"conn": ["ok", 0], "out": [[0, 5], [1, "ERR"]], "err": [[1, "EOF"]]},
        # closes stderr at once, then hangs on stdout: with -s its stderr descriptor is gone long before the signal
        "close-err-hang": {"conn": ["ok", 0], "out": [[0, 5], [-1, "EOF"]], "err": [[0, "EOF"]]},
        # keeps talking, every second, for ever (the command ends only when it is told to): past a command timeout
        # the worker is mostly NOT in xpoll when the deadline passes
        "chatty": {"conn": ["ok", 0], "out": [[k, 3] for k in range(0, 9)] + [[-1, "EOF"]], "err": [[-1, "EOF"]], "life": -1},
        "chatty-odd": {"conn": ["ok", 1], "out": [[k, 3] for k in range(0, 9)] + [[-1, "EOF"]], "err": [[0, "EOF"]],
                       "life": -1},
        # talks every second for a while, then ends by itself
        "chatty-ends": {"conn": ["ok", 0], "out": [[k, 3] for k in range(0, 5)] + [[4, "EOF"]], "err": [[4, "EOF"]]},
        # closes its streams at once but keeps running for 5 s (rcmd_destroy has to wait for it)
        "outlives": {"conn": ["ok", 0], "out": [[0, 4], [0, "EOF"]], "err": [[0, "EOF"]], "life": 5},
        # hangs mid-command and ignores the SIGTERM it gets on command timeout; gone after 6 s
        "stubborn": {"conn": ["ok", 0], "out": [[0, 8], [-1, "EOF"]], "err": [[-1, "EOF"]], "life": 6, "ignoreterm": 1},
        # hangs mid-command, would run for ever, and takes 3 s to die after the SIGTERM it gets on command timeout
        "lingers": {"conn": ["ok", 0], "out": [[0, 8], [-1, "EOF"]], "err": [[-1, "EOF"]], "life": -1, "termgrace": 3},
        # hangs mid-command, never exits and ignores SIGTERM (`trap "" TERM; sleep infinity`)
        "immortal": {"conn": ["ok", 0], "out": [[0, 8], [-1, "EOF"]], "err": [[-1, "EOF"]], "life": -1, "ignoreterm": 1},
        # closes its streams at once and then runs for ever (`exec >&- 2>&-; sleep infinity`): no SIGTERM is ever sent
        "outlives-forever": {"conn": ["ok", 0], "out": [[0, 4], [0, "EOF"]], "err": [[0, "EOF"]], "life": -1},
    }
    # boundaries of the two deadlines: exactly at / just after the timeout, and beyond timeout + WDOG_POLL
    for k, d in (("conn-at", ct), ("conn-over", ct + 1), ("conn-far", ct + WDOG_POLL + 1)):
        if ct > 0:
            A[k] = {"conn": ["ok", d], "out": [[0, 4], [0, "EOF"]], "err": [[0, "EOF"]]}
    for k, e in (("cmd-at", ut), ("cmd-over", ut + 1), ("cmd-far", ut + WDOG_POLL + 1)):
        if ut > 0:
            A[k] = {"conn": ["ok", 0], "out": [[0, 4], [e, 4], [e, "EOF"]], "err": [[0, "EOF"]]}
    return A


CORE = ["ok", "ok2", "refuse", "hang-connect", "hang-after", "exit3", "killed", "close-out-early", "close-err-early"]


def excluded(case):
    """the property's own exclusions: the run cannot end because a host hangs and the timeout that would
    abandon it is switched off"""
    ct, ut = case["opts"]["ct"], case["opts"]["ut"]
    for b in case["behaviours"]:
        if b["conn"][0] == "hang" and ct == 0:
            return True
        if b["conn"][0] == "ok" and ut == 0:
            streams = ["out", "err"] if case["opts"]["sopt"] else ["out"]
            if any(t < 0 for s in streams for t, _ in b.get(s, [])):
                return True
        if b["conn"][0] == "ok" and b.get("life", 0) < 0 and ut == 0:
            return True                # never exits and no command timeout: pdsh waits, as documented
    return False


def teardown_waiters(res):
    """targets whose worker sits in rcmd_destroy() when the run ends: (index, never exits by itself, was sent SIGTERM)"""
    n = len(res["case"]["hosts"])
    inside, termed = set(), set()
    for _, _, th, ev in events(res):
        if ev[0] == "fwd" and 0 <= int(ev[1]) < n and int(ev[2]) in (2, 15):
            termed.add(int(ev[1]))
        if not th.startswith("W") or int(th[1:]) >= n:
            continue
        if ev[0] == "destroyBegin":
            inside.add(int(th[1:]))
        elif ev[0] == "destroyEnd":
            inside.discard(int(th[1:]))
    return [(i, res["case"]["behaviours"][i].get("life", 0) < 0, i in termed) for i in sorted(inside)]


# ---------------------------------------------------------------------------- events
def events(res):
    """all operations in order (steps and inline ones): (index of the step they belong to, clock before the
    step, thread, tokens)"""
    out, ii, inl = [], 0, res["inline"]
    now = 0
    for k, (s, ev) in enumerate(res["steps"]):
        while ii < len(inl) and inl[ii][0] <= k:
            t = inl[ii][1]
            out.append((k - 1, now, t[0], t[1:]))
            ii += 1
        if ev[0] == "-" and ev[1] == "tick":
            now = int(ev[2]) - res["clock0"]
            continue
        out.append((k, now, ev[0], ev[1:]))
    while ii < len(inl):
        t = inl[ii][1]
        out.append((len(res["steps"]) - 1, now, t[0], t[1:]))
        ii += 1
    return out


def observe(res):
    """per host: what the run did to it, from the events alone"""
    n = len(res["case"]["hosts"])
    H = [{"start": None, "cbeg": None, "cend": None, "connret": None, "hits": [], "lost": [], "stale": [], "got": [0, 0], "closed": [False, False],
          "stdout": b"", "stderr": b"", "reports": [], "timeout_at": None, "done_at": None, "connects": 0}
         for _ in range(n)]
    for k, now, th, ev in events(res):
        if th == "D" and ev[0] == "create" and ev[1].startswith("W"):
            H[int(ev[1][1:])]["start"] = now
        elif th == "G" and ev[0] == "kill" and ev[1].startswith("W"):
            H[int(ev[1][1:])]["hits" if ev[3] == "1" else "lost"].append(now)
            if ev[3] == "1" and len(ev) > 4 and ev[4] == "reused-id":
                H[int(ev[1][1:])]["stale"].append(now)
        elif th.startswith("W"):
            i = int(th[1:])
            if i >= n:
                continue
            h = H[i]
            if ev[0] == "connectBegin":
                h["cbeg"] = now
                h["connects"] += 1
            elif ev[0] == "connectEnd":
                h["cend"], h["connret"] = now, int(ev[2])
            elif ev[0] == "read":
                fd, ret = int(ev[1]), int(ev[3])
                if ret > 0 and (fd - 1000) // 2 == i:
                    h["got"][(fd - 1000) % 2] += ret
            elif ev[0] == "close":
                fd = int(ev[1])
                if (fd - 1000) // 2 == i:
                    h["closed"][(fd - 1000) % 2] = True
            elif ev[0] == "fputs":
                data = bytes.fromhex(ev[2]) if ev[2] != "-" else b""
                if ev[1] == "1":
                    h["stdout"] += data
                else:
                    if re.match(rb"^pdsh@[^:]*: ", data):
                        h["reports"].append((now, data))
                        if TIMEOUT_RE.search(data) and h["connret"] is not None and h["connret"] >= 0:
                            h["timeout_at"] = now          # given up on while its command was running
                    else:
                        h["stderr"] += data
            elif ev[0] == "destroyBegin":
                h["done_at"] = now
    return H


def strip_labels(data, name):
    pre = (name + ": ").encode()
    return b"".join(l[len(pre):] if l.startswith(pre) else b"\x00UNLABELLED:" + l for l in data.splitlines(True))


def scripted(host, key):
    return b"".join(bytes.fromhex(d) for _, d in host.get(key, []) if d not in ("EOF", "ERR"))


def stream_end(beh, streams):
    """instant (after connect) at which the last polled stream closes; None = never"""
    e = 0
    for s in streams:
        for t, what in beh.get(s, []):
            if t < 0:
                return None
            e = max(e, t)
            if what in ("EOF", "ERR"):
                break
    return e


def offenders(res):
    """C07 decided on the observable behaviour of the real dsh() run.  -> list of (signature, what)"""
    out = []
    case = res["case"]
    if res["crash"] is not None:
        txt = res["crash"]
        k = txt.find("ERROR: ")
        return [("crash", "harness process aborted: " + (txt[k:k + 160] if k >= 0 else txt[:160]).replace("\n", " "))]
    if res["bug"]:
        return [("harness-bug", res["bug"])]
    m = res["M"]
    ct, ut, sopt = case["opts"]["ct"], case["opts"]["ut"], case["opts"]["sopt"]
    streams = ["out", "err"] if sopt else ["out"]
    excl = excluded(case)
    status = m["status"]
    if status == "ok":
        pass
    elif status == "deadlock" and excl:
        return out                     # a hanging host with its timeout switched off: pdsh waits, as documented
    elif status == "deadlock":
        # is the run waiting, inside rcmd_destroy(), for a command that never exits: one that ignores the SIGTERM it
        # was sent at the command timeout, or one that closed its streams and was therefore never sent a signal?
        tw = teardown_waiters(res)
        Hs = observe(res)
        # (a) reported as timed out, sent SIGTERM, ignores it; (b) ended normally, never sent anything, runs on
        # (b) only if the target's polled streams really end by themselves (script): a worker that left its read loop
        # early for any other reason and then waits for the command is NOT this finding
        imm = [(i, t) for i, never, t in tw if never and
               ((Hs[i]["timeout_at"] is not None and t and case["behaviours"][i].get("ignoreterm")) or
                (Hs[i]["timeout_at"] is None and not t and stream_end(case["behaviours"][i], streams) is not None and
                 all(Hs[i]["closed"][k] for k in range(2 if sopt else 1))))]
        if tw and len(imm) == len(tw):
            out.append(("no-return:teardown-waits-for-command",
                        "command timeout %d, but dsh() never returns: %s; the command timeout does not apply to the "
                        "teardown" % (ut, "; ".join(
                            "%s: rcmd_destroy waits for its command, which %s" %
                            (case["hosts"][i]["name"], "ignores the SIGTERM it was sent at the command timeout" if t
                             else "closed its streams and runs on (no signal is ever sent to it)") for i, t in imm))))
        else:
            out.append(("no-return", "no runnable thread and time cannot help although every hang is covered by a timeout"))
    elif status in ("budget", "spin"):
        out.append(("no-termination", "step budget exceeded / a thread spins"))
    elif status == "exit":
        out.append(("exit:%s" % m["code"], "pdsh called exit(%s)" % m["code"]))
    else:
        out.append(("harness-bug", "status " + status))
    H = observe(res)
    for _, now, th, ev in events(res):
        if ev[0] == "fwd" and "stale-efd" in ev:
            out.append(("signal-on-stale-descriptor", "at %d the signal for %s was sent over a descriptor number that is "
                        "not (any more) its open stderr connection: it reaches whoever owns that number now" %
                        (now, case["hosts"][int(ev[1])]["name"])))
            break
    total_bound = slip = 0
    for i, (host, beh, h) in enumerate(zip(case["hosts"], case["behaviours"], H)):
        name = host["name"]
        kind = beh["conn"][0]
        d = beh["conn"][1] if len(beh["conn"]) > 1 else 0
        if h["connects"] > 1:
            out.append(("started-twice", "%s was connected %d times" % (name, h["connects"])))
        if h["start"] is None:
            if status == "ok":
                out.append(("not-started", "%s never had its command started" % name))
            continue
        if h["cbeg"] is None or h["cend"] is None:
            if status == "ok":
                out.append(("not-started", "%s: connect never completed although dsh() returned" % name))
            continue
        total_bound += max(0, beh.get("life", 0)) + beh.get("termgrace", 0)
        # ---- the outcome the worker leaves in its slot (thd_t.state when it enters its epilogue)
        fin = (res.get("finals") or {}).get("W%d" % i)
        if fin is not None:
            failed_obs = h["connret"] < 0 or h["timeout_at"] is not None
            stt = int(fin.get("state", -1))
            if failed_obs and stt != 4:
                out.append(("outcome-state", "%s was given up on (%s) but its slot does not end in state FAILED (state=%d)"
                            % (name, "command timeout" if h["timeout_at"] is not None else "connect failed", stt)))
            elif not failed_obs and stt != 3:
                out.append(("outcome-state", "%s completed but its slot does not end in state DONE (state=%d)" % (name, stt)))
        # ---- connect phase
        must_to = ct > 0 and (kind == "hang" or d > ct + WDOG_POLL)
        may_to = ct > 0 and (kind == "hang" or d > ct)
        interrupted = h["connret"] < 0 and any(h["cbeg"] <= t <= h["cend"] for t in h["hits"])
        total_bound += min(d, ct + WDOG_POLL) if (ct > 0 and kind != "hang") else (ct + WDOG_POLL if kind == "hang" else d)
        if interrupted:
            if not may_to or h["cend"] <= h["start"] + ct:
                # not overdue at all; was the SIGALRM meant for an earlier, finished worker whose thread id this
                # worker inherited?
                stale = [t for t in h["stale"] if h["cbeg"] <= t <= h["cend"]]
                out.append(("healthy-host-interrupted" + (":stale-thread-id" if stale else ""),
                            "%s: connect interrupted by the watchdog at %d although it started at %d, connect timeout "
                            "%d%s" % (name, h["cend"], h["start"], ct,
                                      " (pthread_kill used the id of a worker that had already finished; the id now "
                                      "belongs to this worker)" if stale else "")))
                continue
            if h["cend"] > h["start"] + ct + WDOG_POLL:
                out.append(("connect-deadline", "%s still connecting at %d, started %d, connect timeout %d" %
                            (name, h["cend"], h["start"], ct)))
            if not any(names_host(r, name) for _, r in h["reports"]):
                out.append(("not-reported", "%s: connect timed out but nothing on stderr under its name" % name))
            continue
        if must_to:
            out.append(("connect-deadline", "%s: connect takes %s, connect timeout %d, but it was never interrupted" %
                        (name, "forever" if kind == "hang" else "%ds" % d, ct)))
            continue
        if h["cend"] != h["cbeg"] + d:
            out.append(("connect-instant", "%s: connect result at +%d expected +%d" % (name, h["cend"] - h["cbeg"], d)))
        if kind == "refuse":
            if h["connret"] >= 0:
                out.append(("refused-but-connected", name))
            elif not any(names_host(r, name) for _, r in h["reports"]):
                out.append(("not-reported", "%s: connection refused but nothing on stderr under its name" % name))
            continue
        if h["connret"] < 0:
            out.append(("connect-failed", "%s: connect failed although the host accepts" % name))
            continue
        # ---- command phase
        e = stream_end(beh, streams)
        must_to = ut > 0 and (e is None or e > ut + WDOG_POLL)
        may_to = ut > 0 and (e is None or e > ut)
        total_bound += (min(e, ut + WDOG_POLL) if e is not None else ut + WDOG_POLL) if ut > 0 else (e or 0)
        timed_out = h["timeout_at"] is not None
        got_out = strip_labels(h["stdout"], name)
        got_err = strip_labels(h["stderr"], name)
        if timed_out:
            if not may_to:
                out.append(("healthy-host-timed-out", "%s: command timeout reported although its streams end at +%s "
                            "<= command timeout %d" % (name, e, ut)))
            if h["timeout_at"] > h["cend"] + ut + WDOG_POLL:
                # was a SIGALRM for this host lost because it was busy relaying output (not inside xpoll)?
                lost = [t for t in h["lost"] if h["cend"] + ut < t < h["timeout_at"]]
                out.append(("command-deadline" + (":signal-lost-outside-xpoll" if lost else ""),
                            "%s abandoned at %d, connected %d, command timeout %d%s" %
                            (name, h["timeout_at"], h["cend"], ut,
                             " (the watchdog's SIGALRM at %s found the worker outside xpoll, relaying output, and "
                             "was lost)" % lost if lost else "")))
                slip += WDOG_POLL * len(lost)
            if not any(names_host(r, name) and TIMEOUT_RE.search(r) for t, r in h["reports"] if t >= h["timeout_at"]):
                out.append(("not-reported", "%s: command timeout not reported under its own name" % name))
            if not scripted(host, "out").startswith(got_out):
                out.append(("output-corrupted", "%s: stdout before the timeout is not a prefix of what it sent" % name))
            continue
        if must_to:
            if status == "ok":
                lost = [t for t in h["lost"] if h["cend"] + ut < t]
                out.append(("command-deadline" + (":signal-lost-outside-xpoll" if lost else ""),
                            "%s: streams stay open %s, command timeout %d, but it was never abandoned%s" %
                            (name, "forever" if e is None else "until +%d" % e, ut,
                             " (the watchdog's SIGALRM at %s found the worker outside xpoll, relaying output, and "
                             "was lost)" % lost if lost else "")))
                slip += WDOG_POLL * len(lost)
            continue
        if e is None:
            continue                   # hangs, no timeout: excluded run
        if status == "ok" or h["done_at"] is not None:
            if got_out != scripted(host, "out"):
                out.append(("output-incomplete", "%s: stdout relayed %r, sent %r" % (name, got_out[:80], scripted(host, "out")[:80])))
            if sopt and got_err != scripted(host, "err"):
                out.append(("output-incomplete", "%s: stderr relayed %r, sent %r" % (name, got_err[:80], scripted(host, "err")[:80])))
            if h["done_at"] is not None and h["done_at"] != h["cend"] + e:
                out.append(("finish-instant", "%s: streams end at +%d but the worker finished at +%d" %
                            (name, e, h["done_at"] - h["cend"])))
    # a worker that, having given its target up, waits a grace period and then sends SIGKILL (repair of
    # F07-TEARDOWN-WAIT): the grace actually taken, at most one watchdog period per target, is not the hosts' time
    term, grace = {}, 0
    for _, now, th, ev in events(res):
        if ev[0] == "fwd" and ev[2] == "15":
            term.setdefault(ev[1], now)
        elif ev[0] == "fwd" and ev[2] == "9" and ev[1] in term:
            grace += min(now - term.pop(ev[1]), WDOG_POLL)
    slip += grace
    if status == "ok" and int(m["clock"]) - res["clock0"] > total_bound + slip:
        out.append(("run-not-bounded", "the run took %d virtual seconds, the hosts' own durations and timeouts add up "
                    "to %d" % (int(m["clock"]) - res["clock0"], total_bound)))
    return out


# ---------------------------------------------------------------------------- projection for the acceptor
def items_text(beh, key):
    its = []
    for t, what in beh.get(key, []):
        k = "e" if what == "EOF" else "x" if what == "ERR" else "d%d" % what
        its.append("%s:%s" % ("-" if t < 0 else t, k))
    return ",".join(its) if its else "-"


def tfilter(names):
    if names in (None, "-", ""):
        return "-"
    keep = [n for n in names.split(",") if n in ("D", "G") or n.startswith("W")]
    return ",".join(keep) if keep else "-"


def detect_selfcheck(exe, scratch):
    """Does the worker test the command timeout itself at the top of its poll loop (the proposed repair of
    F07-LOSTALRM) or only after EINTR (the pinned source)?  Decided by behaviour: target 1 is connected at second 1
    (target 0 takes one second, fanout 1), command timeout 1, it sends data at +0 and +2 and keeps the stream open
    until +3.  At second 3 no watchdog poll happens (polls are at even seconds); a worker that tests the timeout
    itself reports `command timeout` at 3, the pinned source relays the data and goes back to xpoll."""
    first = {"conn": ["ok", 0], "out": [[1, "EOF"]], "err": []}
    probe = {"conn": ["ok", 0], "out": [[0, 4], [2, 4], [3, "EOF"]], "err": []}
    case = mk_case([first, probe], 1, 0, 1, False, 1, strategy="first")
    res = run_cases(exe, [case], scratch)[0]
    if res["crash"] is not None or res["M"] is None:
        return False, res
    h = observe(res)[1]
    return h["timeout_at"] == 3, res


def detect_stopwdog(exe, scratch):
    """Does dsh() stop the watchdog (cancel + join) before it returns (part of the proposed repair of F07-STALEID)
    or does the watchdog run on (the pinned source)?  Decided by behaviour: is the watchdog thread still alive when
    dsh() returns?"""
    case = mk_case([{"conn": ["ok", 0], "out": [[0, "EOF"]], "err": []}], 1, 1, 0, False, 1, strategy="first")
    res = run_cases(exe, [case], scratch)[0]
    if res["crash"] is not None or res["M"] is None:
        return False
    return "G" not in [x for x in res["M"].get("alive", "").split(",") if x]


def detect_killafter(exe, scratch):
    """Does a worker that gave its target up at the command timeout make sure the command goes away (wait a grace
    period, then SIGKILL -- the proposed repair of F07-TEARDOWN-WAIT case (a)), or does it go straight into
    rcmd_destroy() and wait for as long as the command lives (the tree as it is)?  Decided by behaviour: one target
    whose command never exits and ignores SIGTERM, command timeout 1: is it sent SIGKILL, and does dsh() return?"""
    imm = {"conn": ["ok", 0], "out": [[0, 4], [-1, "EOF"]], "err": [[-1, "EOF"]], "life": -1, "ignoreterm": 1}
    case = mk_case([imm], 1, 2, 1, False, 1, strategy="first")
    res = run_cases(exe, [case], scratch)[0]
    if res["crash"] is not None or res["M"] is None:
        return False
    killed = any(ev[0] == "fwd" and ev[2] == "9" for _, _, _, ev in events(res))
    return killed and res["M"].get("status") == "ok"


def gave_up(res):
    """did some worker give its target up at the command timeout in this run (it forwarded SIGTERM to it)?"""
    n = len(res["case"]["hosts"])
    return any(th.startswith("W") and ev[0] == "fwd" and ev[2] == "15" and th[1:] == ev[1] and int(ev[1]) < n
               for _, _, th, ev in events(res))


def project(res, variant, selfcheck=False, stopwdog=False, killafter=False):
    case = res["case"]
    o = case["opts"]
    L = ["init %s %d %d %d %d %d %d%s" % (variant, case["fanout"], o["ct"], o["ut"], o["sopt"], 1 if selfcheck else 0,
                                          1 if stopwdog else 0, " 1" if killafter else "")]
    if o.get("k"):
        L.append("kopt 1")
    for b in case["behaviours"]:
        life = b.get("life", 0)
        L.append("host %s %d %s %s %s %s" % (b["conn"][0], b["conn"][1] if len(b["conn"]) > 1 else 0,
                                              items_text(b, "out"), items_text(b, "err"),
                                              "-" if life < 0 else life,
                                              "-" if b.get("ignoreterm") else b.get("termgrace", 0)))
        if o.get("k") and b.get("rc", 0) > 0 and b["conn"][0] == "ok":
            L.append("nz")
    L.append("go")
    n = len(case["hosts"])
    got = [[0, 0] for _ in range(n)]
    closed = [[False, False] for _ in range(n)]
    resv = ["none"] * n
    hit = [False] * n
    # inline operations grouped by the step they follow
    by_step = {}
    for idx, t in res["inline"]:
        by_step.setdefault(idx - 1, []).append(t)
    now = 0
    sopt = o["sopt"]

    def absorb(i, toks):
        """account the inline reads / closes / reports of worker i"""
        for t in toks:
            if t[0] != "W%d" % i:
                continue
            if t[1] == "read" and int(t[4]) > 0:
                got[i][(int(t[2]) - 1000) % 2] += int(t[4])
            elif t[1] == "close":
                closed[i][(int(t[2]) - 1000) % 2] = True
            elif t[1] == "fputs" and t[2] == "2" and resv[i] == "none" and \
                    TIMEOUT_RE.search(bytes.fromhex(t[3] if t[3] != "-" else "")):
                resv[i] = "cmdTimedOut"
        if resv[i] == "none" and closed[i][0] and (closed[i][1] or not sopt):
            resv[i] = "done"

    def obs(i):
        return "obs %d %d %d %d %d %s" % (i, got[i][0], got[i][1], closed[i][0], closed[i][1], resv[i])

    for k, (s, ev) in enumerate(res["steps"]):
        ev = list(ev) + ["", ""]
        st = None
        if s is not None:
            st = "st %s %s %s %s %d" % (s["tc"], tfilter(s["R"]), tfilter(s["P"]), tfilter(s["X"]), now)
        th, e = ev[0], ev[1]
        if th == "-" and e == "tick":
            to = int(ev[2]) - res["clock0"]
            if st:
                L.append(st)
            L += ["ev tick"] * max(0, to - now)
            now = to
            continue
        fe = sched.fan_event(ev)
        if th == "G":
            if e == "sleep":
                hits = [t[2][1:] for t in by_step.get(k, []) if t[0] == "G" and t[1] == "kill" and t[4] == "1"]
                for x in hits:
                    hit[int(x)] = True
                if st:
                    L.append(st)
                L.append("ev G scan " + (",".join(hits) if hits else "-"))
            continue
        if th.startswith("W") and e == "poll":
            i = int(th[1:])
            if st:
                L.append(st)
            L.append("ev %s wake" % th)
            absorb(i, by_step.get(k, []))
            L.append(obs(i))
            continue
        if fe is None:
            continue
        if st:
            L.append(st)
        if th.startswith("W") and e == "destroyEnd":
            fe = list(fe) + ["eintr" if "EINTR-not-reaped" in ev else "reaped"]
        L.append("ev " + " ".join(fe))
        if th.startswith("W") and e == "connectEnd":
            i = int(th[1:])
            if int(ev[3]) < 0:
                resv[i] = "connTimedOut" if hit[i] else "connFailed"
            hit[i] = False
            absorb(i, by_step.get(k, []))
            L.append(obs(i))
        elif th.startswith("W") and e == "connectBegin":
            hit[int(th[1:])] = False
        if th.startswith("W") and any(t[0] == th and t[1] == "exit" for t in by_step.get(k, [])):
            L.append("ev %s abort" % th)          # -k: the worker forwarded SIGTERM and called exit()
    status = (res["M"] or {}).get("status", "crash")
    if status == "deadlock" and res.get("last_S"):
        s = res["last_S"]
        L.append("st %s %s %s %s %d" % (s["tc"], tfilter(s["R"]), tfilter(s["P"]), tfilter(s["X"]), now))
    L.append("end " + status)
    return L


def accept_all(ctx, batches):
    text = "".join(l + "\n" for b in batches for l in b)
    ans = ctx.model("timed", text)
    out, pos = [], 0
    for b in batches:
        a = ans[pos:pos + len(b)]
        pos += len(b)
        bad = None
        for i, (l, x) in enumerate(zip(b, a)):
            if x != "ok":
                bad = (i, l, x)
                break
        if bad is None and len(a) != len(b):
            bad = (len(a), "", "driver produced too few answers")
        out.append(bad)
    return out


def run_cases(exe, cases, scratch):
    rs = sched.run_many(exe, cases, scratch)
    for r in rs:
        r["clock0"] = CLOCK0
    return rs


def pack(res):
    c = {k: v for k, v in res["case"].items()}
    c["strategy"] = "list"
    c["choices"] = res["choices"]
    c.pop("spurious", None)
    if res.get("crash"):
        c = dict(res["case"])
    ev = ["%d %s %s" % (now, th, " ".join(e)) for _, now, th, e in events(res)
          if not (e[0] in ("lock", "unlock", "time", "sigmask") or th == "Z")] if not res.get("crash") else []
    return {"case": c, "monitors": res["M"], "events(virtual second, thread, operation)": ev[:500],
            "crash": res.get("crash"),
            "how": "harness/sched: `sched_run <case file>` (vlib.sched.case_text(case)); behaviours = the hosts' scripts"}
